"""Parser for the dialect grammar skeletons under specs/*.ebnf and their compilation to NFAs.

  name := alt ('|' alt)*           one production per line; a line starting with whitespace continues the previous one
  item := "TOKEN" | <symbol> | name | '[' alts ']' | '(' alts ')' ('*' | '+')?
  # comment

"TOKEN" is one SQL token (case-insensitive keyword or punctuation); <symbol> is a hole / nonterminal symbol of the
renderer mapping; `name` refers to another production and is inlined (no recursion)."""
import re

from .automata import NFA

TOKEN_RE = re.compile(r'\s*(?:("(?:[^"\\]|\\.)*")|(<[A-Za-z_\-]+>)|([A-Za-z_][A-Za-z_0-9]*)|(:=)|([\[\]()|*+]))')


class Grammar:
    def __init__(self, text, name="grammar"):
        self.name = name
        self.prods = {}
        self.order = []
        cur = None
        for raw in text.splitlines():
            line = raw.split("#", 1)[0].rstrip() if not raw.lstrip().startswith("#") else ""
            if not line.strip():
                continue
            if line[0].isspace() and cur is not None:
                self.prods[cur] += " " + line.strip()
                continue
            m = re.match(r"^([A-Za-z_][A-Za-z_0-9]*)\s*:=\s*(.*)$", line)
            if not m:
                raise ValueError("%s: cannot parse line %r" % (name, raw))
            cur = m.group(1)
            self.prods[cur] = m.group(2)
            self.order.append(cur)
        self.ast = {k: self._parse(v, k) for k, v in self.prods.items()}

    def _tokens(self, s, where):
        out = []
        pos = 0
        while pos < len(s):
            if s[pos:].strip() == "":
                break
            m = TOKEN_RE.match(s, pos)
            if not m:
                raise ValueError("%s/%s: bad token at %r" % (self.name, where, s[pos:pos + 20]))
            pos = m.end()
            if m.group(1):
                out.append(("T", m.group(1)[1:-1].upper()))
            elif m.group(2):
                out.append(("S", m.group(2)))
            elif m.group(3):
                out.append(("N", m.group(3)))
            elif m.group(5):
                out.append((m.group(5), None))
        return out

    def _parse(self, s, where):
        toks = self._tokens(s, where)
        pos = [0]

        def alts():
            seqs = [seq()]
            while pos[0] < len(toks) and toks[pos[0]][0] == "|":
                pos[0] += 1
                seqs.append(seq())
            return ("alt", seqs) if len(seqs) > 1 else seqs[0]

        def seq():
            items = []
            while pos[0] < len(toks) and toks[pos[0]][0] not in ("|", "]", ")"):
                items.append(item())
            return ("seq", items)

        def item():
            k, v = toks[pos[0]]
            pos[0] += 1
            if k in ("T", "S", "N"):
                node = (k, v)
            elif k == "[":
                inner = alts()
                assert toks[pos[0]][0] == "]", "%s/%s: missing ]" % (self.name, where)
                pos[0] += 1
                node = ("opt", inner)
            elif k == "(":
                inner = alts()
                assert toks[pos[0]][0] == ")", "%s/%s: missing )" % (self.name, where)
                pos[0] += 1
                node = inner
            else:
                raise ValueError("%s/%s: unexpected %r" % (self.name, where, k))
            while pos[0] < len(toks) and toks[pos[0]][0] in ("*", "+"):
                node = ("star" if toks[pos[0]][0] == "*" else "plus", node)
                pos[0] += 1
            return node
        r = alts()
        if pos[0] != len(toks):
            raise ValueError("%s/%s: trailing input" % (self.name, where))
        return r

    def nfa(self, start_symbol):
        a = NFA()
        s, e = a.state(), a.state()
        self._build(a, self.ast[start_symbol], s, e, (start_symbol,))
        return a, s, e

    def _build(self, a, node, s, e, stack):
        k = node[0]
        if k == "T" or k == "S":
            a.add(s, node[1], e)
        elif k == "N":
            if node[1] not in self.ast:
                raise ValueError("%s: unknown production %s" % (self.name, node[1]))
            if node[1] in stack:
                raise ValueError("%s: recursive production %s" % (self.name, node[1]))
            self._build(a, self.ast[node[1]], s, e, stack + (node[1],))
        elif k == "seq":
            cur = s
            items = node[1]
            if not items:
                a.add_eps(s, e)
                return
            for i, it in enumerate(items):
                nxt = e if i == len(items) - 1 else a.state()
                self._build(a, it, cur, nxt, stack)
                cur = nxt
        elif k == "alt":
            for alt in node[1]:
                self._build(a, alt, s, e, stack)
        elif k == "opt":
            a.add_eps(s, e)
            self._build(a, node[1], s, e, stack)
        elif k in ("star", "plus"):
            m1, m2 = a.state(), a.state()
            a.add_eps(s, m1)
            self._build(a, node[1], m1, m2, stack)
            a.add_eps(m2, m1)
            a.add_eps(m2, e)
            if k == "star":
                a.add_eps(s, e)
        else:
            raise ValueError("node %r" % (k,))
