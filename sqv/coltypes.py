"""Column type tables: what each backend writes for every ColumnType variant (tabulated by abstract interpretation of
the resolved prepare_column_type) against the dialect's type list / SQLite's affinity algorithm."""
import json
import os
import re

from . import kw
from . import link as L
from .facts import VERIF
from .interp import Diverged, Opaque, Unsupported, Var

CT = "crate::table::column::ColumnType"
SL = "crate::table::column::StringLen"
CS = "crate::table::column::ColumnSpec"


def samples(v):
    """payload samples per variant: [(label, payload, numbers that must be forwarded in order)]"""
    n = v["name"]
    if n == "Char":
        return [("none", [None], []), ("n", [("__some", 11)], [11])]
    if n in ("String", "VarBinary"):
        return [("none", [Var(SL + "::None")], []), ("n", [Var(SL + "::N", [11])], [11]), ("max", [Var(SL + "::Max")], [])]
    if n in ("Decimal", "Money"):
        return [("none", [None], []), ("ps", [("__some", (11, 3))], [11, 3])]
    if n == "Interval":
        return [("none", [None, None], []), ("p", [None, ("__some", 3)], [3])]
    if n in ("Binary", "VarBit"):
        return [("n", [13], [13])]
    if n in ("Bit", "Vector"):
        return [("none", [None], []), ("n", [("__some", 7)], [7])]
    if n == "Array":
        return [("int", [Var(CT + "::Integer")], [])]
    if n == "Custom":
        return [("iden", [Opaque("iden")], [])]
    if n == "Enum":
        return [("enum", [Opaque("name"), []], [])]
    return [("plain", [], [])]


def render_type(f, linker, dialect, val, specs):
    if dialect == "sqlite":
        tgt = [k for k in f.fns if k.endswith("SqliteQueryBuilder>::prepare_column_type") and "TableBuilder" not in k]
        if len(tgt) != 1:
            raise Unsupported("sqlite inherent prepare_column_type not found")
        it = kw._mk_interp(f, linker)
        try:
            it.call_fn(tgt[0], [Opaque("self"), specs, val, Opaque("sql")])
        except Diverged:
            return None
        return "".join(t for s, t in it.out if s == "sql")
    return kw.render(f, linker, kw.TRAITS["TB"], "prepare_column_type", [val])


def sqlite_affinity(name):
    """SQLite's column affinity algorithm (datatype3.html, section 3.1) applied to a declared type name"""
    n = name.upper()
    if "INT" in n:
        return "INTEGER"
    if "CHAR" in n or "CLOB" in n or "TEXT" in n:
        return "TEXT"
    if "BLOB" in n or n.strip() == "":
        return "BLOB"
    if "REAL" in n or "FLOA" in n or "DOUB" in n:
        return "REAL"
    return "NUMERIC"


def parse_type(txt):
    m = re.match(r"^\s*([A-Za-z_][A-Za-z_ ]*?)\s*(?:\(([^()]*)\))?\s*((?:\[\]|UNSIGNED|\s)*)$", txt)
    if not m:
        return None
    name = m.group(1).strip()
    args = [a.strip() for a in m.group(2).split(",")] if m.group(2) is not None else []
    suffix = m.group(3).split()
    return name, args, suffix


def check_sqlite(run, rule, f, cfg):
    sp = json.load(open(os.path.join(VERIF, "specs", "sqlite_affinity.json")))
    linker = L.Linker(f, "sqlite")
    n = 0
    for v in f.adts[CT]["variants"]:
        vn = v["name"]
        if vn == "Custom":
            continue
        for label, payload, nums in samples(v):
            val = Var(v["def"], payload)
            for auto in (False, True):
                specs = [Var(CS + "::AutoIncrement")] if auto else []
                if auto and vn not in sp["integer_variants"]:
                    continue
                key = "sqlite:type:%s:%s%s" % (vn, label, ":autoincrement" if auto else "")
                try:
                    txt = render_type(f, linker, "sqlite", val, specs)
                except Unsupported as e:
                    run.ob(rule, key, False, "SQLite column type of %s outside the tabulated fragment: %s" % (vn, e), cfg=cfg)
                    continue
                n += 1
                if vn in sp["not_available"]:
                    run.ob(rule, key, txt is None, "SQLite has no %s type: the renderer refuses it%s" % (vn, "" if txt is None else " - but it writes %r" % txt), cfg=cfg)
                    continue
                if vn not in sp["affinity"]:
                    run.ob(rule, key, False, "ColumnType::%s has no intended affinity in specs/sqlite_affinity.json (writes %r)" % (vn, txt), cfg=cfg)
                    continue
                if txt is None:
                    run.ob(rule, key, False, "SQLite renderer refuses ColumnType::%s, which is listed as supported" % vn, cfg=cfg)
                    continue
                pt = parse_type(txt)
                aff = sqlite_affinity(pt[0] if pt else txt)
                fw = pt is not None and [a for a in pt[1]] == [str(x) for x in nums]
                run.ob(rule, key, aff == sp["affinity"][vn] and fw,
                       "SQLite: ColumnType::%s (%s) is declared as `%s`; SQLite's affinity algorithm gives %s, intended %s; parameters forwarded in order: %s" % (
                           vn, label, txt, aff, sp["affinity"][vn], "yes" if fw else "NO"), cfg=cfg)
                if auto:
                    run.ob(rule, key + ":integer", (pt[0] if pt else "").lower() == "integer" and not (pt and pt[1]),
                           "SQLite: an AUTOINCREMENT column of ColumnType::%s is declared `%s`; SQLite only allows AUTOINCREMENT on a column declared exactly INTEGER" % (vn, txt), cfg=cfg)
    return n


def check_dialect(run, rule, f, cfg, dialect):
    sp = json.load(open(os.path.join(VERIF, "specs", "types.json")))[dialect]
    linker = L.Linker(f, dialect)
    n = 0
    for v in f.adts[CT]["variants"]:
        vn = v["name"]
        if vn in ("Custom",):
            continue
        for label, payload, nums in samples(v):
            val = Var(v["def"], payload)
            key = "%s:type:%s:%s" % (dialect, vn, label)
            try:
                txt = render_type(f, linker, dialect, val, [])
            except Unsupported as e:
                run.ob(rule, key, False, "%s column type of %s outside the tabulated fragment: %s" % (dialect, vn, e), cfg=cfg)
                continue
            n += 1
            if vn in sp["not_available"]:
                run.ob(rule, key, txt is None, "%s has no %s type: the renderer refuses it%s" % (dialect, vn, "" if txt is None else " - but it writes %r" % txt), cfg=cfg)
                continue
            if txt is None:
                run.ob(rule, key, False, "%s renderer refuses ColumnType::%s, which the dialect supports" % (dialect, vn), cfg=cfg)
                continue
            if vn == "Enum":
                ok = (dialect == "mysql" and txt.startswith("ENUM(")) or (dialect == "postgres" and txt == "<name>")
                run.ob(rule, key, ok, "%s: an enum column is declared as %r" % (dialect, txt), cfg=cfg)
                continue
            t2 = txt.replace("<call>", "").replace("<prepare_column_type>", "")
            txt = t2
            if dialect == "postgres" and vn == "Interval":
                # interval [fields] [(p)]
                t2 = txt
            pt = parse_type(t2)
            ok = pt is not None
            why = ""
            if ok:
                name, args, suffix = pt
                lname = name.lower()
                ok = lname in sp["names"]
                why = "type name `%s` %s" % (name, "is defined by the dialect" if ok else "is NOT a type of the dialect")
                if ok:
                    mx = sp["names"][lname]
                    if mx >= 0 and len(args) > mx:
                        ok = False
                        why += "; it takes at most %d parameter(s), %d written" % (mx, len(args))
                    # forwarding of the variant's numbers, in order (defaults such as varchar(255) are literals of the renderer)
                    if nums and mx != 0 and [a for a in args] != [str(x) for x in nums]:
                        ok = False
                        why += "; the variant's parameters %s are not forwarded in order (%s)" % (nums, args)
                    want_unsigned = vn in sp["unsigned_variants"]
                    if ("UNSIGNED" in suffix) != want_unsigned:
                        ok = False
                        why += "; UNSIGNED %s" % ("missing" if want_unsigned else "on a signed type")
                    for sfx in suffix:
                        if sfx not in sp["suffixes"]:
                            ok = False
                            why += "; unexpected suffix %s" % sfx
            else:
                why = "not of the form name[(params)]"
            run.ob(rule, key, ok, "%s: ColumnType::%s (%s) is declared as `%s`: %s" % (dialect, vn, label, txt, why), cfg=cfg)
    return n


# ---- column specification pairs ---------------------------------------------------------------------------------------------

CS = "crate::table::column::ColumnSpec"
TBT = "crate::backend::table_builder::TableBuilder"


def _mk_spec(f, v):
    flds = []
    for fl in v["fields"]:
        ty = fl["ty"] if isinstance(fl["ty"], str) else f.ty(fl["ty"])
        if "SimpleExpr" in (ty or ""):
            flds.append(Var("crate::expr::SimpleExpr::Value", [Opaque("val")]))
        elif ty == "bool":
            flds.append(True)
        else:
            flds.append(Opaque(fl["name"]))
    return Var(v["def"], flds)


def check_spec_pairs(run, rule, f, cfg, dialect):
    """prepare_column_def renders every column specification it was given, whatever else is in the list: for every ordered
    pair of ColumnSpec variants the text written for [a, b] consists of exactly the texts written for [a] and for [b]
    (in any order - SQLite moves PRIMARY KEY / AUTOINCREMENT last), tabulated by abstract interpretation"""
    if CS not in f.adts:
        run.anchor(rule, "%s:spec-pairs" % dialect, "enum ColumnSpec not found", cfg)
        return 0
    linker = L.Linker(f, dialect)
    vs = f.adts[CS]["variants"]

    def render(specs):
        cd = {"table": None, "name": Opaque("name"), "types": None, "spec": specs}
        t = kw.render(f, linker, TBT, "prepare_column_def", [cd])
        if t is None:
            return None
        return re.sub(r"^(<[^>]*>)+", "", t)
    single = {}
    try:
        for v in vs:
            single[v["name"]] = render([_mk_spec(f, v)])
    except Unsupported as e:
        run.anchor(rule, "%s:spec-pairs" % dialect, "column definition outside the tabulated fragment: %s" % e, cfg)
        return 0
    n = 0
    for a in vs:
        for b in vs:
            if a["name"] == b["name"]:
                continue
            if single[a["name"]] is None or single[b["name"]] is None:
                continue      # the backend refuses this specification
            try:
                txt = render([_mk_spec(f, a), _mk_spec(f, b)])
            except Unsupported as e:
                run.anchor(rule, "%s:spec-pair:%s:%s" % (dialect, a["name"], b["name"]), "outside the tabulated fragment: %s" % e, cfg)
                continue
            n += 1
            if txt is None:
                continue
            rest = txt
            ok = True
            for part in sorted([single[a["name"]].strip(), single[b["name"]].strip()], key=len, reverse=True):
                if not part:
                    continue
                if part in rest:
                    rest = rest.replace(part, "", 1)
                else:
                    ok = False
            ok = ok and rest.strip() == ""
            run.ob(rule, "%s:spec-pair:%s:%s" % (dialect, a["name"], b["name"]), ok,
                   "%s: a column with the specifications [%s, %s] is written `%s`; alone they are written `%s` and `%s` - %s" % (
                       dialect, a["name"], b["name"], txt.strip(), single[a["name"]].strip(), single[b["name"]].strip(),
                       "both are there, nothing else" if ok else "one of them is DROPPED or changed by the presence of the other"),
                   cfg=cfg, trivial=ok)
    return n
