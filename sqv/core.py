"""Check harness: obligations, known findings, evidence, exit status."""
import json
import os
import re
import sys
import time

from . import facts as F

VERIF = F.VERIF
KNOWN = os.path.join(VERIF, "known_findings.txt")
# runs against a scratch copy (selftest) must not overwrite the evidence of /repo
EVDIR = os.path.join(VERIF, "evidence") if not (os.environ.get("SQV_REPO") or os.environ.get("SQV_SCRATCH_EVIDENCE")) else os.path.join(VERIF, ".work", "evidence-scratch")


class Anchor(Exception):
    """An anchor (function, impl, field, idiom) the rule relies on was not found / not understood."""


class Run:
    def __init__(self, pid, tier):
        self.pid = pid
        self.tier = tier
        self.t0 = time.time()
        self.obs = []          # obligations
        self.assumptions = []
        self.trusted = ["rustc (HIR, typeck, MIR, trait solver) as run by /verif/driver sqfacts on the real cargo build",
                        "sqfacts extraction and the rule engines under /verif/sqv"]
        self.configs = []
        self.notes = []

    # ---- facts -------------------------------------------------------------------------------
    def facts(self, cfg, crate="sea_query"):
        if cfg not in self.configs:
            self.configs.append(cfg)
        return F.load(cfg, crate)

    def tier_configs(self, quick, thorough_extra=()):
        return list(quick) + (list(thorough_extra) if self.tier == "thorough" else [])

    # ---- obligations -------------------------------------------------------------------------
    def ob(self, rule, key, ok, what, sp=None, cfg=None, detail=None, trivial=False):
        """Record one obligation.  `key` identifies the construct (never a line number)."""
        key = str(key).replace(" ", "_")     # keys are single tokens (known_findings.txt is line/space oriented)
        self.obs.append({"rule": rule, "key": "%s:%s" % (rule, key), "ok": bool(ok), "what": what, "sp": sp,
                         "cfg": cfg, "detail": detail, "trivial": trivial})
        return bool(ok)

    def anchor(self, rule, key, what, cfg=None):
        """Fail closed: an anchor is missing or outside the supported fragment."""
        self.ob(rule, "anchor:" + key, False, "anchor-unrecognised: " + what, cfg=cfg)

    def floor(self, rule, name, count, minimum, cfg=None):
        """`minimum` is the number counted by hand on the full build; a dict {"full": n, "single": m} gives the count for
        the single-backend configurations (mysql / postgres / sqlite) of the thorough tier"""
        if isinstance(minimum, dict):
            minimum = minimum["single"] if cfg in ("mysql", "postgres", "sqlite") else minimum["full"]
        self.ob(rule, "floor:" + name, count >= minimum,
                "instance floor %s: analysed %d, floor %d (a rule that matches too little passes vacuously)" % (name, count, minimum),
                cfg=cfg, trivial=True)

    # ---- delegation --------------------------------------------------------------------------
    def delegate(self, other_pid, why, only_rules=None):
        """Run the rules of a sibling property whose truth this property depends on; their obligations are recorded here
        under `<this>.via<other>.<Rn>` so that a change which breaks this property through the sibling mechanism is
        reported by this check as well."""
        import importlib
        mod = importlib.import_module("sqv.props." + other_pid.lower())
        sub = Run(other_pid, self.tier)
        mod.check(sub)
        n = 0
        for o in sub.obs:
            rn = o["rule"].split(".", 1)[1] if "." in o["rule"] else o["rule"]
            if only_rules is not None and rn not in only_rules:
                continue
            rule = "%s.via%s.%s" % (self.pid, other_pid, rn)
            o2 = dict(o)
            o2["rule"] = rule
            o2["key"] = rule + o["key"][len(o["rule"]):]
            self.obs.append(o2)
            n += 1
        for c in sub.configs:
            if c not in self.configs:
                self.configs.append(c)
        self.notes.append("delegated: %d obligations of %s%s run here because %s" % (n, other_pid, (" (rules %s)" % ",".join(sorted(only_rules))) if only_rules else "", why))
        return n

    # ---- finish ------------------------------------------------------------------------------
    def finish(self, level, explanation, rule_text, extra=None):
        known = load_known(self.pid)
        fails = {}
        for o in self.obs:
            if not o["ok"]:
                fails.setdefault(o["key"], o)   # one report per key (configs collapse)
        new = [o for k, o in fails.items() if k not in known]
        matched = [(k, known[k]) for k in fails if k in known]
        stale = [k for k in known if k not in fails]
        os.makedirs(os.path.join(EVDIR, "replay"), exist_ok=True)
        lines = []
        for k, desc in matched:
            lines.append("KNOWN-FINDING: property=%s key=%s %s" % (self.pid, k, desc))
        for i, o in enumerate(new):
            rp = os.path.join(EVDIR, "replay", "%s-%d.json" % (self.pid, i))
            with open(rp, "w") as f:
                json.dump({"property": self.pid, "tier": self.tier, "violation": o}, f, indent=1)
            lines.append("VIOLATION property=%s replay=%s" % (self.pid, rp))
            lines.append("  rule=%s key=%s at=%s cfg=%s: %s" % (o["rule"], o["key"], o["sp"], o["cfg"], o["what"]))
            if o.get("detail"):
                lines.append("  detail: %s" % (json.dumps(o["detail"])[:600]))
        total = len(self.obs)
        discharged = sum(1 for o in self.obs if o["ok"])
        keys = set(o["key"] for o in self.obs if not o["trivial"])
        by_rule = {}
        for o in self.obs:
            r = by_rule.setdefault(o["rule"], {"obligations": 0, "discharged": 0})
            r["obligations"] += 1
            r["discharged"] += 1 if o["ok"] else 0
        # samples: first obligation of each rule + every failing one
        samples = []
        seen = set()
        for o in self.obs:
            if o["rule"] not in seen and not o["trivial"]:
                seen.add(o["rule"])
                samples.append({k: o[k] for k in ("rule", "key", "ok", "what", "sp", "cfg")})
        for o in fails.values():
            samples.append({k: o[k] for k in ("rule", "key", "ok", "what", "sp", "cfg")})
        cov = {
            "explanation": explanation,
            "rule": rule_text,
            "evaluations": total,
            "distinct_nontrivial": len(keys),
            "obligations": total,
            "discharged": discharged,
            "exhaustive": True,
            "checker_cmd": "./check %s --tier %s" % (self.pid, self.tier),
            "trusted_base": self.trusted,
            "samples": samples[:60],
            "configs": self.configs,
            "per_rule": by_rule,
            "known_findings_matched": [k for k, _ in matched],
            "known_findings_not_reproduced": stale,
            "new_violations": [o["key"] for o in new],
            "notes": self.notes,
        }
        if extra:
            cov.update(extra)
        ev = {
            "property_id": self.pid,
            "tier": self.tier,
            "seed": int(os.environ.get("VERIF_SEED", "0") or 0),
            "level": level,
            "coverage": cov,
            "assumptions": self.assumptions,
            "wall_s": round(time.time() - self.t0, 2),
            "violations": len(new),
        }
        with open(os.path.join(EVDIR, "%s.json" % self.pid), "w") as f:
            json.dump(ev, f, indent=1)
        print("%s tier=%s configs=%s obligations=%d discharged=%d known=%d new=%d wall=%.1fs" % (
            self.pid, self.tier, ",".join(self.configs), total, discharged, len(matched), len(new), time.time() - self.t0))
        for r, c in sorted(by_rule.items()):
            print("  %-10s %d/%d" % (r, c["discharged"], c["obligations"]))
        for l in lines:
            print(l)
        if stale:
            print("note: known findings not reproduced on this tree: %s" % ", ".join(stale))
        return 1 if new else 0


def load_known(pid):
    out = {}
    if not os.path.exists(KNOWN):
        return out
    for line in open(KNOWN):
        line = line.strip()
        m = re.match(r"known:\s+property=(\S+)\s+key=(\S+)\s+(.*)", line)
        if m and m.group(1) == pid:
            out[m.group(2)] = m.group(3)
    return out
