"""Extraction of string functions: str::replace chains and per-character loops (finite-state transducers)."""
from . import hir as H
from . import paths as P
from .core import Anchor
from .facts import nhir, walk
from .interp import Ch, Interp, Unsupported


def replace_chain(f, fname):
    """The body of `fname` must be `<param>.replace(a1, b1).replace(a2, b2)...` on its only path.
    Returns [(from, to), ...] in application order."""
    fn = f.fn(fname)
    ps = [p for p in P.fn_paths(fn["hir"]) if p.out != "diverge"]
    if len(ps) != 1 or ps[0].conds:
        raise Anchor("%s is not a single-path function" % fname)
    v = H.peel_ref(ps[0].value)
    chain = []
    while isinstance(v, dict) and v.get("k") == "mcall" and v["name"] == "replace":
        if not (v.get("callee") or "").endswith("str::replace") and "str>::replace" not in (v.get("callee") or "") and "::replace" not in (v.get("callee") or ""):
            raise Anchor("replace is not str::replace in %s" % fname)
        a, b = (H.peel_ref(x) for x in v["args"])
        if a.get("k") != "lit" or b.get("k") != "lit" or a["lit"]["t"] not in ("char", "str") or b["lit"]["t"] not in ("str", "char"):
            raise Anchor("non-literal replace arguments in %s" % fname)
        chain.append((a["lit"]["v"], b["lit"]["v"]))
        v = H.peel_ref(v["recv"])
    if not (isinstance(v, dict) and v.get("k") == "local"):
        raise Anchor("replace chain of %s does not start at a parameter" % fname)
    root = v["name"]
    pnames = [p["pat"].get("name") for p in fn["params"]]
    if root not in pnames:
        raise Anchor("replace chain of %s starts at `%s`, not a parameter" % (fname, root))
    other_calls = [c for c in ps[0].calls() if c.get("name") != "replace"]
    if other_calls:
        raise Anchor("%s does more than a replace chain" % fname)
    chain.reverse()
    return chain


def apply_chain(chain, s):
    for a, b in chain:
        s = s.replace(a, b)
    return s


def chain_is_homomorphism(chain):
    """sequential replace == simultaneous per-character substitution iff every `from` is a single char, the froms are
    distinct, and no later `from` occurs in an earlier `to`.  Returns (ok, reason)."""
    for a, _ in chain:
        if len(a) != 1:
            return False, "pattern %r is not a single character" % a
    froms = [a for a, _ in chain]
    if len(set(froms)) != len(froms):
        return False, "a character is replaced twice"
    for i, (_, to_i) in enumerate(chain):
        for j in range(i + 1, len(chain)):
            if chain[j][0] in to_i:
                return False, "replacement %d (%r -> %r) would be re-escaped by the later replacement of %r" % (i + 1, chain[i][0], to_i, chain[j][0])
    return True, ""


def char_loop(f, fname):
    """Extract `for c in <param>.chars() { BODY }` of fname: returns dict(loop, var, body, flags{name: init}, out_local).
    The function must consist of flag/output initialisation, that loop, and returning the output buffer."""
    fn = f.fn(fname)
    body = nhir(f, fname)
    loops = [n for n in walk(body) if n.get("k") == "loop"]
    if len(loops) != 1 or "ForLoop" not in loops[0].get("src", ""):
        raise Anchor("%s: expected exactly one for-loop" % fname)
    lp = loops[0]
    # desugared: loop { match next(&mut iter) { None => break, Some(c) => BODY } }
    ms = [n for n in walk(lp["body"]) if n.get("k") == "match" and "ForLoop" in n.get("src", "")]
    if not ms:
        raise Anchor("%s: for-loop desugaring not recognised" % fname)
    m = ms[0]
    var = None
    lbody = None
    for arm in m["arms"]:
        p = arm["pat"]
        if p.get("k") == "variant" and p["path"].get("def") == "core::option::Option::Some":
            if p["subs"][0].get("k") != "bind":
                raise Anchor("%s: loop variable is not a plain binding" % fname)
            var = p["subs"][0]["name"]
            lbody = arm["body"]
    if var is None:
        raise Anchor("%s: loop variable not found" % fname)
    # what is iterated: <param>.chars()
    it = None
    for n in walk(body):
        if n.get("k") == "mcall" and n["name"] == "chars":
            it = H.place(n["recv"])
    pnames = [p["pat"].get("name") for p in fn["params"]]
    if it not in pnames:
        raise Anchor("%s: the loop does not iterate over the characters of a parameter" % fname)
    # .. and over all of them: the iterated expression is exactly `<param>.chars()` (no take / skip / filter / rev adaptor)
    iters = [c for c in H.calls(body) if c.get("k") == "call" and (c.get("callee") or "") == "core::iter::traits::collect::IntoIterator::into_iter"]
    if len(iters) != 1:
        raise Anchor("%s: for-loop iterator not recognised" % fname)
    ie = H.peel_ref(iters[0]["args"][0])
    if not (ie.get("k") == "mcall" and ie["name"] == "chars" and not ie.get("args") and H.place(ie["recv"]) == it):
        raise Anchor("%s: the loop iterates over `%s`, not over every character of the parameter" % (fname, ie.get("src") or ie.get("name")))
    flags = {}
    out_local = None
    for n in walk(body):
        if n.get("k") == "stmt_let" and n["pat"].get("k") == "bind" and n.get("init") is not None:
            init = H.peel_ref(n["init"])
            if init.get("k") == "lit" and init["lit"]["t"] == "bool":
                flags[n["pat"]["name"]] = init["lit"]["v"]
            elif init.get("k") == "call" and init.get("callee") in ("alloc::string::String::new", "alloc::string::String::with_capacity"):
                out_local = n["pat"]["name"]
    ps = P.fn_paths(body)
    rets = set(H.place(p.value) for p in ps if p.out == "ret")
    if rets != {out_local}:
        raise Anchor("%s: does not return its output buffer" % fname)
    return {"var": var, "body": lbody, "flags": flags, "out": out_local, "input": it}


def transducer(f, fname, alphabet):
    """Tabulate the per-character loop of fname: {(state tuple, char): (state', emitted)} over every flag valuation
    and every character of `alphabet` (the caller chooses representatives: all literals + 'other' characters)."""
    cl = char_loop(f, fname)
    names = sorted(cl["flags"])
    table = {}
    from itertools import product
    for vals in product([False, True], repeat=len(names)):
        for ch in alphabet:
            it = Interp(f)
            env = dict(zip(names, vals))
            env[cl["var"]] = Ch(ch)
            env[cl["out"]] = ""
            try:
                it.ev(cl["body"], env)
            except Unsupported as e:
                raise Anchor("%s: loop body outside the supported fragment: %s" % (fname, e))
            emitted = "".join(t for recv, t in it.out if recv == cl["out"])
            foreign = [recv for recv, t in it.out if recv != cl["out"]]
            if foreign:
                raise Anchor("%s writes to %s" % (fname, foreign))
            table[(vals, ch)] = (tuple(env[n] for n in names), emitted)
    init = tuple(cl["flags"][n] for n in names)
    return names, init, table


def run_transducer(init, table, s):
    st = init
    out = ""
    for ch in s:
        st, em = table[(st, ch)]
        out += em
    return st, out


NARROWING = "<narrowing-cast>"


def widen_for_narrowing(chars):
    """a function that narrows a code point (`c as u8`) can confuse a character with any other that has the same low
    bits: for every collected character the alphabet also gets characters that agree with it in the low 8 and low 16 bits"""
    chars = set(chars)
    if NARROWING not in chars:
        return chars
    chars.discard(NARROWING)
    for c in sorted(chars):
        o = ord(c)
        for hi in (0x100, 0x4E00, 0x10000, 0x1F600 & ~0xFF):
            v = (hi & ~0xFF) | (o & 0xFF)
            if v < 0x110000 and not (0xD800 <= v <= 0xDFFF):
                chars.add(chr(v))
        if o < 0x10000:
            chars.add(chr(0x10000 | o))
    return chars


def _literal_chars(f, fname, depth=2, seen=None):
    """every character the behaviour of a function can depend on: char / str / byte / byte-string literals (expressions
    and patterns), integer literals that can be code points (a function that compares `c as u32` with 0x5C, or looks `c`
    up in a table), in the function, in the named constants it mentions and in the crate functions it calls"""
    seen = seen if seen is not None else set()
    if fname in seen or fname not in f.fns or f.fns[fname].get("hir") is None:
        return set()
    seen.add(fname)
    out = set()
    body = f.fns[fname]["hir"]

    def add_lit(l):
        if not isinstance(l, dict):
            return
        t, v = l.get("t"), l.get("v")
        if t in ("char", "str"):
            out.update(str(v))
        elif t == "byte" and isinstance(v, int) and 0 <= v < 256:
            out.add(chr(v))
        elif t == "bytes" and isinstance(v, list):
            out.update(chr(b) for b in v if isinstance(b, int) and 0 <= b < 128)
        elif t == "int" and isinstance(v, int) and 0 <= v < 0x110000 and not (0xD800 <= v <= 0xDFFF):
            out.add(chr(v))
            if v > 0:
                out.add(chr(v - 1))         # `code < 0x80`: both sides of a boundary
    for n in walk(body):
        if n.get("k") == "cast" and (f.ty(n.get("ty")) or "") in ("u8", "i8", "u16", "i16"):
            out.add(NARROWING)          # marker: the behaviour may depend on the low bits of a code point only
        if n.get("k") == "lit":
            add_lit(n.get("lit"))
        for key in ("lit", "lo", "hi"):
            if isinstance(n.get(key), dict) and n.get("k") != "lit":
                add_lit(n[key])
        if depth > 0 and n.get("k") == "path" and "Const" in (n.get("dk") or "") and n.get("def") in f.fns:
            out |= _literal_chars(f, n["def"], depth - 1, seen)
        if depth > 0 and n.get("k") in ("call", "mcall"):
            for d in (n.get("callee"), H.callee(n)):
                if d and d in f.fns and d.startswith("crate::"):
                    out |= _literal_chars(f, d, depth - 1, seen)
    return out


def literal_chars(f, fname, depth=2, seen=None):
    return widen_for_narrowing(_literal_chars(f, fname, depth, seen))


OTHER_REPS = ["a", "Z", "0", " ", "%", "\u00e9", "\u8868", "\U0001f600"]


def escape_chain(f, fname):
    """The per-character escape code of `fname` as an ordered substitution list: either the function is a
    `str::replace` chain, or a single pass `for c in s.chars() { match c { 'x' => out.push_str(".."), .. c => out.push(c) } }`
    without state, which is tabulated over every character literal of the function plus representatives of all others."""
    try:
        return replace_chain(f, fname)
    except Anchor as first:
        try:
            cl = char_loop(f, fname)
        except Anchor:
            raise first
        if cl["flags"]:
            raise Anchor("%s keeps state between characters: not a per-character code" % fname)
        alphabet = sorted(literal_chars(f, fname) | set(OTHER_REPS))
        names, init, table = transducer(f, fname, alphabet)
        pairs = []
        for ch in alphabet:
            st, em = table[((), ch)]
            if em != ch:
                if ch in OTHER_REPS and ch not in literal_chars(f, fname):
                    raise Anchor("%s rewrites the ordinary character %r" % (fname, ch))
                pairs.append((ch, em))
        # order so that applying the pairs one after the other equals the simultaneous substitution
        ordered = []
        rest = list(pairs)
        while rest:
            pick = None
            for cand in rest:
                # cand may go next if its `from` does not occur in the output of anything already placed
                if not any(cand[0] in to for _, to in ordered):
                    # and nothing still to come would be re-escaped wrongly later: handled by the final check
                    pick = cand
                    if any(cand[0] in to for _, to in rest if (_, to) != cand):
                        break       # a character that occurs in other outputs (the escape character) goes first
            if pick is None:
                raise Anchor("%s: the per-character code cannot be written as an ordered substitution list" % fname)
            ordered.append(pick)
            rest.remove(pick)
        ok, why = chain_is_homomorphism(ordered)
        if not ok:
            # try: escape character(s) first, the others in any order
            esc_first = sorted(pairs, key=lambda p_: 0 if any(p_[0] in to for a_, to in pairs if a_ != p_[0]) else 1)
            ok, why = chain_is_homomorphism(esc_first)
            if not ok:
                raise Anchor("%s: %s" % (fname, why))
            ordered = esc_first
        return ordered


# ---- string functions by interpretation ------------------------------------------------------------------------------------

class InterpStrFn:
    """A `fn(&self, &str) -> String` of the crate evaluated by the abstract interpreter on concrete short strings.  Used
    where the body is neither a replace chain nor a recognisable per-character loop: the function is then characterised
    by its values on every string up to a bounded length over the alphabet of its own character literals plus
    representatives of all other characters (the code can only compare characters against the literals it contains)."""

    def __init__(self, f, fname):
        self.f = f
        self.fname = fname
        self.cache = {}
        self.consts = {}

    def __call__(self, s):
        if s in self.cache:
            return self.cache[s]
        it = Interp(self.f)
        it.free_opaque = False
        try:
            r = it.call_fn(self.fname, [None, s])
        except Unsupported as e:
            raise Anchor("%s outside the interpreter's fragment: %s" % (self.fname, e))
        if not isinstance(r, str):
            raise Anchor("%s did not evaluate to a string on %r: %r" % (self.fname, s, r))
        self.cache[s] = r
        return r

    def alphabet(self, extra=()):
        return sorted(set(literal_chars(self.f, self.fname)) | set(OTHER_REPS) | set(extra))

    def per_char(self, alphabet):
        """the code of every single character, after checking that the function is a homomorphism on all strings of
        length 2 over the alphabet (and length 3 over the characters that are rewritten) - returns (map, problems)"""
        m = {c: self(c) for c in alphabet}
        problems = []
        if self("") != "":
            problems.append("the empty string becomes %r" % self(""))
        for a in alphabet:
            for b in alphabet:
                if self(a + b) != m[a] + m[b]:
                    problems.append("%r -> %r but %r + %r" % (a + b, self(a + b), m[a], m[b]))
        hot = [c for c in alphabet if m[c] != c] + [c for c in alphabet if any(c in v for k, v in m.items() if v != k)]
        hot = sorted(set(hot))[:6]
        for a in hot:
            for b in hot:
                for c in hot:
                    if self(a + b + c) != m[a] + m[b] + m[c]:
                        problems.append("%r -> %r" % (a + b + c, self(a + b + c)))
        return m, problems[:5]
