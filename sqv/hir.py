"""Utilities over the resolved HIR view produced by sqfacts."""
from .facts import walk

ARG_CTORS = {
    "new_display": "display", "new_debug": "debug", "new_upper_hex": "upper_hex", "new_lower_hex": "lower_hex",
    "new_octal": "octal", "new_binary": "binary", "new_lower_exp": "lower_exp", "new_upper_exp": "upper_exp",
    "new_pointer": "pointer",
}


class FmtError(Exception):
    pass


def decode_template(bs):
    """core::fmt template bytes -> [('lit', str) | ('ph', {flags,width,precision,arg})] (library/core/src/fmt/mod.rs)."""
    out = []
    i = 0
    nxt = 0
    n = len(bs)
    while True:
        if i >= n:
            raise FmtError("template not terminated")
        b = bs[i]
        i += 1
        if b == 0:
            break
        if b < 0x80:
            out.append(("lit", bytes(bs[i:i + b]).decode("utf-8")))
            i += b
        elif b == 0x80:
            ln = bs[i] | (bs[i + 1] << 8)
            i += 2
            out.append(("lit", bytes(bs[i:i + ln]).decode("utf-8")))
            i += ln
        elif b >= 0xC0:
            ph = {"flags": None, "width": None, "precision": None}
            if b & 1:
                ph["flags"] = bs[i] | (bs[i + 1] << 8) | (bs[i + 2] << 16) | (bs[i + 3] << 24)
                i += 4
            if b & 2:
                ph["width"] = bs[i] | (bs[i + 1] << 8)
                i += 2
            if b & 4:
                ph["precision"] = bs[i] | (bs[i + 1] << 8)
                i += 2
            if b & 8:
                nxt = bs[i] | (bs[i + 1] << 8)
                i += 2
            if b & 16:
                ph["width_indirect"] = True
            if b & 32:
                ph["precision_indirect"] = True
            ph["arg"] = nxt
            nxt += 1
            out.append(("ph", ph))
        else:
            raise FmtError("bad template byte %#x" % b)
    # merge adjacent literals
    merged = []
    for p in out:
        if p[0] == "lit" and merged and merged[-1][0] == "lit":
            merged[-1] = ("lit", merged[-1][1] + p[1])
        else:
            merged.append(p)
    return merged


def peel(e):
    """strip blocks that only wrap one expression, and DropTemps-like wrappers"""
    while isinstance(e, dict):
        if e.get("k") == "block" and not e.get("stmts") and e.get("expr") is not None:
            e = e["expr"]
        else:
            break
    return e


def peel_ref(e):
    """strip &, &mut, * and trivial blocks"""
    while isinstance(e, dict):
        k = e.get("k")
        if k == "block" and not e.get("stmts") and e.get("expr") is not None:
            e = e["expr"]
        elif k == "addr":
            e = e["e"]
        elif k == "unary" and e.get("op") == "deref":
            e = e["e"]
        else:
            break
    return e


def is_fmt_macro(n):
    m = n.get("mac") or []
    return any("format_args" in x for x in m)


def decode_fmt(node):
    """If `node` is the lowering of format_args!, return {'k':'fmt','pieces':[...],...}; else None.
    pieces: {'lit': str} | {'arg': <expr>, 'trait': 'display'|..., 'flags','width','precision'}"""
    n = peel(node)
    if not isinstance(n, dict):
        return None
    if n.get("k") == "call" and (n.get("callee") or "").rsplit("::", 1)[-1] in ("from_str", "from_str_nonconst") and "fmt::Arguments" in n.get("callee", ""):
        a = n["args"][0]
        if a.get("k") == "lit" and a["lit"]["t"] == "str":
            return {"k": "fmt", "pieces": [{"lit": a["lit"]["v"]}] if a["lit"]["v"] else [], "sp": node.get("sp"), "mac": node.get("mac")}
        raise FmtError("Arguments::from_str with non-literal")
    if n.get("k") != "block":
        return None
    stmts = n.get("stmts") or []
    tail = peel(n.get("expr"))
    if not (isinstance(tail, dict) and tail.get("k") == "call" and (tail.get("callee") or "").endswith("fmt::Arguments::<'a>::new")):
        return None
    if len(stmts) != 2 or any(s.get("k") != "stmt_let" for s in stmts):
        raise FmtError("unexpected format_args lowering (stmts)")
    tup = stmts[0]["init"]
    arr = stmts[1]["init"]
    if tup.get("k") != "tuple" or arr.get("k") != "array":
        raise FmtError("unexpected format_args lowering (tuple/array)")
    srcs = []
    for x in tup["es"]:
        if x.get("k") != "addr":
            raise FmtError("format arg not a borrow")
        srcs.append(x["e"])
    argv = []
    for c in arr["es"]:
        if c.get("k") != "call":
            raise FmtError("format arg not an Argument ctor")
        ctor = c["callee"].rsplit("::", 1)[-1]
        a = c["args"][0]
        if not (a.get("k") == "field" and a["base"].get("k") == "local"):
            raise FmtError("format arg source")
        argv.append((ARG_CTORS.get(ctor, ctor), srcs[int(a["name"])]))
    tb = tail["args"][0]
    if tb.get("k") != "lit" or tb["lit"]["t"] != "bytes":
        raise FmtError("template not a byte literal")
    pieces = []
    for kind, p in decode_template(tb["lit"]["v"]):
        if kind == "lit":
            pieces.append({"lit": p})
        else:
            tr, src = argv[p["arg"]]
            pieces.append({"arg": src, "trait": tr, "flags": p["flags"], "width": p["width"], "precision": p["precision"],
                           "dyn": bool(p.get("width_indirect") or p.get("precision_indirect"))})
    return {"k": "fmt", "pieces": pieces, "sp": node.get("sp"), "mac": node.get("mac")}


def normalize(node):
    """Return a copy of the tree in which format_args lowerings are replaced by {'k':'fmt',...} nodes, and
    `alloc::fmt::format(fmt)` (the body of format!) by {'k':'format', 'fmt': ...}."""
    if isinstance(node, list):
        return [normalize(x) for x in node]
    if not isinstance(node, dict):
        return node
    f = None
    if node.get("k") in ("block", "call"):
        f = decode_fmt(node)
    if f is not None:
        for p in f["pieces"]:
            if "arg" in p:
                p["arg"] = normalize(p["arg"])
        return f
    out = {}
    for k, v in node.items():
        if isinstance(v, (dict, list)) and k not in ("lit", "mac", "substs", "adj"):
            out[k] = normalize(v)
        else:
            out[k] = v
    if out.get("k") == "variant" and "fields" in out and "subs" not in out and not out.get("rest") \
            and all(str(x.get("name", "")).isdigit() for x in out["fields"]):
        # `Some { 0: c }` (for-loop / ? desugaring) == `Some(c)`
        fs = sorted(out["fields"], key=lambda x: int(x["name"]))
        if [int(x["name"]) for x in fs] == list(range(len(fs))):
            out["subs"] = [x["pat"] for x in fs]
            del out["fields"]
    if out.get("k") == "call":
        c = out.get("callee") or ""
        if c in ("alloc::__export::must_use", "core::hint::must_use") and len(out["args"]) == 1:
            return peel(out["args"][0])
        if c == "alloc::fmt::format" and len(out["args"]) == 1 and isinstance(out["args"][0], dict) and out["args"][0].get("k") == "fmt":
            return {"k": "format", "fmt": out["args"][0], "ty": out.get("ty"), "sp": out.get("sp"), "mac": out.get("mac")}
    return out


def alpha_rename(node):
    """Copy of the tree in which a local that an environment keyed by *spelling* would mis-resolve is spelled `name#id`, in
    its binding and in every use (uses are resolved by id in HIR). Ordinary shadowing never needs this - a use always
    refers to the innermost binding of its spelling - but macro hygiene can give distinct locals one spelling and use an
    outer one where an inner one is in scope (`arg` in the expansion of format_ident!). Only those locals are renamed, so
    the spellings that rules and hooks know (`sql`, `self`, parameter names) stay as they are."""
    conflict = set()

    def binds(pat, env):
        if isinstance(pat, list):
            for x in pat:
                binds(x, env)
        elif isinstance(pat, dict):
            if pat.get("k") == "bind" and "id" in pat and "name" in pat:
                env[pat["name"]] = pat["id"]
            for k, v in pat.items():
                if isinstance(v, (dict, list)) and k not in ("lit", "mac", "substs", "adj", "path"):
                    binds(v, env)

    def lets_in(cond, env_then):
        # `if let P = e` / let chains: the patterns are in scope in the then-branch
        if isinstance(cond, dict):
            if cond.get("k") == "let" and isinstance(cond.get("pat"), dict):
                binds(cond["pat"], env_then)
            for k, v in cond.items():
                if isinstance(v, dict) and k not in ("pat", "lit", "mac", "substs", "adj"):
                    lets_in(v, env_then)

    def go(n, env):
        if isinstance(n, list):
            for x in n:
                go(x, env)
            return
        if not isinstance(n, dict):
            return
        k = n.get("k")
        if k == "local":
            if "id" in n and env.get(n.get("name")) not in (None, n["id"]):
                conflict.add(n["id"])
            return
        if k == "block":
            env2 = dict(env)
            for st in n.get("stmts") or []:
                if isinstance(st, dict) and st.get("k") == "stmt_let":
                    go(st.get("init"), env2)
                    go(st.get("els"), env2)
                    binds(st.get("pat"), env2)
                else:
                    go(st, env2)
            go(n.get("expr"), env2)
            return
        if k == "match":
            go(n.get("scrut"), env)
            for arm in n.get("arms") or []:
                env2 = dict(env)
                binds(arm.get("pat"), env2)
                go(arm.get("guard"), env2)
                go(arm.get("body"), env2)
            return
        if k == "closure":
            env2 = dict(env)
            for p_ in n.get("params") or []:
                binds(p_.get("pat") if isinstance(p_, dict) and "pat" in p_ else p_, env2)
            go(n.get("body"), env2)
            return
        if k == "if":
            go(n.get("cond"), env)
            env2 = dict(env)
            lets_in(n.get("cond"), env2)
            go(n.get("then"), env2)
            go(n.get("else"), env)
            return
        for kk, v in n.items():
            if isinstance(v, (dict, list)) and kk not in ("lit", "mac", "substs", "adj", "pat"):
                go(v, env)
    go(node, {})
    if not conflict:
        return node

    def ren(n):
        if isinstance(n, list):
            return [ren(x) for x in n]
        if not isinstance(n, dict):
            return n
        out = {k: (ren(v) if isinstance(v, (dict, list)) and k not in ("lit", "mac", "substs", "adj") else v) for k, v in n.items()}
        if out.get("k") in ("bind", "local") and out.get("id") in conflict and "name" in out:
            out["name"] = "%s#%s" % (out["name"], out["id"])
        return out
    return ren(node)


def place(e):
    """Textual access path of a place expression ('self.counter', 'value', 'self.values'), or None."""
    e = peel_ref(e)
    if not isinstance(e, dict):
        return None
    k = e.get("k")
    if k == "local":
        return e["name"]
    if k == "field":
        b = place(e["base"])
        return None if b is None else b + "." + e["name"]
    if k == "index":
        b = place(e["base"])
        return None if b is None else b + "[]"
    if k == "path":
        return e.get("def")
    return None


def callee(e):
    """resolved callee def path of a call/mcall node (impl method if resolvable, else the declared one)"""
    r = e.get("resolved")
    if r and r != "=":
        return r
    return e.get("callee")


def calls(node, pred=None):
    for n in walk(node):
        if n.get("k") in ("call", "mcall") and (pred is None or pred(n)):
            yield n


def diverges(n):
    """panic!/unreachable!/unimplemented!/todo! call (resolved by callee)"""
    if n.get("k") != "call":
        return False
    c = n.get("callee") or ""
    return c.startswith("core::panicking::") or c.startswith("std::rt::begin_panic") or c.startswith("core::panic")
