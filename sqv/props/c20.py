"""C20  With thread-safe, every builder and statement type is Send + Sync.

Decided by the compiler's trait solver (queried inside the sqfacts driver on the real build):
one obligation `T: Send` and one `T: Sync` per reachable non-generic ADT / alias of the crate in
the configuration that enables `thread-safe`.  The same query in the configuration without the
feature must answer `false` for the statement types (positive control: the query discriminates)."""

META = ("proof",
        "C20.R1: T: Send and T: Sync for every reachable non-generic ADT and type alias of sea_query in config `all` "
        "(all-features incl. thread-safe), answered by rustc's trait solver; C20.R2: RcOrArc = Arc and Iden: Send + Sync "
        "in that config; C20.R3: control - the same query without thread-safe answers false for the statement types",
        "one obligation per (type, auto trait); non-trivial = a type with at least one field")

CONTROL = ["crate::query::select::SelectStatement", "crate::expr::SimpleExpr", "crate::types::SeaRc"]


def check(run):
    f = run.facts("all")
    run.trusted.append("rustc trait solver (InferCtxt::type_implements_trait)")
    n = 0
    for name, a in sorted(f.adts.items()):
        if not a.get("reachable"):
            continue
        auto = a.get("auto")
        if auto is None:
            continue  # generic: covered through the aliases / instantiations below
        nfields = sum(len(v["fields"]) for v in a["variants"])
        for tr in ("Send", "Sync"):
            run.ob("C20.R1", "%s:%s" % (name, tr), auto.get(tr) is True,
                   "%s: %s under thread-safe" % (name, tr), sp=a["sp"], cfg="all", trivial=(nfields == 0))
        n += 1
    run.floor("C20.R1", "reachable-nongeneric-adts", n, 100, cfg="all")
    # aliases (DynIden = SeaRc<dyn Iden>)
    na = 0
    for name, al in sorted(f.aliases.items()):
        auto = al.get("auto")
        if auto is None:
            continue
        for tr in ("Send", "Sync"):
            run.ob("C20.R1", "alias:%s:%s" % (name, tr), auto.get(tr) is True,
                   "alias %s = %s: %s under thread-safe" % (name, al["ty"], tr), cfg="all")
        na += 1
    run.floor("C20.R1", "aliases", na, 1, cfg="all")
    dyn = f.aliases.get("crate::types::DynIden")
    if dyn is None:
        run.anchor("C20.R1", "DynIden", "type alias crate::types::DynIden not found", cfg="all")
    # R2: mechanisms
    rc = f.aliases.get("crate::types::RcOrArc")
    if rc is None:
        run.anchor("C20.R2", "RcOrArc", "type alias crate::types::RcOrArc not found", cfg="all")
    else:
        run.ob("C20.R2", "RcOrArc", rc["ty"].startswith("alloc::sync::Arc<"),
               "RcOrArc<T> resolves to %s under thread-safe" % rc["ty"], cfg="all")
    iden = f.traits.get("crate::types::Iden")
    if iden is None:
        run.anchor("C20.R2", "Iden", "trait crate::types::Iden not found", cfg="all")
    else:
        for tr in ("core::marker::Send", "core::marker::Sync"):
            run.ob("C20.R2", "Iden:" + tr, tr in iden["supertraits"], "Iden has supertrait %s under thread-safe" % tr,
                   sp=iden["sp"], cfg="all")
    # every generic reachable ADT: list, and require it to be one of the reviewed ones
    generic = sorted(k for k, a in f.adts.items() if a.get("reachable") and a.get("auto") is None)
    for g in generic:
        a = f.adts[g]
        # a generic ADT is Send+Sync iff its parameters are (auto traits are structural) unless a field type
        # mentions a non-thread-safe pointer; check the field types textually resolved by rustc
        bad = []
        for v in a["variants"]:
            for fld in v["fields"]:
                t = f.ty(fld["ty"])
                for needle in ("alloc::rc::Rc<", "core::cell::", "*const ", "*mut ", "alloc::rc::Weak<"):
                    if needle in t:
                        bad.append((fld["name"], t))
        run.ob("C20.R1", "generic:%s" % g, not bad,
               "generic type %s has no Rc/Cell/raw-pointer field (auto traits then follow its parameters)" % g,
               sp=a["sp"], cfg="all", detail=bad or None)
    # R3: control in the config without thread-safe
    d = run.facts("all-nots") if run.tier == "thorough" else run.facts("default")
    for name in CONTROL:
        a = d.adts.get(name)
        if a is None:
            run.anchor("C20.R3", name, "control type %s not found" % name, cfg=d.cfg)
            continue
        auto = a.get("auto")
        if auto is None:
            continue
        run.ob("C20.R3", "control:" + name, auto.get("Send") is False and auto.get("Sync") is False,
               "control: without thread-safe %s is neither Send nor Sync (the query discriminates)" % name,
               sp=a["sp"], cfg=d.cfg)
    run.assumptions.append("`thread-safe` is analysed in the configuration all-features,tests-cfg (every optional value type enabled)")
