#!/bin/bash
# Development tool: runs every registered check in both tiers against /repo (scratch evidence) and prints one line each.
# usage: selftest/all.sh [quick|thorough|both]
cd "$(dirname "$0")/.."
T=${1:-both}
rc=0
for tier in quick thorough; do
  [ "$T" != both ] && [ "$T" != $tier ] && continue
  for i in $(seq -w 1 20); do
    out=$(SQV_SCRATCH_EVIDENCE=1 ./check C$i --tier $tier 2>&1); r=$?
    echo "$out" | grep -E "^C$i tier" | sed "s/^/rc=$r /"
    [ $r -ne 0 ] && { rc=1; echo "$out" | grep -E "^VIOLATION|^  rule=|Traceback" | head -5; }
  done
done
exit $rc
