"""C01  Placeholders and bound values correspond one-to-one, in order.

Decided as an invariant of the parameter-collecting writer (induction over writer operations); every
obligation is a static rule over the resolved program (DESIGN.md section 4, C01)."""
from .. import hir as H
from .. import mir as M
from .. import paths as P
from ..facts import nhir, walk

META = ("other",
        "C01.R1 who-may-write the fields of SqlWriterValues; R2 exact path summary of push_param (counter += 1 once, before "
        "the placeholder text; one append = placeholder [+ post-increment counter iff numbered]; one push of the parameter "
        "itself); R3 new/write_str/into_parts; R4 every QueryBuilder::prepare_value impl calls push_param exactly once on "
        "every path with a clone of its own argument; R5 placeholder() table; R6 entry points build/build_any (interpreted with an opaque backend and render step, helpers followed) wire "
        "placeholder() of the rendering backend into the writer and return into_parts(); R7 no literal placeholder mark "
        "in any renderer; R9 no side writer; R10 the tuple conversions that feed in_tuples / from_values / VALUES lists "
        "(IntoValueTuple arity 1..12, ValueTuple::into_iter) keep the components in index order",
        "one obligation per rule instance (function path, call site, literal, field mutation); all control paths of the "
        "named functions are enumerated")

SWV = "crate::prepare::SqlWriterValues"
PUSH_PARAM = "<crate::prepare::SqlWriterValues as crate::prepare::SqlWriter>::push_param"
WRITE_STR = "<crate::prepare::SqlWriterValues as core::fmt::Write>::write_str"
NEW = "crate::prepare::SqlWriterValues::new"
INTO_PARTS = "crate::prepare::SqlWriterValues::into_parts"
QB = "crate::backend::query_builder::QueryBuilder"


def appends(node):
    """if the call node appends text to something: (receiver place, pieces) else None"""
    if node.get("k") != "mcall":
        return None
    c = node.get("callee") or ""
    name = node.get("name")
    if name == "write_fmt" and c.endswith("Write::write_fmt"):
        a = node["args"][0]
        if a.get("k") != "fmt":
            return (H.place(node["recv"]), [{"unknown": a}])
        return (H.place(node["recv"]), a["pieces"])
    if name in ("write_str", "push_str"):
        a = H.peel_ref(node["args"][0])
        if a.get("k") == "lit" and a["lit"]["t"] == "str":
            return (H.place(node["recv"]), [{"lit": a["lit"]["v"]}])
        return (H.place(node["recv"]), [{"arg": a, "trait": "display", "flags": None, "width": None, "precision": None}])
    if name in ("push", "write_char") and "String" in (c + str(node.get("recv_ty"))):
        a = H.peel_ref(node["args"][0])
        if a.get("k") == "lit":
            return (H.place(node["recv"]), [{"lit": str(a["lit"]["v"])}])
        return (H.place(node["recv"]), [{"arg": a, "trait": "display", "flags": None, "width": None, "precision": None}])
    return None


def plain(piece):
    return piece.get("flags") is None and piece.get("width") is None and piece.get("precision") is None and piece.get("trait") == "display"


def push_param_by_interp(run, f, cfg, fn):
    """push_param interpreted on writers in every state (counter 0, 1, 8, 9, 10, 98, 99, 100, 999 x numbered / not, with text
    and values already collected): it appends exactly the placeholder (+ the new counter when numbered), advances the counter by
    one and pushes exactly the value it was given - through whatever private helpers it calls.  True when decided"""
    from ..interp import Interp, Opaque, Unsupported, Diverged
    bad, rows = [], 0
    try:
        for numbered in (False, True):
            for k in (0, 1, 8, 9, 10, 98, 99, 100, 999):
                for mark in ("?", "$"):
                    w = {"counter": k, "placeholder": mark, "numbered": numbered, "string": "SELECT ", "values": [Opaque("v%d" % i) for i in range(min(k, 2))]}
                    before_vals = list(w["values"])
                    it = Interp(f)
                    it.free_opaque = True
                    it.call_fn(PUSH_PARAM, [w, Opaque("VALUE"), Opaque("backend")])
                    rows += 1
                    want_text = "SELECT " + mark + (str(k + 1) if numbered else "")
                    probs = []
                    if w.get("string") != want_text:
                        probs.append("text %r, expected %r" % (w.get("string"), want_text))
                    if w.get("counter") != k + 1:
                        probs.append("counter %r, expected %d" % (w.get("counter"), k + 1))
                    vs = w.get("values")
                    if not (isinstance(vs, list) and len(vs) == len(before_vals) + 1 and all(a is b for a, b in zip(vs, before_vals)) and
                            isinstance(vs[-1], Opaque) and vs[-1].tag == "VALUE"):
                        probs.append("values %r" % (vs,))
                    if w.get("placeholder") != mark or w.get("numbered") != numbered:
                        probs.append("placeholder / numbered changed")
                    if probs:
                        bad.append("counter %d, numbered=%s: %s" % (k, numbered, "; ".join(probs)))
    except (Unsupported, Diverged) as e:
        run.notes.append("C01.R2 push_param outside the interpreter's fragment (%s): decided by its path summary" % e)
        return False
    ok = not bad
    msg = "" if ok else " - NOT: " + " | ".join(bad[:3])
    for key, what in (("counter", "counter += 1 exactly once and before the text; nothing else written"),
                      ("text", "appended text is placeholder + post-increment counter"),
                      ("push", "exactly one values.push(<the parameter>)")):
        for path in ("numbered", "unconditional"):
            run.ob("C01.R2", "push_param:path:%s:%s" % (path, key), ok,
                   "push_param (%s; interpreted on %d writer states incl. counters 9/10 and 99/100): %s%s" % (path, rows, what, msg), sp=fn["sp"], cfg=cfg)
    from .. import scope
    scope.check_bound(run, "C01.R2", "push_param:scope", f, [PUSH_PARAM], 1000, cfg, "push_param (counters up to 999)")
    return True


def check_push_param(run, f, cfg):
    try:
        body = nhir(f, PUSH_PARAM)
    except KeyError:
        run.anchor("C01.R2", "push_param", "fn %s not found" % PUSH_PARAM, cfg)
        return
    fn = f.fn(PUSH_PARAM)
    if push_param_by_interp(run, f, cfg, fn):
        run.floor("C01.R2", "push_param-paths", 2, 2, cfg)
        return
    value_param = fn["params"][1]["pat"]
    if value_param.get("k") != "bind":
        run.anchor("C01.R2", "push_param.value", "parameter `value` is not a plain binding", cfg)
        return
    vname = value_param["name"]
    paths = P.fn_paths(body)
    n = 0
    for p in paths:
        if p.out == "diverge":
            continue
        n += 1
        incs = 0
        out = []          # pieces appended to self.string, with counter reads annotated by #increments before them
        pushes = []
        locals_ = {}      # local name -> ('counter', incs)
        numbered = None
        problems = []
        for kind, c, *rest in p.conds:
            if kind == "let":
                continue
            if kind == "if" and H.place(c) == "self.numbered":
                numbered = rest[0]
            elif kind == "if" and c.get("k") == "unary" and c.get("op") == "not" and H.place(c["e"]) == "self.numbered":
                numbered = not rest[0]
            else:
                problems.append("branch on something other than self.numbered")
        for ev in p.events:
            nd = ev["n"]
            if ev["ev"] == "assign":
                tgt = H.place(nd["l"])
                if tgt == "self.counter":
                    r = H.peel_ref(nd["r"])
                    if nd["k"] == "assignop" and nd["op"] == "+=" and r.get("k") == "lit" and r["lit"]["v"] == 1:
                        incs += 1
                        if out:
                            problems.append("counter incremented after the placeholder was written")
                    else:
                        problems.append("self.counter modified other than by += 1")
                elif tgt and tgt.startswith("self."):
                    problems.append("writes %s" % tgt)
            elif ev["ev"] == "let":
                pat = nd["pat"]
                if pat.get("k") == "bind" and nd.get("init") is not None and H.place(nd["init"]) == "self.counter":
                    locals_[pat["name"]] = ("counter", incs)
            elif ev["ev"] == "call":
                ap = appends(nd)
                if ap is not None:
                    recv, pieces = ap
                    if recv != "self.string":
                        problems.append("appends to %s" % recv)
                        continue
                    for pc in pieces:
                        if "lit" in pc:
                            out.append(("lit", pc["lit"]))
                        elif "arg" in pc:
                            pl = H.place(pc["arg"])
                            if not plain(pc):
                                problems.append("formatted placeholder piece (width/flags)")
                            if pl == "self.placeholder":
                                out.append(("placeholder",))
                            elif pl == "self.counter":
                                out.append(("counter", incs))
                            elif pl in locals_:
                                out.append(locals_[pl])
                            else:
                                out.append(("other", pl))
                        else:
                            out.append(("other", "?"))
                    continue
                c = H.callee(nd) or ""
                if nd.get("k") == "mcall" and nd["name"] == "push" and H.place(nd["recv"]) == "self.values":
                    pushes.append(H.place(nd["args"][0]))
                elif nd.get("k") == "mcall" and nd["name"] in ("unwrap", "expect") and "Result" in c:
                    pass
                elif nd.get("k") == "mcall" and (H.place(nd["recv"]) or "").startswith("self.values"):
                    problems.append("self.values.%s(..)" % nd["name"])
                elif nd.get("k") == "mcall" and (H.place(nd["recv"]) or "").startswith("self.string"):
                    problems.append("self.string.%s(..)" % nd["name"])
            elif ev["ev"] in ("loop", "closure"):
                problems.append("loop/closure in push_param")
        want = [("placeholder",), ("counter", 1)] if numbered else [("placeholder",)]
        key = "push_param:path:%s" % ("numbered" if numbered else "plain" if numbered is False else "unconditional")
        if numbered is None:
            # code does not branch: both shapes would have to be produced by one path -> impossible
            problems.append("no branch on self.numbered")
        run.ob("C01.R2", key + ":counter", incs == 1 and not problems,
               "push_param (%s path): counter += 1 exactly once and before the text; nothing else written" % key.split(":")[-1],
               sp=fn["sp"], cfg=cfg, detail={"increments": incs, "problems": problems})
        run.ob("C01.R2", key + ":text", out == want,
               "push_param (%s path): appended text is placeholder%s" % (key.split(":")[-1], " + post-increment counter" if numbered else ""),
               sp=fn["sp"], cfg=cfg, detail={"appended": out, "expected": want})
        run.ob("C01.R2", key + ":push", pushes == [vname],
               "push_param (%s path): exactly one values.push(<the parameter>)" % key.split(":")[-1],
               sp=fn["sp"], cfg=cfg, detail={"pushes": pushes})
    run.floor("C01.R2", "push_param-paths", n, 2, cfg)


def check_new_etc(run, f, cfg):
    # new
    try:
        body = nhir(f, NEW)
        fn = f.fn(NEW)
    except KeyError:
        run.anchor("C01.R3", "new", "SqlWriterValues::new not found", cfg)
        return
    lits = [n for n in walk(body) if n.get("k") == "struct" and n.get("adt") == SWV]
    if len(lits) != 1:
        run.anchor("C01.R3", "new.literal", "expected one struct literal of SqlWriterValues in new()", cfg)
    else:
        fields = {x["name"]: H.peel_ref(x["e"]) for x in lits[0]["fields"]}
        c = fields.get("counter", {})
        run.ob("C01.R3", "new:counter0", c.get("k") == "lit" and c["lit"]["v"] == 0, "new(): counter starts at 0", sp=fn["sp"], cfg=cfg)
        v = fields.get("values", {})
        ok = v.get("k") == "call" and (v.get("callee") or "") in ("alloc::vec::Vec::<T>::new", "alloc::vec::Vec::<T>::with_capacity") \
            or (v.get("k") == "call" and (v.get("callee") or "").endswith("Default::default"))
        run.ob("C01.R3", "new:values-empty", ok, "new(): values starts empty", sp=fn["sp"], cfg=cfg, detail=v.get("callee"))
        s = fields.get("string", {})
        ok = s.get("k") == "call" and (s.get("callee") or "") in ("alloc::string::String::new", "alloc::string::String::with_capacity")
        run.ob("C01.R3", "new:string-empty", ok, "new(): string starts empty", sp=fn["sp"], cfg=cfg, detail=s.get("callee"))
        pnames = [p["pat"].get("name") for p in fn["params"]]
        ph = fields.get("placeholder", {})
        ok = (ph.get("k") == "mcall" and ph["name"] == "into" and H.place(ph["recv"]) == pnames[0]) or H.place(ph) == pnames[0]
        run.ob("C01.R3", "new:placeholder", ok, "new(): placeholder field is the first parameter", sp=fn["sp"], cfg=cfg)
        run.ob("C01.R3", "new:numbered", H.place(fields.get("numbered", {})) == pnames[1], "new(): numbered field is the second parameter",
               sp=fn["sp"], cfg=cfg)
    # write_str: appends exactly its argument to self.string
    try:
        body = nhir(f, WRITE_STR)
        fn = f.fn(WRITE_STR)
        arg = fn["params"][1]["pat"]["name"]
        ps = [p for p in P.fn_paths(body) if p.out != "diverge"]
        for i, p in enumerate(ps):
            out = []
            for ev in p.events:
                if ev["ev"] == "call":
                    ap = appends(ev["n"])
                    if ap:
                        out.append((ap[0], [("lit", x["lit"]) if "lit" in x else ("arg", H.place(x.get("arg")), plain(x)) for x in ap[1]]))
            run.ob("C01.R3", "write_str:path%d" % i, out == [("self.string", [("arg", arg, True)])],
                   "write_str appends exactly its argument to self.string", sp=fn["sp"], cfg=cfg, detail=out)
        if not ps:
            run.anchor("C01.R3", "write_str.paths", "no path through write_str", cfg)
    except KeyError:
        run.anchor("C01.R3", "write_str", "Write::write_str for SqlWriterValues not found", cfg)
    # into_parts
    try:
        body = nhir(f, INTO_PARTS)
        fn = f.fn(INTO_PARTS)
        ps = P.fn_paths(body)
        ok = len(ps) == 1
        v = H.peel_ref(ps[0].value) if ok else None
        ok = ok and v is not None and v.get("k") == "tuple" and len(v["es"]) == 2
        if ok:
            a, b = H.peel_ref(v["es"][0]), H.peel_ref(v["es"][1])
            ok = H.place(a) == "self.string" and b.get("k") == "call" and b.get("callee") == "crate::value::Values" \
                and H.place(b["args"][0]) == "self.values"
        run.ob("C01.R3", "into_parts", ok and not [e for e in ps[0].events if e["ev"] == "call" and e["n"].get("callee") != "crate::value::Values"],
               "into_parts returns (self.string, Values(self.values)) untouched", sp=fn["sp"], cfg=cfg)
    except KeyError:
        run.anchor("C01.R3", "into_parts", "SqlWriterValues::into_parts not found", cfg)


def check_who_may_write(run, f, cfg):
    allowed = {
        "counter": {PUSH_PARAM}, "values": {PUSH_PARAM}, "string": {PUSH_PARAM, WRITE_STR},
        "placeholder": set(), "numbered": set(),
    }
    # a private helper that only push_param calls is part of push_param (R2 interprets through it)
    callers = {}
    for name_, fn_ in f.fns.items():
        if fn_.get("kind") == "fn" and fn_.get("hir") is not None:
            for c_ in H.calls(fn_["hir"]):
                for d_ in (c_.get("callee"), H.callee(c_)):
                    if d_:
                        callers.setdefault(d_, set()).add(name_)
    for fld in ("counter", "values", "string"):
        for h_, cs in callers.items():
            if h_.startswith(SWV + "::") and h_ not in (PUSH_PARAM, WRITE_STR, NEW) and cs and cs <= {PUSH_PARAM} and not f.fns.get(h_, {}).get("pub"):
                allowed[fld].add(h_)
    n = 0
    for m in M.field_mutations(f, SWV):
        fn = f.fns[m["fn"]]
        if fn.get("derived"):
            continue
        n += 1
        if m["kind"] == "construct":
            run.ob("C01.R1", "construct:%s" % m["fn"], m["fn"] == NEW, "SqlWriterValues constructed only in new()", sp=m["sp"], cfg=cfg)
        else:
            run.ob("C01.R1", "%s:%s:%s" % (m["field"], m["kind"], m["fn"]), m["fn"] in allowed.get(m["field"], set()),
                   "field SqlWriterValues.%s is mutated (%s) only by push_param/write_str" % (m["field"], m["kind"]), sp=m["sp"], cfg=cfg)
    run.floor("C01.R1", "field-mutations", n, 4, cfg)


def builder_types(f):
    return sorted(i["self_adt"] for i in f.trait_impls(QB) if i.get("self_adt"))


def check_prepare_value(run, f, cfg):
    bts = builder_types(f)
    n = 0
    for adt in bts:
        name = f.impl_fn(QB, adt, "prepare_value")
        short = adt.rsplit("::", 1)[-1]
        if name is None:
            run.anchor("C01.R4", "prepare_value:" + short, "no prepare_value in impl QueryBuilder for %s" % adt, cfg)
            continue
        fn = f.fn(name)
        body = nhir(f, name)
        pn = [p["pat"].get("name") for p in fn["params"]]
        for i, p in enumerate(P.fn_paths(body)):
            if p.out == "diverge":
                continue
            calls = [e["n"] for e in p.events if e["ev"] == "call"]
            pp = [c for c in calls if (c.get("callee") or "").endswith("SqlWriter::push_param")]
            others = [c for c in calls if c not in pp and c.get("k") == "mcall" and H.place(c["recv"]) == pn[2]]
            ok = len(pp) == 1 and not others and not [e for e in p.events if e["ev"] in ("loop", "closure")]
            detail = None
            if ok:
                c = pp[0]
                a0 = H.peel_ref(c["args"][0])
                a1 = H.peel_ref(c["args"][1])
                while a1.get("k") == "cast":
                    a1 = H.peel_ref(a1["e"])
                ok = (H.place(c["recv"]) == pn[2]
                      and a0.get("k") == "mcall" and a0["name"] == "clone" and (a0.get("callee") or "").endswith("Clone::clone")
                      and H.place(a0["recv"]) == pn[1] and H.place(a1) == pn[0])
                detail = {"recv": H.place(c["recv"]), "arg0": a0.get("src") or H.place(a0), "arg1": H.place(a1)}
            run.ob("C01.R4", "prepare_value:%s:path%d" % (short, i), ok,
                   "%s::prepare_value: exactly one sql.push_param(value.clone(), self) on this path, nothing else written" % short,
                   sp=fn["sp"], cfg=cfg, detail=detail)
            n += 1
    run.floor("C01.R4", "prepare_value-impls", n, len(bts), cfg)
    run.floor("C01.R4", "query-builder-types", len(bts), 4 if cfg in ("default", "all", "moreparens", "exacttype", "all-nots") else 2, cfg)


def const_tuple(body):
    """value of a fn body that is a literal tuple (str, bool) on its only path"""
    ps = P.fn_paths(body)
    if len(ps) != 1:
        return None
    v = H.peel_ref(ps[0].value)
    if v is None or v.get("k") != "tuple":
        return None
    out = []
    for x in v["es"]:
        x = H.peel_ref(x)
        if x.get("k") != "lit":
            return None
        out.append(x["lit"]["v"])
    return tuple(out)


def check_placeholder_table(run, f, cfg):
    expected = {"crate::backend::postgres::PostgresQueryBuilder": ("$", True)}
    default = ("?", False)
    dname = QB + "::placeholder"
    try:
        d = const_tuple(nhir(f, dname))
        run.ob("C01.R5", "placeholder:default", d == default, "QueryBuilder::placeholder default is (\"?\", false)", sp=f.fn(dname)["sp"], cfg=cfg, detail=d)
    except KeyError:
        run.anchor("C01.R5", "placeholder:default", "QueryBuilder::placeholder not found", cfg)
    for adt in builder_types(f):
        short = adt.rsplit("::", 1)[-1]
        name = f.impl_fn(QB, adt, "placeholder")
        want = expected.get(adt, default)
        if name is None:
            run.ob("C01.R5", "placeholder:" + short, want == default, "%s uses the default placeholder and that is its dialect's form" % short, cfg=cfg)
        else:
            v = const_tuple(nhir(f, name))
            run.ob("C01.R5", "placeholder:" + short, v == want, "%s::placeholder() is %r" % (short, want), sp=f.fn(name)["sp"], cfg=cfg, detail=v)


def entry_point_by_interp(f, tname, inner):
    """interpret build / build_any (through any helper) with an opaque backend whose placeholder() is a pair of markers and
    an opaque render step; returns a list of deviations (empty = wired correctly), or raises Unsupported"""
    from ..interp import Interp, Opaque
    fn = f.fn(tname)
    qb = fn["params"][1]["pat"].get("name")
    it = Interp(f)
    it.free_opaque = True
    it.opaque_conversions = True
    it.max_depth = 8
    seen = {"rendered": []}

    def placeholder(it_, args):
        if not (args and isinstance(args[0], Opaque) and args[0].tag == qb):
            seen.setdefault("bad", []).append("placeholder() of something other than the backend passed in")
        return (Opaque("MARK"), Opaque("NUMBERED"))
    it.builtins = {"crate::backend::query_builder::QueryBuilder::placeholder": placeholder}
    it.opaque_call = lambda e: (e.get("name") or (e.get("callee") or "").rsplit("::", 1)[-1]) == inner

    def render(it_, e, env, depth):
        recv = it_.ev(e["recv"], env, depth) if e.get("k") == "mcall" else None
        args = [it_.ev(a, env, depth) for a in e.get("args") or []]
        seen["rendered"].append((recv, args))
        w = args[-1] if args else None
        if isinstance(w, dict) and isinstance(w.get("values"), list):
            w["values"].append(Opaque("RENDERED"))       # what the renderer binds shows up in the writer it was given
        return ()
    it.unknown_call = render
    r = it.call_fn(tname, [Opaque("self"), Opaque(qb)])
    bad = list(seen.get("bad") or [])
    if len(seen["rendered"]) != 1:
        bad.append("%s called %d times" % (inner, len(seen["rendered"])))
        return bad
    recv, args = seen["rendered"][0]
    if not (isinstance(recv, Opaque) and recv.tag == "self"):
        bad.append("%s called on something other than self" % inner)
    if not (len(args) == 2 and isinstance(args[0], Opaque) and args[0].tag == qb):
        bad.append("%s not given the backend passed in" % inner)
    w = args[-1] if args else None
    if not isinstance(w, dict):
        bad.append("the writer handed to %s is not a SqlWriterValues" % inner)
        return bad
    if not (isinstance(w.get("placeholder"), Opaque) and w["placeholder"].tag == "MARK" and isinstance(w.get("numbered"), Opaque) and w["numbered"].tag == "NUMBERED"):
        bad.append("writer created with (%r, %r) instead of the backend's placeholder()" % (w.get("placeholder"), w.get("numbered")))
    if w.get("counter") != 0:
        bad.append("writer counter starts at %r" % (w.get("counter"),))
    # the result is the text and the values of that same writer
    if not (isinstance(r, tuple) and len(r) == 2):
        bad.append("returns %r" % (r,))
        return bad
    vals = r[1].fields[0] if hasattr(r[1], "fields") and r[1].fields else r[1]
    if not (isinstance(vals, list) and [getattr(x, "tag", None) for x in vals] == ["RENDERED"]):
        bad.append("the returned values are not those the renderer bound: %r" % (vals,))
    if r[0] is not w.get("string") and r[0] != w.get("string"):
        bad.append("the returned text is not the writer's text")
    return bad


def check_entry_points(run, f, cfg):
    from ..interp import Unsupported, Diverged
    for tname, inner in (("crate::query::traits::QueryStatementBuilder::build_any", "build_collect_any_into"),
                         ("crate::query::traits::QueryStatementWriter::build", "build_collect_into")):
        short = tname.rsplit("::", 1)[-1]
        try:
            body = nhir(f, tname)
            fn = f.fn(tname)
        except KeyError:
            run.anchor("C01.R6", short, "%s not found" % tname, cfg)
            continue
        try:
            bad = entry_point_by_interp(f, tname, inner)
            run.ob("C01.R6", "%s:wiring" % short, not bad,
                   "%s (interpreted with an opaque backend and render step): writer = SqlWriterValues::new(placeholder() of the rendering backend), "
                   "rendered once by %s(self, that backend, writer), returns that writer's text and values%s" % (short, inner, "" if not bad else " - NOT: " + "; ".join(bad)),
                   sp=fn["sp"], cfg=cfg)
            continue
        except (Unsupported, Diverged) as e_:
            run.notes.append("C01.R6 %s outside the interpreter's fragment (%s): decided by its call sequence" % (short, e_))
        qb = fn["params"][1]["pat"].get("name")
        ps = [p for p in P.fn_paths(body) if p.out != "diverge"]
        for i, p in enumerate(ps):
            calls = [e["n"] for e in p.events if e["ev"] == "call"]
            seq = [(c.get("name") or (c.get("callee") or "").rsplit("::", 1)[-1]) for c in calls]
            ok = seq == ["placeholder", "new", inner, "into_parts"]
            detail = {"calls": seq}
            if ok:
                ph, new, mid, ip = calls
                # the placeholder() receiver is the query builder parameter
                ok = ok and H.place(ph["recv"]) == qb
                # new(placeholder, numbered): args are the two components of the destructured tuple, in order
                lets = [e["n"] for e in p.events if e["ev"] == "let"]
                tup = None
                for l in lets:
                    if l["pat"].get("k") == "tuple" and l.get("init") is ph:
                        tup = [s.get("name") for s in l["pat"]["subs"]]
                a = [H.place(x) for x in new["args"]]
                ok = ok and tup is not None and a == tup and new.get("callee") == NEW
                # writer local
                wl = None
                for l in lets:
                    if l.get("init") is new and l["pat"].get("k") == "bind":
                        wl = l["pat"]["name"]
                margs = [H.place(x) for x in mid["args"]]
                ok = ok and wl is not None and H.place(mid["recv"]) == "self" and margs == [qb, wl]
                ok = ok and H.place(ip["recv"]) == wl and H.peel_ref(p.value) is ip
                detail.update({"tuple": tup, "new_args": a, "writer": wl, "inner_args": margs})
            run.ob("C01.R6", "%s:path%d" % (short, i), ok,
                   "%s: writer = SqlWriterValues::new(placeholder() of the rendering backend), rendered by %s(self, that backend, writer), returns writer.into_parts()" % (short, inner),
                   sp=fn["sp"], cfg=cfg, detail=detail)
        run.floor("C01.R6", short + "-paths", len(ps), 1, cfg)


def writer_fns(f):
    """functions (non-test) that take a `&mut dyn SqlWriter` and therefore can emit query text"""
    out = []
    for name, fn in f.fns.items():
        if fn.get("kind") != "fn" or "::tests" in name or "::test::" in name:
            continue
        for p in fn.get("params") or []:
            t = f.ty(p["ty"])
            if "dyn crate::prepare::SqlWriter" in t:
                out.append(name)
                break
    return out


def check_no_literal_marks(run, f, cfg):
    marks = ("?", "$")
    nfn = 0
    nlit = 0
    for name in writer_fns(f):
        body = nhir(f, name)
        nfn += 1
        for n in walk(body):
            lits = []
            if n.get("k") == "fmt":
                lits = [p["lit"] for p in n["pieces"] if "lit" in p]
            elif n.get("k") == "lit" and n["lit"]["t"] == "str":
                lits = [n["lit"]["v"]]
            for s in lits:
                nlit += 1
                if any(m in s for m in marks):
                    run.ob("C01.R7", "literal-mark:%s:%r" % (name, s), False,
                           "renderer %s writes a literal containing a placeholder mark: %r" % (name, s), sp=n.get("sp"), cfg=cfg)
    run.ob("C01.R7", "census", True, "no literal in %d renderer functions (%d literals) contains ? or $" % (nfn, nlit), cfg=cfg)
    run.floor("C01.R7", "renderer-fns", nfn, 100, cfg)
    run.floor("C01.R7", "literals", nlit, 300, cfg)


def check_no_side_writer(run, f, cfg):
    allowed = {"crate::query::traits::QueryStatementBuilder::build_any", "crate::query::traits::QueryStatementWriter::build"}
    callers = {}
    for name, fn in f.fns.items():
        if fn.get("kind") != "fn" or fn.get("hir") is None:
            continue
        for c in H.calls(fn["hir"]):
            for d in (c.get("callee"), H.callee(c)):
                if d:
                    callers.setdefault(d, set()).add(name)

    def only_from_entry_points(name, depth=0):
        """a helper all of whose callers are build / build_any (or such helpers) - it has no caller among the renderers"""
        if name in allowed:
            return True
        cs = callers.get(name) or set()
        return depth < 3 and bool(cs) and "dyn crate::prepare::SqlWriter" not in " ".join(f.ty(p["ty"]) for p in f.fns[name].get("params") or []) and \
            all(only_from_entry_points(c, depth + 1) for c in cs)
    n = 0
    for name, fn in f.fns.items():
        if fn.get("kind") != "fn":
            continue
        for c in H.calls(fn["hir"], lambda c: c.get("callee") == NEW):
            n += 1
            intest = "::tests" in name or "::test::" in name
            run.ob("C01.R9", "new-call:%s" % name, intest or only_from_entry_points(name),
                   "SqlWriterValues::new is called only by build/build_any or a helper that only they call (a second collecting writer would drop its values)",
                   sp=c.get("sp"), cfg=cfg)
    run.floor("C01.R9", "new-callers", n, 1, cfg)


def check(run):
    for cfg in run.tier_configs(["default", "all"], ["mysql", "postgres", "sqlite"]):
        f = run.facts(cfg)
        check_who_may_write(run, f, cfg)
        check_push_param(run, f, cfg)
        check_new_etc(run, f, cfg)
        check_prepare_value(run, f, cfg)
        check_placeholder_table(run, f, cfg)
        check_entry_points(run, f, cfg)
        check_no_literal_marks(run, f, cfg)
        check_no_side_writer(run, f, cfg)
        from .c12 import check_tuples
        check_tuples(run, f, cfg, rule="C01.R10")
    run.assumptions.append("raw SQL supplied by the user (Expr::cust, extra(), custom keywords/functions) contains no unquoted placeholder marks")
    run.assumptions.append("C01.R8 (no value-carrying field is dropped by a renderer) is decided under C07/C08 field consumption")
    run.delegate("C03", "a Value written with Display inside a renderer is inlined (and mis-quoted) instead of being bound", only_rules={"R6"})
    run.delegate("C11", "a placeholder mark of a custom template that is copied to the output without binding its value leaves more marks than values", only_rules={"R1", "R2"})
