"""Grammar refinement: the set of token strings a renderer can write (its linked template IR, an over-approximation
with all guards free) is compiled into an NFA over SQL tokens and checked for inclusion in the dialect's grammar
skeleton (specs/<dialect>.ebnf).  A counterexample is a shortest token string the renderer can emit that the grammar
rejects, reported with the code location that writes the offending token."""
import os
import re

from . import hir as H
from . import link as L
from . import stmt
from . import tir as T
from .automata import NFA, included
from .core import Anchor
from .ebnf import Grammar
from .facts import VERIF

# renderer (method name) -> nonterminal symbol at which the expansion is cut
NONTERMINALS = {
    "prepare_simple_expr": "<expr>", "prepare_simple_expr_common": "<expr>", "prepare_select_statement": "<select>",
    "prepare_query_statement": "<query>", "prepare_value": "<value>", "prepare_column_ref": "<column_ref>",
    "prepare_table_ref": "<table_ref>", "prepare_table_ref_table_stmt": "<table_name>", "prepare_table_ref_index_stmt": "<table_name>",
    "prepare_table_ref_fk_stmt": "<table_name>", "prepare_table_ref_iden": "<table_name>",
    "prepare_column_type": "<type>", "prepare_column_auto_increment": "<type>", "prepare_column_type_check_auto_increment": "<type>",
    "prepare_constant": "<value>", "prepare_function_name": "<function>", "prepare_function_arguments": "<arguments>",
    "prepare_condition_where": "<expr>", "prepare_check_constraint": "<check>", "prepare_generated_column": "<generated>",
    "prepare_with_query": "<query>", "prepare_insert_statement": "<query>", "prepare_update_statement": "<query>", "prepare_delete_statement": "<query>",
}

HOLE_SYMBOL = {
    "IDEN_QUOTED": "<iden>", "QUOTE_L": "<ql>", "QUOTE_R": "<qr>", "IDEN_QUOTED_BODY": "<iden-body>", "VALUE_PARAM": "<value>",
    "NUM": "<num>", "FLOAT": "<num>", "HEX2": "<hex>", "BOOL": "<raw>", "ESCAPED_STR": "<escaped>", "FMT_SAFE": "<raw>",
    "STR": "<raw>", "IDEN_RAW": "<raw-iden>", "IDEN_DISPLAY": "<raw-iden>", "DISPLAY": "<raw>", "UNKNOWN": "<raw>", "FORMATTED": "<raw>", "CHAR": "<raw>",
}

LEX = re.compile(r"\s*(?:([A-Za-z_][A-Za-z_0-9]*)|([0-9]+)|(<>|<=|>=|!=|\|\||::|[^\sA-Za-z_0-9]))")


def lex(text):
    out = []
    pos = 0
    while pos < len(text):
        if text[pos:].strip() == "":
            break
        m = LEX.match(text, pos)
        if not m:
            raise Anchor("cannot lex literal %r" % text)
        pos = m.end()
        if m.group(1):
            out.append(m.group(1).upper())
        elif m.group(2):
            out.append("<num>")
        else:
            out.append(m.group(3))
    return out


class Builder:
    def __init__(self, f, dialect, entry_name):
        self.f = f
        self.linker = L.Linker(f, dialect)
        self.dialect = dialect
        self.a = NFA()
        self.stack = []
        self.entry_name = entry_name

    def fn_fragment(self, fname, sink, s, e, top=False):
        if (fname, sink) in self.stack:
            raise Anchor("recursion through %s is not cut by a nonterminal" % fname)
        if len(self.stack) > 24:
            raise Anchor("expansion too deep at %s" % fname)
        self.stack.append((fname, sink))
        t, S = self.linker.body(fname, sink)
        S = stmt.sepify(S)
        self.build(S, s, e, e, fname)
        self.stack.pop()

    def build(self, S, s, e, fn_end, fname):
        a = self.a
        k = S[0]
        if k == "seq":
            items = [x for x in S[1]]
            if not items:
                a.add_eps(s, e)
                return
            cur = s
            for i, x in enumerate(items):
                nxt = e if i == len(items) - 1 else a.state()
                self.build(x, cur, nxt, fn_end, fname)
                cur = nxt
        elif k == "alt":
            if not S[1]:
                a.add_eps(s, e)
            for g, x in S[1]:
                self.build(x, s, e, fn_end, fname)
        elif k in ("loop", "star", "star1"):
            m1, m2 = a.state(), a.state()
            a.add_eps(s, m1)
            self.build(S[1], m1, m2, fn_end, fname)
            a.add_eps(m2, m1)
            a.add_eps(m2, e)
            a.add_eps(s, e)
        elif k == "sepby":
            # body (sep body)*  | empty
            m1, m2, m3 = a.state(), a.state(), a.state()
            a.add_eps(s, e)
            a.add_eps(s, m1)
            self.build(S[1], m1, m2, fn_end, fname)
            a.add_eps(m2, e)
            self.build(S[2], m2, m3, fn_end, fname)
            a.add_eps(m3, m1)
        elif k == "lit":
            toks = lex(S[1])
            self.tokens(toks, s, e, {"fn": fname, "lit": S[1]})
        elif k == "hole":
            sym = HOLE_SYMBOL.get(S[1], "<raw>")
            a.add(s, sym, e, {"fn": fname, "hole": S[1], "what": (S[2] or {}).get("what"), "sp": S[3]})
        elif k == "callv":
            cal = S[1]
            if cal.endswith("value_to_string") or cal.endswith("value_to_string_common"):
                a.add(s, "<value>", e, {"fn": fname, "call": cal, "sp": S[3]})
                return
            target = self.linker.resolve(cal, S[2])
            words = self.literal_results(target) if target else None
            if words:
                for w in words:
                    self.tokens(lex(w), s, e, {"fn": target, "lit": w})
            else:
                a.add(s, "<raw>", e, {"fn": fname, "call": cal, "sp": S[3]})
        elif k == "call":
            cal = S[1]
            short = cal.rsplit("::", 1)[-1]
            if short in NONTERMINALS and not (short == self.entry_name and not self.stack[1:]):
                a.add(s, NONTERMINALS[short], e, {"fn": fname, "call": cal, "sp": S[3]})
                return
            target = self.linker.resolve(cal, S[2])
            if target is None:
                a.add(s, "<call:%s>" % short, e, {"fn": fname, "call": cal, "sp": S[3]})
                return
            cs = self.linker.callee_sink(target, S[2])
            if cs is None:
                a.add_eps(s, e)
                return
            self.fn_fragment(target, cs, s, e)
        elif k == "ctl":
            if S[1] == "ret":
                a.add_eps(s, fn_end)
            else:
                a.add_eps(s, e)
        elif k == "diverge":
            pass            # no transition: the path ends without producing a statement
        elif k == "buf":
            a.add(s, "<raw>", e, {"fn": fname, "buf": S[1]})
        elif k == "reset":
            a.add_eps(s, e)
        else:
            raise Anchor("TIR node %s in grammar builder" % k)

    def tokens(self, toks, s, e, info):
        a = self.a
        if not toks:
            a.add_eps(s, e)
            return
        cur = s
        for i, tk in enumerate(toks):
            nxt = e if i == len(toks) - 1 else a.state()
            a.add(cur, tk, nxt, info)
            cur = nxt

    def literal_results(self, target):
        """string literals a function returns on all its paths (keyword hooks such as insert_default_keyword)"""
        from . import paths as P
        fn = self.f.fns.get(target)
        if not fn or fn.get("hir") is None:
            return None
        vals = []
        try:
            for p in P.fn_paths(fn["hir"]):
                v = H.peel_ref(p.value) if p.value is not None else None
                if isinstance(v, dict) and v.get("k") == "lit" and v["lit"]["t"] == "str":
                    vals.append(v["lit"]["v"])
                else:
                    return None
        except Exception:
            return None
        return vals or None


_grammars = {}


def grammar(dialect):
    if dialect not in _grammars:
        p = os.path.join(VERIF, "specs", dialect + ".ebnf")
        _grammars[dialect] = Grammar(open(p).read(), dialect)
    return _grammars[dialect]


def check_production(run, rule, f, cfg, dialect, trait, method, production):
    g = grammar(dialect)
    if production not in g.ast:
        run.anchor(rule, "%s:%s" % (dialect, production), "no production `%s` in specs/%s.ebnf" % (production, dialect), cfg)
        return
    linker = L.Linker(f, dialect)
    target = linker.resolve(trait + "::" + method)
    if target is None:
        run.ob(rule, "grammar:%s:%s" % (dialect, production), False, "%s: renderer %s not found" % (dialect, method), cfg=cfg)
        return
    t = T.fn_tir(f, target)
    sinks = [s for s, k in t.sinks.items() if k == "writer"]
    b = Builder(f, dialect, method)
    s, e = b.a.state(), b.a.state()
    try:
        b.fn_fragment(target, sinks[0], s, e, top=True)
        ga, gs, ge = g.nfa(production)
        cex = included(b.a, s, e, ga, gs, ge)
    except (Anchor, RuntimeError, ValueError) as ex:
        run.ob(rule, "grammar:%s:%s" % (dialect, production), False, "%s: grammar refinement of %s could not be decided: %s" % (dialect, method, ex), cfg=cfg)
        return
    if cex is None:
        run.ob(rule, "grammar:%s:%s" % (dialect, production), True,
               "%s: every token string %s can write (%d NFA states, all guards free) is derivable from `%s` of specs/%s.ebnf" % (dialect, method, b.a.n, production, dialect),
               sp=t.fn["sp"], cfg=cfg)
    else:
        word, prov = cex
        run.ob(rule, "grammar:%s:%s" % (dialect, production), False,
               "%s: %s can write `%s`, which `%s` of specs/%s.ebnf does not derive (offending token written by %s)" % (
                   dialect, method, " ".join(word), production, dialect, (prov or {}).get("fn", "?").rsplit("::", 1)[-1] + ((" at " + prov["sp"]) if prov and prov.get("sp") else "")),
               sp=(prov or {}).get("sp") or t.fn["sp"], cfg=cfg, detail={"word": word, "provenance": {k: v for k, v in (prov or {}).items() if k != "node"}})
