"""C06  WHERE/HAVING/ON mean the conjunction of the conditions that were added.  DESIGN.md section 4, C06.

The builder rewrites condition trees while they are added; each rewrite is a three-valued-logic identity only under a
precondition on the groups involved.  The check finds every rewriting action on every control path, tabulates the
path condition over the complete abstract domain of groups (negate x type x member count 0,1,2,3) by abstract
interpretation of the extracted guard expressions, and requires `path condition => precondition of the identity`."""
from itertools import product

from .. import hir as H
from .. import paths as P
from .. import tir as T
from ..facts import nhir, walk
from ..interp import Diverged, Interp, Opaque, Unsupported, Var

META = ("other",
        "C06.R1 Condition::add unwraps a group only under members == 1 and not negated; R2 ConditionHolder::add_condition "
        "concatenates member lists only when both groups are plain ALL groups, adds as a member only to a plain ALL group, and "
        "stores both operands on every path; R3 to_simple_expr folds Any with OR / All with AND, empty Any = FALSE / empty All = "
        "TRUE, negation applied to the whole fold, members in order; R4 prepare_condition emits nothing for Empty and keyword + "
        "expression otherwise, and to_simple_expr is reached only through prepare_condition_where; R5 every public "
        "condition-adding method forwards the supplied condition unchanged into its own holder; R6 small-function tables",
        "one obligation per (rewriting action, control path) with its guard tabulated over the whole abstract domain; per table "
        "entry; per API method")

COND = "crate::query::condition::Condition"
CT = "crate::query::condition::ConditionType"
CE = "crate::query::condition::ConditionExpression"
CH = "crate::query::condition::ConditionHolder"
CHC = "crate::query::condition::ConditionHolderContents"


def abstract_conditions():
    out = []
    for neg, ty, n in product([False, True], ["Any", "All"], [0, 1, 2, 3]):
        out.append({"negate": neg, "condition_type": Var(CT + "::" + ty), "conditions": [Opaque("member%d" % i) for i in range(n)]})
    return out


def plain_all(c):
    return c["condition_type"] == Var(CT + "::All") and not c["negate"]


def describe(c):
    return "%s%s[%d]" % ("NOT " if c["negate"] else "", c["condition_type"].d.rsplit("::", 1)[-1], len(c["conditions"]))


def eval_conds(f, conds, env):
    """True/False: does this path's branch condition sequence hold in env?  raises Unsupported"""
    it = Interp(f)
    env = dict(env)
    for c in conds:
        kind = c[0]
        if kind == "if":
            if it.cond(c[1], env, 0) != c[2]:
                return False
        elif kind == "arm":
            arm, idx, m = c[1], c[2], c[3]
            v = it.ev(m["scrut"], env)
            chosen = None
            for i, a in enumerate(m["arms"]):
                e2 = dict(env)
                if it.bind(a["pat"], v, e2):
                    if a.get("guard") is not None and not it._bool(it.ev(a["guard"], e2)):
                        continue
                    chosen = i
                    env.update(e2)
                    break
            if chosen != idx:
                return False
        elif kind == "let":
            bind_let(it, c[1], env)
    return True


def bind_let(it, stmt, env):
    """bind the locals of a `let` on the path (their values may be used by later guards); values outside the fragment
    simply stay unbound - a later guard that needs them then fails closed"""
    if stmt.get("init") is None:
        return
    try:
        v = it.ev(stmt["init"], dict(env))
        it.bind(stmt["pat"], v, env)
    except (Unsupported, Exception):
        pass


def check_add_paths(run, f, cfg):
    name = COND + "::add"
    fn = f.fns.get(name)
    if fn is None:
        run.anchor("C06.R1", "add", "Condition::add not found", cfg)
        return
    body = nhir(f, name)
    ps = [p for p in P.fn_paths(body) if p.out != "diverge"]
    n_unwrap = 0
    for pi, p in enumerate(ps):
        pushes = [e["n"] for e in p.events if e["ev"] == "call" and e["n"].get("k") == "mcall" and e["n"]["name"] == "push" and H.place(e["n"]["recv"]) == "self.conditions"]
        assigns = [e["n"] for e in p.events if e["ev"] == "assign" and H.place(e["n"]["l"]) == "expr"]
        other_self = [e["n"] for e in p.events if e["ev"] == "assign" and (H.place(e["n"]["l"]) or "").startswith("self.")]
        ok = len(pushes) == 1 and H.place(pushes[0]["args"][0]) == "expr" and not other_self and H.place(p.value) == "self"
        run.ob("C06.R1", "add:path%d:push-once" % pi, ok, "Condition::add pushes the (possibly unwrapped) operand exactly once and returns self", sp=fn["sp"], cfg=cfg)
        for a in assigns:
            n_unwrap += 1
            # what is assigned: the single member popped from the operand group
            r = H.peel_ref(a["r"])
            src_ok = r.get("k") == "mcall" and r["name"] == "unwrap" and H.peel_ref(r["recv"]).get("name") in ("pop", "next") and \
                "conditions" in (H.place(H.peel_ref(r["recv"])["recv"]) or T.text(H.peel_ref(r["recv"])["recv"]))
            run.ob("C06.R1", "add:unwrap:value", src_ok, "the unwrapped value is the member taken out of the operand group (`%s`)" % T.text(r), sp=a.get("sp"), cfg=cfg)
            # tabulate the path condition over all operand groups
            bad = []
            try:
                for c in abstract_conditions():
                    env = {"expr": Var(CE + "::Condition", [c]), "self": {"conditions": [], "negate": False, "condition_type": Var(CT + "::All")}}
                    # conditions before the assignment only
                    pre = []
                    for cnd in p.conds:
                        pre.append(cnd)
                    if eval_conds(f, pre, env) and not (len(c["conditions"]) == 1 and not c["negate"]):
                        bad.append(describe(c))
                run.ob("C06.R1", "add:unwrap:guard", not bad,
                       "a group is replaced by its member only when it has exactly one member and is not negated (G[x] == x; NOT G[x] != x)"
                       + ("" if not bad else " - but the guard also holds for: " + ", ".join(bad)), sp=a.get("sp"), cfg=cfg, detail=bad or None)
            except Unsupported as e:
                run.ob("C06.R1", "add:unwrap:guard", False, "guard of the unwrap outside the supported fragment: %s" % e, sp=a.get("sp"), cfg=cfg)
    run.floor("C06.R1", "add-paths", len(ps), 2, cfg)
    run.floor("C06.R1", "add-unwrap-sites", n_unwrap, 1, cfg)


def _clone_group(c):
    return {"negate": c["negate"], "condition_type": c["condition_type"], "conditions": list(c["conditions"])}


def _same_group(a, b):
    return isinstance(a, dict) and a.get("negate") == b["negate"] and a.get("condition_type") == b["condition_type"] and \
        len(a.get("conditions") or []) == len(b["conditions"]) and all(x is y for x, y in zip(a["conditions"], b["conditions"]))


def _interp(f):
    it = Interp(f)
    def into(it_, a):
        v = a[0]
        if isinstance(v, dict) and "conditions" in v:
            return Var(CE + "::Condition", [v])          # impl From<Condition> for ConditionExpression
        return v
    it.builtins["core::convert::Into::into"] = into
    return it


def check_add(run, f, cfg):
    """R1 as a complete table: Condition::add(self, x) for every shape of self (negate x type x 0..3 members) and every
    operand (an expression, or a group of every shape) appends exactly one member - the group's only member when the
    operand is a non-negated single-member group, the operand itself otherwise - and changes nothing else.  The function
    body is interpreted, so its syntactic form does not matter; outside the interpreter's fragment the path rules apply."""
    name = COND + "::add"
    if name not in f.fns:
        run.anchor("C06.R1", "add", "Condition::add not found", cfg)
        return
    cells = 0
    bad = []
    try:
        for s0 in abstract_conditions():
            operands = [("expr", Var(CE + "::SimpleExpr", [Opaque("e")]), None)]
            for c in abstract_conditions():
                operands.append(("group", None, c))
            for kind, val, c in operands:
                selfv = _clone_group(s0)
                arg = val if kind == "expr" else Var(CE + "::Condition", [_clone_group(c)])
                r = _interp(f).call_fn(name, [selfv, arg])
                cells += 1
                ok = isinstance(r, dict) and r.get("negate") == s0["negate"] and r.get("condition_type") == s0["condition_type"] and \
                    len(r["conditions"]) == len(s0["conditions"]) + 1 and all(x is y for x, y in zip(r["conditions"], s0["conditions"]))
                if ok:
                    added = r["conditions"][-1]
                    if kind == "expr":
                        ok = added is val
                    elif len(c["conditions"]) == 1 and not c["negate"]:
                        ok = added is c["conditions"][0]
                    else:
                        ok = isinstance(added, Var) and added.d == CE + "::Condition" and _same_group(added.fields[0], c)
                if not ok:
                    bad.append("%s.add(%s)" % (describe(s0), "expr" if kind == "expr" else describe(c)))
    except (Unsupported, Diverged) as e:
        run.notes.append("Condition::add outside the interpreter's fragment (%s): path rules applied instead" % e)
        return check_add_paths(run, f, cfg)
    run.ob("C06.R1", "add:table", not bad,
           "Condition::add tabulated on %d cells (shape of self x operand): one member appended - a non-negated single-member group is replaced "
           "by its member (G[x] == x), everything else is kept as it is%s" % (cells, "" if not bad else " - EXCEPT " + ", ".join(bad[:6])),
           sp=f.fns[name]["sp"], cfg=cfg, detail=bad[:20] or None)
    run.floor("C06.R1", "add-cells", cells, 272, cfg)
    from .. import scope
    scope.check_bound(run, "C06.R1", "add:scope", f, [name], 3, cfg, "Condition::add (groups of 0..3 members)")


def mentions_local(e, name):
    return any(n.get("k") == "local" and n.get("name") == name for n in walk(e))


def check_add_condition_paths(run, f, cfg):
    name = CH + "::add_condition"
    fn = f.fns.get(name)
    if fn is None:
        run.anchor("C06.R2", "add_condition", "not found", cfg)
        return
    body = nhir(f, name)
    ps = [p for p in P.fn_paths(body) if p.out != "diverge"]
    pn = fn["params"][1]["pat"].get("name")   # addition
    nacts = 0
    for pi, p in enumerate(ps):
        # which arm of the outer match on the taken contents
        arm_vars = [T.pat_variants(c[1]["pat"]) for c in p.conds if c[0] == "arm"]
        top = arm_vars[0][0].rsplit("::", 1)[-1] if arm_vars and arm_vars[0] else "?"
        stores = [e["n"] for e in p.events if e["ev"] == "assign" and H.place(e["n"]["l"]) == "self.contents"]
        if len(stores) != 1:
            run.ob("C06.R2", "add_condition:path%d:store" % pi, False, "path %d (%s) stores self.contents %d times" % (pi, top, len(stores)), sp=fn["sp"], cfg=cfg)
            continue
        st = stores[0]
        rv = H.peel_ref(st["r"])
        is_cond = rv.get("k") == "call" and rv.get("callee") == CHC + "::Condition"
        cur_name = None
        for c in p.conds:
            if c[0] == "arm":
                pat = c[1]["pat"]
                if T.pat_variants(pat) == [CHC + "::Condition"] and pat.get("subs"):
                    cur_name = pat["subs"][0].get("name")
        if top == "Empty":
            ok = is_cond and H.place(rv["args"][0]) == pn
            run.ob("C06.R2", "add_condition:empty", ok, "an empty holder takes the addition unchanged", sp=st.get("sp"), cfg=cfg)
            continue
        if cur_name is None:
            run.ob("C06.R2", "add_condition:path%d:shape" % pi, False, "path %d: cannot identify the current condition" % pi, sp=fn["sp"], cfg=cfg)
            continue
        # nothing dropped: both operands reach the stored value (directly or through an append into current)
        appends = [e["n"] for e in p.events if e["ev"] == "call" and e["n"].get("k") == "mcall" and e["n"]["name"] in ("append", "extend")
                   and (H.place(e["n"]["recv"]) or "") == cur_name + ".conditions"]
        merged = bool(appends) and all(pn in T.text(a["args"][0]) for a in appends)
        val = rv["args"][0] if is_cond else rv
        keeps_cur = mentions_local(val, cur_name)
        keeps_add = mentions_local(val, pn) or merged
        run.ob("C06.R2", "add_condition:path%d:nothing-dropped" % pi, is_cond and keeps_cur and keeps_add,
               "path %d: the stored condition contains both the current condition and the addition" % pi, sp=st.get("sp"), cfg=cfg)
        # classify the action
        v = H.peel_ref(val)
        action = None
        if merged and H.place(v) == cur_name:
            action = "concat"          # AND(a..) , AND(b..) -> AND(a.., b..)
        elif v.get("k") == "mcall" and v["name"] == "add" and H.place(v["recv"]) == cur_name and H.place(v["args"][0]) == pn:
            action = "member"          # AND(a..) , X -> AND(a.., X)
        elif v.get("k") == "mcall" and v["name"] == "add":
            inner = H.peel_ref(v["recv"])
            if inner.get("k") == "mcall" and inner["name"] == "add" and H.place(inner["args"][0]) == cur_name and H.place(v["args"][0]) == pn:
                base = H.peel_ref(inner["recv"])
                if base.get("k") == "call" and base.get("callee") == COND + "::all":
                    action = "wrap"    # ALL[current, addition]
        nacts += 1
        if action is None:
            run.ob("C06.R2", "add_condition:path%d:action" % pi, False, "path %d stores `%s`, which is none of the three reviewed identities" % (pi, T.text(val)[:120]),
                   sp=st.get("sp"), cfg=cfg)
            continue
        if action == "wrap":
            run.ob("C06.R2", "add_condition:wrap", True, "ALL[current, addition] is the conjunction by definition (no precondition)", sp=st.get("sp"), cfg=cfg)
            continue
        bad = []
        try:
            for cur, add in product(abstract_conditions(), abstract_conditions()):
                env = {"self": {"contents": Var(CHC + "::Condition", [cur])}, pn: add}
                # the scrutinee is mem::take(&mut self.contents): evaluate it as the current contents
                if eval_conds_take(f, p.conds, env):
                    # concat is sound when the addition's members are conjuncts: a plain ALL group, or a non-negated
                    # group with exactly one member (G[x] == x)
                    add_ok = not add["negate"] and (add["condition_type"] == Var(CT + "::All") or len(add["conditions"]) == 1)
                    need = plain_all(cur) and (add_ok if action == "concat" else True)
                    if not need:
                        bad.append("%s + %s" % (describe(cur), describe(add)))
            what = {"concat": "member lists are concatenated only when the current condition is a plain (non-negated) ALL group and the addition's members are conjuncts (plain ALL, or a non-negated single-member group)",
                    "member": "the addition becomes a member of the current condition only when that is a plain (non-negated) ALL group"}[action]
            run.ob("C06.R2", "add_condition:%s:guard" % action, not bad, what + ("" if not bad else " - but the guard also holds for: " + "; ".join(bad[:6])),
                   sp=st.get("sp"), cfg=cfg, detail=bad[:20] or None)
        except Unsupported as e:
            run.ob("C06.R2", "add_condition:%s:guard" % action, False, "guard outside the supported fragment: %s" % e, sp=st.get("sp"), cfg=cfg)
    run.floor("C06.R2", "add_condition-actions", nacts, 3, cfg)


# ---- three-valued semantics of abstract condition trees (atoms = the opaque members) ------------------------------------------

def _atoms(t, acc):
    if isinstance(t, dict):
        for m in t["conditions"]:
            _atoms(m, acc)
    elif isinstance(t, Var) and t.d == CE + "::Condition":
        _atoms(t.fields[0], acc)
    elif isinstance(t, Var) and t.d == CE + "::SimpleExpr":
        _atoms(t.fields[0], acc)
    elif isinstance(t, Opaque):
        if all(t is not x for x in acc):
            acc.append(t)
    else:
        raise Unsupported("member %r of a condition tree" % (t,))
    return acc


def _ev3(t, val):
    """Kleene value (True / False / None=unknown) of a condition tree under an assignment of its atoms"""
    if isinstance(t, Opaque):
        for a, v in val:
            if a is t:
                return v
        raise Unsupported("unassigned atom")
    if isinstance(t, Var):
        return _ev3(t.fields[0], val)
    vs = [_ev3(m, val) for m in t["conditions"]]
    if t["condition_type"] == Var(CT + "::Any"):
        r = True if any(v is True for v in vs) else (None if any(v is None for v in vs) else False)
    else:
        r = False if any(v is False for v in vs) else (None if any(v is None for v in vs) else True)
    if t["negate"]:
        r = None if r is None else (not r)
    return r


def _and3(a, b):
    if a is False or b is False:
        return False
    if a is None or b is None:
        return None
    return True


def check_add_condition(run, f, cfg):
    """R2 as a complete semantic table: for every shape of the stored condition (or an empty holder) and every shape of
    the addition, the condition stored by ConditionHolder::add_condition has, under every three-valued assignment of the
    members, the value (stored AND addition).  The body is interpreted; outside the fragment the path rules apply."""
    name = CH + "::add_condition"
    if name not in f.fns:
        run.anchor("C06.R2", "add_condition", "not found", cfg)
        return
    cells = 0
    bad = []
    try:
        for add in abstract_conditions():
            # empty holder
            hold = {"contents": Var(CHC + "::Empty")}
            a0 = _clone_group(add)
            _interp(f).call_fn(name, [hold, a0])
            cells += 1
            got = hold["contents"]
            if not (isinstance(got, Var) and got.d == CHC + "::Condition" and _same_group(got.fields[0], add)):
                bad.append("Empty + %s" % describe(add))
            for cur in abstract_conditions():
                c0, a0 = _clone_group(cur), _clone_group(add)
                # distinct atoms for the two operands
                c0["conditions"] = [Opaque("c%d" % i) for i in range(len(c0["conditions"]))]
                a0["conditions"] = [Opaque("a%d" % i) for i in range(len(a0["conditions"]))]
                cur_ref, add_ref = _clone_group(c0), _clone_group(a0)
                hold = {"contents": Var(CHC + "::Condition", [c0])}
                _interp(f).call_fn(name, [hold, a0])
                cells += 1
                got = hold["contents"]
                if not (isinstance(got, Var) and got.d == CHC + "::Condition"):
                    bad.append("%s + %s: holder left as %r" % (describe(cur), describe(add), got))
                    continue
                atoms = _atoms(cur_ref, []) + _atoms(add_ref, [])
                extra = [x for x in _atoms(got.fields[0], []) if all(x is not y for y in atoms)]
                ok = not extra
                if ok:
                    for vals in product([True, False, None], repeat=len(atoms)):
                        val = list(zip(atoms, vals))
                        if _ev3(got.fields[0], val) != _and3(_ev3(cur_ref, val), _ev3(add_ref, val)):
                            ok = False
                            break
                if not ok:
                    bad.append("%s + %s" % (describe(cur), describe(add)))
    except (Unsupported, Diverged) as e:
        run.notes.append("ConditionHolder::add_condition outside the interpreter's fragment (%s): path rules applied instead" % e)
        return check_add_condition_paths(run, f, cfg)
    run.ob("C06.R2", "add_condition:table", not bad,
           "add_condition tabulated on %d cells (stored shape x added shape, every Kleene assignment of the members): the stored condition always "
           "denotes (stored AND added)%s" % (cells, "" if not bad else " - EXCEPT " + "; ".join(bad[:6])), sp=f.fns[name]["sp"], cfg=cfg, detail=bad[:20] or None)
    run.floor("C06.R2", "add_condition-cells", cells, 272, cfg)
    from .. import scope
    scope.check_bound(run, "C06.R2", "add_condition:scope", f, [name], 3, cfg, "add_condition (groups of 0..3 members)")


def eval_conds_take(f, conds, env):
    """like eval_conds, with `std::mem::take(&mut self.contents)` evaluating to the current contents"""
    def take(it, args):
        return args[0]
    it_builtins = {"core::mem::take": take}
    it = Interp(f, builtins=it_builtins)
    env = dict(env)
    for c in conds:
        if c[0] == "if":
            if it.cond(c[1], env, 0) != c[2]:
                return False
        elif c[0] == "arm":
            arm, idx, m = c[1], c[2], c[3]
            v = it.ev(m["scrut"], env)
            chosen = None
            for i, a in enumerate(m["arms"]):
                e2 = dict(env)
                if it.bind(a["pat"], v, e2):
                    chosen = i
                    env.update(e2)
                    break
            if chosen != idx:
                return False
        elif c[0] == "let":
            bind_let(it, c[1], env)
    return True


def to_simple_expr_by_interp(run, f, cfg, name, fn):
    """to_simple_expr interpreted on groups of 0..3 members (expressions and nested groups, both polarities): the result is
    the left-to-right fold of the members with OR / AND, the neutral constant for an empty group, wrapped in NOT exactly when
    negate is set.  True when decided"""
    from ..interp import Interp, Opaque, Unsupported, Diverged
    CT = "crate::query::condition::ConditionType"
    CE_ = "crate::query::condition::ConditionExpression"
    bad, rows = [], 0

    def run_one(cond):
        it = Interp(f)
        it.free_opaque = True
        it.opaque_conversions = True
        it.max_depth = 12
        it.opaque_call = lambda e: (e.get("name") in ("or", "and", "not") and (e.get("callee") or "").startswith("crate::expr::"))

        def oper(it_, e, env, depth):
            nm = e.get("name")
            if nm in ("or", "and", "not") and e.get("k") == "mcall":
                vals = [it_.ev(e["recv"], env, depth)] + [it_.ev(a, env, depth) for a in e.get("args") or []]
                return (nm,) + tuple(vals)
            raise Unsupported("call %s" % (e.get("callee") or nm))
        it.unknown_call = oper
        return it.call_fn(name, [cond])

    def norm(v):
        if isinstance(v, Opaque):
            return v.tag
        if isinstance(v, tuple) and v and v[0] in ("or", "and", "not"):
            return (v[0],) + tuple(norm(x) for x in v[1:])
        if isinstance(v, bool):
            return v
        if isinstance(v, Var):
            if len(v.fields) == 1:
                return norm(v.fields[0])
            return (v.d.rsplit("::", 1)[-1],) + tuple(norm(x) for x in v.fields)
        if isinstance(v, tuple) and len(v) == 2 and v[0] == "__some":
            return norm(v[1])
        return v

    def expected(cond):
        op = "or" if cond["condition_type"].d.endswith("Any") else "and"
        ms = []
        for m in cond["conditions"]:
            ms.append(expected(m.fields[0]) if m.d.endswith("::Condition") else m.fields[0].tag)
        if not ms:
            r = (op == "and")
        else:
            r = ms[0]
            for x in ms[1:]:
                r = (op, r, x)
        return ("not", r) if cond["negate"] else r

    def group(kind, neg, members):
        return {"negate": neg, "condition_type": Var(CT + "::" + kind), "conditions": members}
    try:
        leaf = lambda t: Var(CE_ + "::SimpleExpr", [Opaque(t)])
        for kind in ("Any", "All"):
            for neg in (False, True):
                for n in (0, 1, 2, 3):
                    shapes = [[leaf("m%d" % i) for i in range(n)]]
                    if n >= 1:
                        inner = group("All" if kind == "Any" else "Any", True, [leaf("i0"), leaf("i1")])
                        shapes.append([leaf("m%d" % i) for i in range(n - 1)] + [Var(CE_ + "::Condition", [inner])])
                        shapes.append([Var(CE_ + "::Condition", [group(kind, False, [])])] + [leaf("m%d" % i) for i in range(1, n)])
                    for members in shapes:
                        c = group(kind, neg, members)
                        rows += 1
                        got = norm(run_one(c))
                        want = expected(c)
                        if got != want:
                            bad.append("%s%s%s -> %r, expected %r" % ("NOT " if neg else "", kind, [getattr(m.fields[0], "tag", "group") for m in members], got, want))
    except (Unsupported, Diverged) as e:
        run.notes.append("C06.R3 to_simple_expr outside the interpreter's fragment (%s): decided by its shape" % e)
        return False
    run.ob("C06.R3", "to_simple_expr:table", not bad,
           "Condition::to_simple_expr interpreted on %d groups (Any / All x negate x 0..3 members incl. nested and empty groups): the members "
           "folded left to right with OR / AND, TRUE / FALSE for an empty group, NOT around the whole exactly when negated%s" % (rows, "" if not bad else " - NOT: " + "; ".join(bad[:3])),
           sp=fn["sp"], cfg=cfg)
    from .. import scope
    scope.check_bound(run, "C06.R3", "to_simple_expr:scope", f, [name], 3, cfg, "to_simple_expr (groups of 0..3 members)")
    return True


def check_to_simple_expr(run, f, cfg):
    name = COND + "::to_simple_expr"
    fn = f.fns.get(name)
    if fn is None:
        run.anchor("C06.R3", "to_simple_expr", "not found", cfg)
        return
    if to_simple_expr_by_interp(run, f, cfg, name, fn):
        return
    body = nhir(f, name)
    fold = {}
    empty = {}
    for m in walk(body):
        if m.get("k") == "match" and m.get("src") == "Normal" and H.place(m["scrut"]) == "self.condition_type":
            for arm in m["arms"]:
                vs = T.pat_variants(arm["pat"])
                b = H.peel_ref(arm["body"])
                for v in vs:
                    short = v.rsplit("::", 1)[-1]
                    if b.get("k") == "mcall" and b["name"] in ("or", "and") and (b.get("callee") or "").startswith("crate::expr::"):
                        fold[short] = (b["name"], H.place(b["recv"]), H.place(b["args"][0]))
                    elif b.get("k") == "mcall" and b["name"] == "into" and H.peel_ref(b["recv"]).get("k") == "lit":
                        empty[short] = H.peel_ref(b["recv"])["lit"]["v"]
    run.ob("C06.R3", "fold:Any", fold.get("Any", ("",))[0] == "or", "members of an Any group are folded with OR", sp=fn["sp"], cfg=cfg, detail=fold.get("Any"))
    run.ob("C06.R3", "fold:All", fold.get("All", ("",))[0] == "and", "members of an All group are folded with AND", sp=fn["sp"], cfg=cfg, detail=fold.get("All"))
    run.ob("C06.R3", "fold:order", all(v[1] is not None and v[1] != v[2] for v in fold.values()) and len(fold) == 2,
           "the fold is accumulator.op(next member): members keep their order", sp=fn["sp"], cfg=cfg, detail=fold)
    run.ob("C06.R3", "empty:Any", empty.get("Any") is False, "an empty Any group is the constant FALSE (neutral element of OR)", sp=fn["sp"], cfg=cfg)
    run.ob("C06.R3", "empty:All", empty.get("All") is True, "an empty All group is the constant TRUE (neutral element of AND)", sp=fn["sp"], cfg=cfg)
    # negate applies to the whole result; members pass through unchanged; forward iteration
    ps = [p for p in P.fn_paths(body) if p.out == "ret"]
    okn = bool(ps)
    for p in ps:
        neg = [c for c in p.conds if c[0] == "if" and H.place(c[1]) == "self.negate"]
        v = H.peel_ref(p.value)
        if len(neg) != 1:
            okn = False
        elif neg[0][2]:
            okn = okn and v.get("k") == "mcall" and v["name"] == "not" and H.place(v["recv"]) == "expr"
        else:
            okn = okn and H.place(v) == "expr"
    run.ob("C06.R3", "negate", okn, "negate wraps the complete fold in NOT, and only then", sp=fn["sp"], cfg=cfg)
    names = [c.get("name") or (c.get("callee") or "").rsplit("::", 1)[-1] for c in H.calls(body)]
    deny = {"rev", "sort", "sort_by", "dedup", "reverse", "skip", "take", "step_by", "filter", "retain", "swap", "last", "pop"}
    run.ob("C06.R3", "members:order", not (set(names) & deny), "members are visited in order, none skipped (no rev/skip/filter/... among %d calls)" % len(names), sp=fn["sp"], cfg=cfg,
           detail=sorted(set(names) & deny) or None)
    # member arms: nested group -> recursive call; expression -> clone
    rec = [c for c in H.calls(body) if (c.get("callee") or "") == name]
    cl = [c for c in H.calls(body) if c.get("name") == "clone" and (c.get("callee") or "").endswith("Clone::clone")]
    run.ob("C06.R3", "members:passthrough", len(rec) == 1 and len(cl) == 1, "a nested group is translated by the same function, an expression member is cloned unchanged", sp=fn["sp"], cfg=cfg)


def check_render(run, f, cfg):
    QB = "crate::backend::query_builder::QueryBuilder"
    name = QB + "::prepare_condition"
    try:
        t = T.fn_tir(f, name)
    except KeyError:
        run.anchor("C06.R4", "prepare_condition", "not found", cfg)
        return
    # what prepare_condition writes for an empty holder and for a holder with a condition, by interpreting its body
    from .. import kw as KW
    from .. import link as LK
    table = {}
    dialect = [d for d, adt in LK.BACKENDS.items() if adt in f.adts][0]
    linker = LK.Linker(f, dialect)
    try:
        table["Empty"] = KW.render(f, linker, QB, "prepare_condition", [{"contents": Var(CHC + "::Empty")}, "KW"])
        table["Condition"] = KW.render(f, linker, QB, "prepare_condition", [{"contents": Var(CHC + "::Condition", [Opaque("c")])}, "KW"])
    except (Unsupported, Diverged) as e:
        run.anchor("C06.R4", "prepare_condition", "outside the interpreter's fragment: %s" % e, cfg)
        return
    run.ob("C06.R4", "render:Empty", table.get("Empty") == "", "an empty holder renders nothing (no dangling keyword)", sp=t.fn["sp"], cfg=cfg, detail=table.get("Empty"))
    run.ob("C06.R4", "render:Condition", table.get("Condition") == " KW <prepare_condition_where>",
           "a condition renders as ` <keyword> ` followed by the expression of prepare_condition_where", sp=t.fn["sp"], cfg=cfg, detail=table.get("Condition"))
    # who-may-call to_simple_expr
    callers = set()
    for nm, fn in f.fns.items():
        if fn.get("kind") != "fn":
            continue
        if any(True for _ in H.calls(fn["hir"], lambda c: c.get("callee") == COND + "::to_simple_expr")):
            callers.add(nm)
    allowed = {COND + "::to_simple_expr", QB + "::prepare_condition_where"}
    # items nested in to_simple_expr (a local helper fn, a closure) are part of it
    extra = sorted(c for c in callers - allowed if "::test" not in c and not c.startswith(COND + "::to_simple_expr::"))
    run.ob("C06.R4", "to_simple_expr:callers", not extra and (QB + "::prepare_condition_where") in callers,
           "conditions are turned into expressions only by prepare_condition_where", cfg=cfg, detail=extra or None)
    # prepare_condition_where renders exactly that expression
    pw = f.fns.get(QB + "::prepare_condition_where")
    if pw:
        ps = P.fn_paths(nhir(f, QB + "::prepare_condition_where"))
        ok = len(ps) == 1
        if ok:
            cs = ps[0].calls()
            names = [c.get("name") for c in cs]
            ok = names == ["to_simple_expr", "prepare_simple_expr"] and H.place(cs[0]["recv"]) == pw["params"][1]["pat"].get("name")
        run.ob("C06.R4", "prepare_condition_where", ok, "prepare_condition_where renders condition.to_simple_expr() through prepare_simple_expr", sp=pw["sp"], cfg=cfg)


API = [
    # (method def path, holder place, how)
    ("<crate::query::select::SelectStatement as crate::query::condition::ConditionalStatement>::cond_where", "self.where"),
    ("<crate::query::update::UpdateStatement as crate::query::condition::ConditionalStatement>::cond_where", "self.where"),
    ("<crate::query::delete::DeleteStatement as crate::query::condition::ConditionalStatement>::cond_where", "self.where"),
    ("crate::query::select::SelectStatement::cond_having", "self.having"),
    ("crate::query::on_conflict::OnConflict::target_cond_where", "self.target_where"),
    ("crate::query::on_conflict::OnConflict::action_cond_where", "self.action_where"),
    ("<crate::index::create::IndexCreateStatement as crate::query::condition::ConditionalStatement>::cond_where", "self.where"),
]
FORWARDS = [
    ("crate::query::condition::ConditionalStatement::and_where", "cond_where"),
    ("crate::query::select::SelectStatement::and_having", "cond_having"),
    ("crate::query::on_conflict::OnConflict::target_and_where", "target_cond_where"),
    ("crate::query::on_conflict::OnConflict::action_and_where", "action_cond_where"),
]


def check_api(run, f, cfg):
    n = 0
    for name, holder in API:
        fn = f.fns.get(name)
        if fn is None:
            run.anchor("C06.R5", "api:" + name.rsplit("::", 2)[-2] + "::" + name.rsplit("::", 1)[-1], "%s not found" % name, cfg)
            continue
        n += 1
        pn = fn["params"][1]["pat"].get("name")
        ps = [p for p in P.fn_paths(fn["hir"]) if p.out != "diverge"]
        ok = len(ps) == 1
        if ok:
            cs = ps[0].calls()
            ok = len(cs) == 2 and cs[0].get("name") == "into_condition" and H.place(cs[0]["recv"]) == pn and \
                cs[1].get("callee") == CH + "::add_condition" and (H.place(cs[1]["recv"]) or "").replace("r#", "") == holder and H.peel_ref(cs[1]["args"][0]) is cs[0]
        short = name.replace("crate::query::", "").replace("crate::", "")
        run.ob("C06.R5", "api:" + short, ok, "%s is exactly %s.add_condition(condition.into_condition())" % (short.rsplit("::", 1)[-1], holder), sp=fn["sp"], cfg=cfg)
    run.floor("C06.R5", "api-methods", n, 7, cfg)
    for name, target in FORWARDS:
        fn = f.fns.get(name)
        if fn is None:
            run.anchor("C06.R5", "forward:" + name.rsplit("::", 1)[-1], "%s not found" % name, cfg)
            continue
        pn = fn["params"][1]["pat"].get("name")
        ps = [p for p in P.fn_paths(fn["hir"]) if p.out != "diverge"]
        ok = len(ps) == 1
        if ok:
            cs = ps[0].calls()
            ok = len(cs) == 1 and cs[0].get("name") == target and H.place(cs[0]["recv"]) == "self" and H.place(cs[0]["args"][0]) == pn
        run.ob("C06.R5", "forward:" + name.replace("crate::query::", "").replace("crate::", ""), ok, "%s forwards its argument to self.%s unchanged" % (name.rsplit("::", 1)[-1], target),
               sp=fn["sp"], cfg=cfg)
    # join ON: new_with_condition(condition.into_condition()), and new_with_condition stores it unchanged
    nw = f.fns.get(CH + "::new_with_condition")
    ok = False
    if nw:
        ps = P.fn_paths(nw["hir"])
        if len(ps) == 1:
            v = H.peel_ref(ps[0].value)
            lets = {e["n"]["pat"].get("name"): e["n"]["init"] for e in ps[0].events if e["ev"] == "let" and e["n"]["pat"].get("k") == "bind"}
            if v.get("k") == "struct":
                c = H.peel_ref(v["fields"][0]["e"])
                if c.get("k") == "local" and c["name"] in lets:
                    c = H.peel_ref(lets[c["name"]])
                ok = c.get("k") == "call" and c.get("callee") == CHC + "::Condition" and H.place(c["args"][0]) == nw["params"][0]["pat"].get("name")
    run.ob("C06.R5", "new_with_condition", ok, "ConditionHolder::new_with_condition stores the supplied condition unchanged", sp=nw["sp"] if nw else None, cfg=cfg)
    nj = 0
    for nm, fn in f.fns.items():
        if fn.get("kind") != "fn" or "::test" in nm:
            continue
        for c in H.calls(fn["hir"], lambda c: c.get("callee") == CH + "::new_with_condition"):
            nj += 1
            a = H.peel_ref(c["args"][0])
            run.ob("C06.R5", "join-on:%s" % nm.rsplit("::", 1)[-1], a.get("k") == "mcall" and a["name"] == "into_condition" and H.peel_ref(a["recv"]).get("k") == "local",
                   "%s builds the ON holder from the supplied condition unchanged" % nm.rsplit("::", 1)[-1], sp=c.get("sp"), cfg=cfg)
    run.floor("C06.R5", "join-on-sites", nj, 4, cfg)
    # CASE WHEN keeps the condition itself
    cw = f.fns.get("crate::query::case::CaseStatement::case")
    if cw:
        lits = [n for n in walk(cw["hir"]) if n.get("k") == "struct" and (n.get("adt") or "").endswith("CaseStatementCondition")]
        ok = len(lits) == 1
        if ok:
            flds = {x["name"]: H.peel_ref(x["e"]) for x in lits[0]["fields"]}
            c = flds.get("condition", {})
            ok = c.get("k") == "mcall" and c["name"] == "into_condition" and H.place(c["recv"]) == cw["params"][1]["pat"].get("name")
        run.ob("C06.R5", "case-when", ok, "CaseStatement::case stores cond.into_condition() unchanged", sp=cw["sp"], cfg=cfg)
    else:
        run.anchor("C06.R5", "case-when", "CaseStatement::case not found", cfg)


def check_small_paths(run, f, cfg, only=None):
    if only is not None:
        class _F:
            def __getattr__(self, k):
                return getattr(run, k)

            def ob(self, rule, key, *a, **kw):
                if key in only:
                    return run.ob(rule, key, *a, **kw)
        return check_small_paths(_F(), f, cfg, None)
    for nm, ty in ((COND + "::any", "Any"), (COND + "::all", "All")):
        fn = f.fns.get(nm)
        ok = False
        if fn:
            ps = P.fn_paths(fn["hir"])
            v = H.peel_ref(ps[0].value) if len(ps) == 1 else {}
            if v.get("k") == "struct":
                fl = {x["name"]: H.peel_ref(x["e"]) for x in v["fields"]}
                ok = fl.get("negate", {}).get("lit", {}).get("v") is False and fl.get("condition_type", {}).get("def") == CT + "::" + ty and \
                    fl.get("conditions", {}).get("callee") == "alloc::vec::Vec::<T>::new"
        run.ob("C06.R6", nm.rsplit("::", 1)[-1], ok, "Condition::%s() is an empty, non-negated %s group" % (nm.rsplit("::", 1)[-1], ty), sp=fn["sp"] if fn else None, cfg=cfg)
    fn = f.fns.get(COND + "::not")
    ok = False
    if fn:
        ps = P.fn_paths(fn["hir"])
        if len(ps) == 1:
            asg = [e["n"] for e in ps[0].events if e["ev"] == "assign"]
            if len(asg) == 1 and H.place(asg[0]["l"]) == "self.negate":
                r = H.peel_ref(asg[0]["r"])
                ok = r.get("k") == "unary" and r["op"] == "not" and H.place(r["e"]) == "self.negate" and H.place(ps[0].value) == "self" and not ps[0].calls()
    run.ob("C06.R6", "not", ok, "Condition::not is exactly negate = !negate (double negation cancels)", sp=fn["sp"] if fn else None, cfg=cfg)
    fn = f.fns.get(COND + "::add_option")
    ok = False
    if fn:
        ps = [p for p in P.fn_paths(fn["hir"]) if p.out != "diverge"]
        ok = len(ps) == 2
        for p in ps:
            cs = p.calls()
            took = [c for c in p.conds if c[0] == "if"]
            if took and took[0][2]:
                ok = ok and len(cs) == 1 and cs[0].get("name") == "add" and H.place(cs[0]["recv"]) == "self"
            else:
                ok = ok and not cs and H.place(p.value) == "self"
    run.ob("C06.R6", "add_option", ok, "add_option(None) returns self untouched, add_option(Some(c)) is add(c)", sp=fn["sp"] if fn else None, cfg=cfg)
    nm = f.impl_fn("crate::query::condition::IntoCondition", "crate::expr::SimpleExpr", "into_condition")
    fn = f.fns.get(nm) if nm else None
    ok = False
    if fn:
        ps = P.fn_paths(fn["hir"])
        if len(ps) == 1:
            v = H.peel_ref(ps[0].value)
            ok = v.get("k") == "mcall" and v["name"] == "add" and H.peel_ref(v["recv"]).get("callee") == COND + "::all" and H.place(v["args"][0]) == "self"
    run.ob("C06.R6", "IntoCondition<SimpleExpr>", ok, "an expression becomes the condition ALL[expr]", sp=fn["sp"] if fn else None, cfg=cfg)
    nm = f.impl_fn("crate::query::condition::IntoCondition", COND, "into_condition")
    fn = f.fns.get(nm) if nm else None
    ok = False
    if fn:
        ps = P.fn_paths(fn["hir"])
        ok = len(ps) == 1 and H.place(ps[0].value) == "self" and not ps[0].calls()
    run.ob("C06.R6", "IntoCondition<Condition>", ok, "a condition is passed through unchanged", sp=fn["sp"] if fn else None, cfg=cfg)


def _eq_val(a, b):
    if isinstance(a, dict) and isinstance(b, dict):
        return set(a) == set(b) and all(_eq_val(a[k], b[k]) for k in a)
    if isinstance(a, list) and isinstance(b, list):
        return len(a) == len(b) and all(_eq_val(x, y) for x, y in zip(a, b))
    if isinstance(a, Var) and isinstance(b, Var):
        return a.d == b.d and _eq_val(list(a.fields), list(b.fields))
    return a is b or (not isinstance(a, (dict, list, Var, Opaque)) and a == b)


def check_small(run, f, cfg):
    """R6 as tables (the bodies are interpreted; outside the fragment the path rules apply)"""
    fallback = set()
    # any() / all()
    for nm, ty in ((COND + "::any", "Any"), (COND + "::all", "All")):
        key = nm.rsplit("::", 1)[-1]
        try:
            r = _interp(f).call_fn(nm, [])
            ok = isinstance(r, dict) and r.get("negate") is False and r.get("condition_type") == Var(CT + "::" + ty) and r.get("conditions") == []
            run.ob("C06.R6", key, ok, "Condition::%s() is an empty, non-negated %s group" % (key, ty), sp=(f.fns.get(nm) or {}).get("sp"), cfg=cfg)
        except (Unsupported, Diverged, KeyError):
            fallback.add(key)
    # not()
    try:
        bad = []
        for s0 in abstract_conditions():
            r = _interp(f).call_fn(COND + "::not", [_clone_group(s0)])
            if not (isinstance(r, dict) and r.get("negate") == (not s0["negate"]) and r.get("condition_type") == s0["condition_type"] and
                    len(r["conditions"]) == len(s0["conditions"]) and all(x is y for x, y in zip(r["conditions"], s0["conditions"]))):
                bad.append(describe(s0))
        run.ob("C06.R6", "not", not bad, "Condition::not flips negate and nothing else, for every shape of group (double negation cancels)"
               + ("" if not bad else " - EXCEPT " + ", ".join(bad)), sp=(f.fns.get(COND + "::not") or {}).get("sp"), cfg=cfg)
    except (Unsupported, Diverged, KeyError):
        fallback.add("not")
    # add_option
    try:
        bad = []
        for s0 in abstract_conditions():
            r = _interp(f).call_fn(COND + "::add_option", [_clone_group(s0), None])
            if not (isinstance(r, dict) and _same_group(r, s0)):
                bad.append("%s.add_option(None)" % describe(s0))
            for c in abstract_conditions():
                a1 = Var(CE + "::Condition", [_clone_group(c)])
                a2 = Var(CE + "::Condition", [_clone_group(c)])
                r1 = _interp(f).call_fn(COND + "::add_option", [_clone_group(s0), ("__some", a1)])
                r2 = _interp(f).call_fn(COND + "::add", [_clone_group(s0), a2])
                if not _eq_val(r1, r2):
                    bad.append("%s.add_option(Some(%s))" % (describe(s0), describe(c)))
        run.ob("C06.R6", "add_option", not bad, "add_option(None) returns self untouched, add_option(Some(c)) equals add(c), for every shape of self and c"
               + ("" if not bad else " - EXCEPT " + ", ".join(bad[:6])), sp=(f.fns.get(COND + "::add_option") or {}).get("sp"), cfg=cfg)
    except (Unsupported, Diverged, KeyError):
        fallback.add("add_option")
    # the conversions and whatever could not be tabulated: path rules
    check_small_paths(run, f, cfg, only=fallback | {"IntoCondition<SimpleExpr>", "IntoCondition<Condition>"})


def check(run):
    for cfg in run.tier_configs(["default"], ["all"]):
        f = run.facts(cfg)
        check_add(run, f, cfg)
        check_add_condition(run, f, cfg)
        check_to_simple_expr(run, f, cfg)
        check_render(run, f, cfg)
        check_api(run, f, cfg)
        check_small(run, f, cfg)
    run.assumptions.append("identities used: G[x] == x for a non-negated single-member group; AND(a..) AND AND(b..) == AND(a.., b..); "
                           "AND(a..) AND X == AND(a.., X); OR() == FALSE; AND() == TRUE - all valid in SQL three-valued logic")
    run.assumptions.append("the produced SimpleExpr tree is printed faithfully (C05)")
    run.assumptions.append("hidden and_or_where / LogicalChainOper chains are outside the property's listed API")
