//! Function bodies: resolved HIR expression trees (with typeck results) + MIR.

use crate::json::J;
use crate::{mirdump, obj, Ctx};
use rustc_hir as hir;
use rustc_hir::def::{DefKind, Res};
use rustc_hir::def_id::LocalDefId;
use rustc_middle::ty::{self, TypeckResults};

pub struct B<'a, 'tcx> {
    pub cx: &'a mut Ctx<'tcx>,
    pub tr: &'tcx TypeckResults<'tcx>,
}

pub fn dump_fns<'tcx>(cx: &mut Ctx<'tcx>) -> J {
    let tcx = cx.tcx;
    let mut out = Vec::new();
    let owners: Vec<LocalDefId> = tcx.hir_body_owners().collect();
    for def in owners {
        let did = def.to_def_id();
        let kind = tcx.def_kind(did);
        let is_fn = matches!(kind, DefKind::Fn | DefKind::AssocFn);
        let is_closure = matches!(kind, DefKind::Closure);
        let is_const = matches!(
            kind,
            DefKind::Const { .. } | DefKind::AssocConst { .. } | DefKind::Static { .. }
        );
        if !(is_fn || is_closure || is_const) {
            continue;
        }
        let (sp, macs) = cx.sp_j(tcx.def_span(did));
        let name = cx.def(did);
        let mir = if is_fn || is_closure { mirdump::dump_mir(cx, def) } else { J::Null };
        if is_closure {
            // HIR of closures is inlined in the parent; only MIR is keyed separately.
            out.push((name, obj! { "kind": J::s("closure"), "sp": sp, "mac": macs, "mir": mir,
                "parent": J::s(cx.def(tcx.typeck_root_def_id(did))) }));
            continue;
        }
        let tr = tcx.typeck(def);
        let body = tcx.hir_body_owned_by(def);
        let mut params = Vec::new();
        let mut ret = J::Null;
        let mut owner = J::Null;
        let mut vis = J::Null;
        let mut self_kind = J::Null;
        let mut derived = J::Null;
        if is_fn {
            let sig = tcx.fn_sig(did).instantiate_identity().skip_norm_wip().skip_binder();
            ret = cx.ty(sig.output());
            vis = J::Bool(tcx.visibility(did).is_public());
            if let Some(assoc) = tcx.opt_associated_item(did) {
                let container = assoc.container_id(tcx);
                owner = match tcx.def_kind(container) {
                    DefKind::Trait => obj! { "trait": J::s(cx.def(container)) },
                    _ => {
                        derived = J::Bool(tcx.is_automatically_derived(container));
                        obj! { "impl": J::s(cx.def(container)) }
                    }
                };
                if assoc.is_method() {
                    let st = sig.inputs()[0];
                    self_kind = J::s(match st.kind() {
                        ty::Ref(_, _, m) => if m.is_mut() { "mut" } else { "ref" },
                        _ => "value",
                    });
                }
            }
        }
        let mut b = B { cx, tr };
        for p in body.params.iter() {
            let pty = tr.pat_ty(p.pat);
            let pat = b.pat(p.pat);
            params.push(obj! { "pat": pat, "ty": b.cx.ty(pty) });
        }
        let hirj = b.expr(body.value);
        out.push((
            name,
            obj! {
                "kind": J::s(if is_fn { "fn" } else { "const" }),
                "sp": sp,
                "mac": macs,
                "pub": vis,
                "owner": owner,
                "derived": derived,
                "self_kind": self_kind,
                "params": J::Arr(params),
                "ret": ret,
                "hir": hirj,
                "mir": mir,
            },
        ));
    }
    J::Map(out)
}

fn lit_j(l: &hir::Lit) -> J {
    use rustc_ast::LitKind;
    match &l.node {
        LitKind::Str(s, _) => obj! { "t": J::s("str"), "v": J::s(s.as_str()) },
        LitKind::ByteStr(b, _) | LitKind::CStr(b, _) => obj! {
            "t": J::s("bytes"),
            "v": J::Arr(b.as_byte_str().iter().map(|x| J::Int(*x as i128)).collect())
        },
        LitKind::Byte(b) => obj! { "t": J::s("byte"), "v": J::Int(*b as i128) },
        LitKind::Char(c) => obj! { "t": J::s("char"), "v": J::s(c.to_string()) },
        LitKind::Int(i, _) => obj! { "t": J::s("int"), "v": J::Int(i.get() as i128) },
        LitKind::Float(s, _) => obj! { "t": J::s("float"), "v": J::s(s.as_str()) },
        LitKind::Bool(b) => obj! { "t": J::s("bool"), "v": J::Bool(*b) },
        LitKind::Err(_) => obj! { "t": J::s("err") },
    }
}

impl<'a, 'tcx> B<'a, 'tcx> {
    fn res_j(&mut self, res: Res) -> J {
        match res {
            Res::Local(id) => obj! { "k": J::s("local"), "id": J::Int(id.local_id.as_u32() as i128),
                "name": J::s(self.cx.tcx.hir_name(id).to_string()) },
            Res::Def(kind, did) => {
                let mut v = vec![
                    ("k", J::s("path")),
                    ("dk", J::s(format!("{:?}", kind))),
                    ("def", J::s(self.cx.def(did))),
                ];
                // constructors: name the variant / struct they construct
                if let DefKind::Ctor(of, _) = kind {
                    let parent = self.cx.tcx.parent(did);
                    v.push(("ctor_of", J::s(self.cx.def(parent))));
                    v.push(("ctor_kind", J::s(format!("{:?}", of))));
                }
                J::Obj(v)
            }
            Res::SelfCtor(did) => obj! { "k": J::s("path"), "dk": J::s("SelfCtor"), "def": J::s(self.cx.def(did)) },
            Res::SelfTyAlias { alias_to, .. } => obj! { "k": J::s("path"), "dk": J::s("SelfTy"), "def": J::s(self.cx.def(alias_to)) },
            other => obj! { "k": J::s("path"), "dk": J::s(format!("{:?}", other)) },
        }
    }

    fn qpath(&mut self, q: &hir::QPath<'tcx>, id: hir::HirId) -> J {
        let res = self.tr.qpath_res(q, id);
        self.res_j(res)
    }

    pub fn pat(&mut self, p: &'tcx hir::Pat<'tcx>) -> J {
        use hir::PatKind::*;
        let tcx = self.cx.tcx;
        let mut v: Vec<(&'static str, J)> = Vec::new();
        match &p.kind {
            Missing | Wild => v.push(("k", J::s("wild"))),
            Never => v.push(("k", J::s("never"))),
            Binding(mode, id, ident, sub) => {
                v.push(("k", J::s("bind")));
                v.push(("id", J::Int(id.local_id.as_u32() as i128)));
                v.push(("name", J::s(ident.name.to_string())));
                v.push(("by_ref", J::Bool(!matches!(mode.0, hir::ByRef::No))));
                v.push(("mut", J::Bool(mode.1.is_mut())));
                if let Some(s) = sub {
                    let sj = self.pat(s);
                    v.push(("sub", sj));
                }
            }
            Struct(q, fields, rest) => {
                v.push(("k", J::s("variant")));
                let r = self.qpath(q, p.hir_id);
                v.push(("path", r));
                let fs = fields
                    .iter()
                    .map(|f| {
                        let pj = self.pat(f.pat);
                        obj! { "name": J::s(f.ident.name.to_string()), "pat": pj }
                    })
                    .collect();
                v.push(("fields", J::Arr(fs)));
                v.push(("rest", J::Bool(rest.is_some())));
            }
            TupleStruct(q, subs, ddpos) => {
                v.push(("k", J::s("variant")));
                let r = self.qpath(q, p.hir_id);
                v.push(("path", r));
                let ss = subs.iter().map(|s| self.pat(s)).collect();
                v.push(("subs", J::Arr(ss)));
                if let Some(pos) = ddpos.as_opt_usize() {
                    v.push(("dotdot", J::Int(pos as i128)));
                }
            }
            Or(alts) => {
                v.push(("k", J::s("or")));
                let a = alts.iter().map(|s| self.pat(s)).collect();
                v.push(("alts", J::Arr(a)));
            }
            Tuple(subs, ddpos) => {
                v.push(("k", J::s("tuple")));
                let ss = subs.iter().map(|s| self.pat(s)).collect();
                v.push(("subs", J::Arr(ss)));
                if let Some(pos) = ddpos.as_opt_usize() {
                    v.push(("dotdot", J::Int(pos as i128)));
                }
            }
            Box(s) | Deref(s) => {
                v.push(("k", J::s("deref")));
                let sj = self.pat(s);
                v.push(("sub", sj));
            }
            Ref(s, _, _) => {
                v.push(("k", J::s("ref")));
                let sj = self.pat(s);
                v.push(("sub", sj));
            }
            Expr(pe) => match &pe.kind {
                hir::PatExprKind::Lit { lit, negated } => {
                    v.push(("k", J::s("lit")));
                    v.push(("lit", lit_j(lit)));
                    v.push(("neg", J::Bool(*negated)));
                }
                hir::PatExprKind::Path(q) => {
                    v.push(("k", J::s("variant")));
                    let r = self.qpath(q, pe.hir_id);
                    v.push(("path", r));
                }
            },
            Guard(s, e) => {
                v.push(("k", J::s("guard")));
                let sj = self.pat(s);
                v.push(("sub", sj));
                let ej = self.expr(e);
                v.push(("cond", ej));
            }
            Range(lo, hi, end) => {
                v.push(("k", J::s("range")));
                let lo_j = match lo {
                    Some(pe) => match &pe.kind {
                        hir::PatExprKind::Lit { lit, .. } => lit_j(lit),
                        hir::PatExprKind::Path(q) => {
                            let r = self.qpath(q, pe.hir_id);
                            obj! { "t": J::s("path"), "path": r }
                        }
                        _ => J::s("path"),
                    },
                    None => J::Null,
                };
                let hi_j = match hi {
                    Some(pe) => match &pe.kind {
                        hir::PatExprKind::Lit { lit, .. } => lit_j(lit),
                        hir::PatExprKind::Path(q) => {
                            let r = self.qpath(q, pe.hir_id);
                            obj! { "t": J::s("path"), "path": r }
                        }
                        _ => J::s("path"),
                    },
                    None => J::Null,
                };
                v.push(("lo", lo_j));
                v.push(("hi", hi_j));
                v.push(("end", J::s(format!("{:?}", end))));
            }
            Slice(a, m, b) => {
                v.push(("k", J::s("slice")));
                let aj = a.iter().map(|s| self.pat(s)).collect();
                v.push(("before", J::Arr(aj)));
                if let Some(m) = m {
                    let mj = self.pat(m);
                    v.push(("mid", mj));
                }
                let bj = b.iter().map(|s| self.pat(s)).collect();
                v.push(("after", J::Arr(bj)));
            }
            Err(_) => v.push(("k", J::s("err"))),
        }
        let _ = tcx;
        J::Obj(v)
    }

    fn block(&mut self, b: &'tcx hir::Block<'tcx>) -> J {
        let mut stmts = Vec::new();
        for s in b.stmts.iter() {
            match &s.kind {
                hir::StmtKind::Let(l) => {
                    let pat = self.pat(l.pat);
                    let init = match l.init {
                        Some(e) => self.expr(e),
                        None => J::Null,
                    };
                    let els = match l.els {
                        Some(b) => self.block(b),
                        None => J::Null,
                    };
                    let (sp, _) = self.cx.sp_j(l.span);
                    stmts.push(obj! { "k": J::s("stmt_let"), "pat": pat, "init": init, "els": els, "sp": sp,
                        "pty": { let t = self.tr.pat_ty(l.pat); self.cx.ty(t) } });
                }
                hir::StmtKind::Item(_) => {}
                hir::StmtKind::Expr(e) => {
                    let ej = self.expr(e);
                    stmts.push(ej);
                }
                hir::StmtKind::Semi(e) => {
                    let ej = self.expr(e);
                    stmts.push(obj! { "k": J::s("semi"), "e": ej });
                }
            }
        }
        let tail = match b.expr {
            Some(e) => self.expr(e),
            None => J::Null,
        };
        obj! { "k": J::s("block"), "stmts": J::Arr(stmts), "expr": tail,
               "unsafe": if matches!(b.rules, hir::BlockCheckMode::UnsafeBlock(_)) { J::Bool(true) } else { J::Null } }
    }

    pub fn expr(&mut self, e: &'tcx hir::Expr<'tcx>) -> J {
        use hir::ExprKind::*;
        let tcx = self.cx.tcx;
        // transparent wrappers
        match &e.kind {
            DropTemps(inner) | Type(inner, _) | Use(inner, _) => return self.expr(inner),
            _ => {}
        }
        let mut v: Vec<(&'static str, J)> = Vec::new();
        let ty = self.tr.expr_ty(e);
        match &e.kind {
            Lit(l) => {
                v.push(("k", J::s("lit")));
                v.push(("lit", lit_j(l)));
            }
            Path(q) => {
                let r = self.qpath(q, e.hir_id);
                if let J::Obj(fields) = r {
                    v.extend(fields);
                }
                // generic args of the path (e.g. T in T::null())
                if let Some(args) = self.tr.node_args_opt(e.hir_id) {
                    if !args.is_empty() {
                        let a = args.iter().map(|g| J::s(format!("{}", {
                            use rustc_middle::ty::print::{with_crate_prefix, with_no_trimmed_paths, with_no_visible_paths};
                            with_crate_prefix!(with_no_visible_paths!(with_no_trimmed_paths!(g.to_string())))
                        }))).collect();
                        v.push(("substs", J::Arr(a)));
                    }
                }
            }
            Field(base, ident) => {
                v.push(("k", J::s("field")));
                let bj = self.expr(base);
                v.push(("base", bj));
                v.push(("name", J::s(ident.name.to_string())));
                // after auto-deref, which ADT owns the field
                let bty = self.tr.expr_ty_adjusted(base).peel_refs();
                if let Some(adt) = bty.ty_adt_def() {
                    v.push(("adt", J::s(self.cx.def(adt.did()))));
                }
            }
            MethodCall(seg, recv, args, _) => {
                v.push(("k", J::s("mcall")));
                v.push(("name", J::s(seg.ident.name.to_string())));
                if let Some(did) = self.tr.type_dependent_def_id(e.hir_id) {
                    v.push(("callee", J::s(self.cx.def(did))));
                    self.callee_info(did, e.hir_id, &mut v);
                }
                let rty = self.tr.expr_ty_adjusted(recv);
                v.push(("recv_ty", self.cx.ty(rty)));
                let rj = self.expr(recv);
                v.push(("recv", rj));
                let aj = args.iter().map(|a| self.expr(a)).collect();
                v.push(("args", J::Arr(aj)));
                v.push(("src", self.cx.snippet(e.span, 100)));
            }
            Call(f, args) => {
                v.push(("k", J::s("call")));
                // resolve callee when it is a path to a fn / ctor
                let mut resolved = false;
                if let Path(q) = &f.kind {
                    let res = self.tr.qpath_res(q, f.hir_id);
                    if let Res::Def(kind, did) = res {
                        v.push(("callee", J::s(self.cx.def(did))));
                        v.push(("dk", J::s(format!("{:?}", kind))));
                        if let DefKind::Ctor(..) = kind {
                            let parent = tcx.parent(did);
                            v.push(("ctor_of", J::s(self.cx.def(parent))));
                        }
                        if matches!(kind, DefKind::Fn | DefKind::AssocFn) {
                            self.callee_info(did, f.hir_id, &mut v);
                        }
                        resolved = true;
                    } else if let Res::SelfCtor(did) = res {
                        v.push(("callee", J::s(self.cx.def(did))));
                        v.push(("dk", J::s("SelfCtor")));
                        resolved = true;
                    }
                }
                if !resolved {
                    let fj = self.expr(f);
                    v.push(("fn_expr", fj));
                }
                let aj = args.iter().map(|a| self.expr(a)).collect();
                v.push(("args", J::Arr(aj)));
                v.push(("src", self.cx.snippet(e.span, 100)));
            }
            Unary(op, inner) => {
                v.push(("k", J::s("unary")));
                v.push(("op", J::s(match op { hir::UnOp::Deref => "deref", hir::UnOp::Not => "not", hir::UnOp::Neg => "neg" })));
                if let Some(did) = self.tr.type_dependent_def_id(e.hir_id) {
                    v.push(("callee", J::s(self.cx.def(did))));
                }
                let ij = self.expr(inner);
                v.push(("e", ij));
            }
            Binary(op, l, r) => {
                v.push(("k", J::s("binary")));
                v.push(("op", J::s(op.node.as_str())));
                if let Some(did) = self.tr.type_dependent_def_id(e.hir_id) {
                    v.push(("callee", J::s(self.cx.def(did))));
                }
                let lt = self.tr.expr_ty(l);
                v.push(("lty", self.cx.ty(lt)));
                let lj = self.expr(l);
                let rj = self.expr(r);
                v.push(("l", lj));
                v.push(("r", rj));
            }
            Assign(l, r, _) => {
                v.push(("k", J::s("assign")));
                let lj = self.expr(l);
                let rj = self.expr(r);
                v.push(("l", lj));
                v.push(("r", rj));
            }
            AssignOp(op, l, r) => {
                v.push(("k", J::s("assignop")));
                v.push(("op", J::s(op.node.as_str())));
                if let Some(did) = self.tr.type_dependent_def_id(e.hir_id) {
                    v.push(("callee", J::s(self.cx.def(did))));
                }
                let lj = self.expr(l);
                let rj = self.expr(r);
                v.push(("l", lj));
                v.push(("r", rj));
            }
            AddrOf(_, m, inner) => {
                v.push(("k", J::s("addr")));
                v.push(("mut", J::Bool(m.is_mut())));
                let ij = self.expr(inner);
                v.push(("e", ij));
            }
            Cast(inner, _) => {
                v.push(("k", J::s("cast")));
                let it = self.tr.expr_ty(inner);
                v.push(("from", self.cx.ty(it)));
                let ij = self.expr(inner);
                v.push(("e", ij));
            }
            Struct(q, fields, tail) => {
                v.push(("k", J::s("struct")));
                let r = self.qpath(q, e.hir_id);
                v.push(("path", r));
                if let Some(adt) = ty.ty_adt_def() {
                    v.push(("adt", J::s(self.cx.def(adt.did()))));
                }
                let fs = fields
                    .iter()
                    .map(|f| {
                        let ej = self.expr(f.expr);
                        obj! { "name": J::s(f.ident.name.to_string()), "e": ej, "shorthand": if f.is_shorthand { J::Bool(true) } else { J::Null } }
                    })
                    .collect();
                v.push(("fields", J::Arr(fs)));
                match tail {
                    hir::StructTailExpr::Base(b) => {
                        let bj = self.expr(b);
                        v.push(("base", bj));
                    }
                    hir::StructTailExpr::DefaultFields(_) => v.push(("base", J::s("default-fields"))),
                    _ => {}
                }
            }
            Tup(es) => {
                v.push(("k", J::s("tuple")));
                let ej = es.iter().map(|x| self.expr(x)).collect();
                v.push(("es", J::Arr(ej)));
            }
            Array(es) => {
                v.push(("k", J::s("array")));
                let ej = es.iter().map(|x| self.expr(x)).collect();
                v.push(("es", J::Arr(ej)));
            }
            Repeat(x, _) => {
                v.push(("k", J::s("repeat")));
                let xj = self.expr(x);
                v.push(("e", xj));
            }
            Index(b, i, _) => {
                v.push(("k", J::s("index")));
                if let Some(did) = self.tr.type_dependent_def_id(e.hir_id) {
                    v.push(("callee", J::s(self.cx.def(did))));
                }
                let bt = self.tr.expr_ty_adjusted(b);
                v.push(("base_ty", self.cx.ty(bt)));
                let bj = self.expr(b);
                let ij = self.expr(i);
                v.push(("base", bj));
                v.push(("idx", ij));
            }
            If(c, t, el) => {
                v.push(("k", J::s("if")));
                let cj = self.expr(c);
                let tj = self.expr(t);
                v.push(("cond", cj));
                v.push(("then", tj));
                if let Some(el) = el {
                    let ej = self.expr(el);
                    v.push(("else", ej));
                }
            }
            Let(l) => {
                v.push(("k", J::s("let")));
                let pj = self.pat(l.pat);
                let ij = self.expr(l.init);
                v.push(("pat", pj));
                v.push(("init", ij));
            }
            Match(scrut, arms, src) => {
                v.push(("k", J::s("match")));
                v.push(("src", J::s(format!("{:?}", src))));
                let st = self.tr.expr_ty(scrut);
                v.push(("scrut_ty", self.cx.ty(st)));
                let sj = self.expr(scrut);
                v.push(("scrut", sj));
                let aj = arms
                    .iter()
                    .map(|a| {
                        let pj = self.pat(a.pat);
                        let gj = match a.guard {
                            Some(g) => self.expr(g),
                            None => J::Null,
                        };
                        let bj = self.expr(a.body);
                        let (sp, _) = self.cx.sp_j(a.span);
                        obj! { "pat": pj, "guard": gj, "body": bj, "sp": sp }
                    })
                    .collect();
                v.push(("arms", J::Arr(aj)));
            }
            Loop(b, _, src, _) => {
                v.push(("k", J::s("loop")));
                v.push(("src", J::s(format!("{:?}", src))));
                let bj = self.block(b);
                v.push(("body", bj));
            }
            Block(b, _) => {
                let bj = self.block(b);
                if let J::Obj(fields) = bj {
                    v.extend(fields);
                }
            }
            Closure(c) => {
                v.push(("k", J::s("closure")));
                v.push(("def", J::s(self.cx.def(c.def_id.to_def_id()))));
                let body = tcx.hir_body(c.body);
                let ps = body
                    .params
                    .iter()
                    .map(|p| {
                        let pt = self.tr.pat_ty(p.pat);
                        let pj = self.pat(p.pat);
                        obj! { "pat": pj, "ty": self.cx.ty(pt) }
                    })
                    .collect();
                v.push(("params", J::Arr(ps)));
                let bj = self.expr(body.value);
                v.push(("body", bj));
            }
            Ret(x) => {
                v.push(("k", J::s("ret")));
                if let Some(x) = x {
                    let xj = self.expr(x);
                    v.push(("e", xj));
                }
            }
            Break(_, x) => {
                v.push(("k", J::s("break")));
                if let Some(x) = x {
                    let xj = self.expr(x);
                    v.push(("e", xj));
                }
            }
            Continue(_) => v.push(("k", J::s("continue"))),
            Become(x) => {
                v.push(("k", J::s("become")));
                let xj = self.expr(x);
                v.push(("e", xj));
            }
            ConstBlock(_) => v.push(("k", J::s("constblock"))),
            InlineAsm(_) => v.push(("k", J::s("asm"))),
            OffsetOf(..) => v.push(("k", J::s("offsetof"))),
            Yield(..) => v.push(("k", J::s("yield"))),
            UnsafeBinderCast(..) => v.push(("k", J::s("unsafebinder"))),
            Err(_) => v.push(("k", J::s("err"))),
            DropTemps(..) | Type(..) | Use(..) => unreachable!(),
        }
        v.push(("ty", self.cx.ty(ty)));
        // adjustments (auto-deref / auto-borrow / unsize) applied to this expression
        let adjs = self.tr.expr_adjustments(e);
        if !adjs.is_empty() {
            let a: Vec<J> = adjs
                .iter()
                .map(|a| {
                    use rustc_middle::ty::adjustment::Adjust;
                    J::s(match &a.kind {
                        Adjust::NeverToAny => "never".to_string(),
                        Adjust::Deref(..) => "deref".to_string(),
                        Adjust::Borrow(_) => "borrow".to_string(),
                        Adjust::Pointer(p) => format!("ptr:{:?}", p),
                        _ => "other".to_string(),
                    })
                })
                .collect();
            v.push(("adj", J::Arr(a)));
            let at = self.tr.expr_ty_adjusted(e);
            v.push(("aty", self.cx.ty(at)));
        }
        let (sp, macs) = self.cx.sp_j(e.span);
        v.push(("sp", sp));
        v.push(("mac", macs));
        J::Obj(v)
    }

    /// For a call to `did` at `hir_id`: the generic args, the trait the callee belongs to (if any),
    /// and the concrete impl method it resolves to (if resolvable).
    fn callee_info(&mut self, did: rustc_hir::def_id::DefId, hir_id: hir::HirId, v: &mut Vec<(&'static str, J)>) {
        let tcx = self.cx.tcx;
        let args = self.tr.node_args(hir_id);
        if !args.is_empty() {
            use rustc_middle::ty::print::{with_crate_prefix, with_no_trimmed_paths, with_no_visible_paths};
            let a = args
                .iter()
                .map(|g| J::s(with_crate_prefix!(with_no_visible_paths!(with_no_trimmed_paths!(g.to_string())))))
                .collect();
            v.push(("substs", J::Arr(a)));
        }
        if let Some(tr) = tcx.trait_of_assoc(did) {
            v.push(("trait", J::s(self.cx.def(tr))));
            // try to resolve to the impl item
            let owner = self.tr.hir_owner.def_id.to_def_id();
            let typing_env = ty::TypingEnv::post_analysis(tcx, owner);
            if tcx.generics_of(did).count() != args.len() {
                return;
            }
            if let Ok(Some(inst)) = std::panic::catch_unwind(std::panic::AssertUnwindSafe(|| {
                ty::Instance::try_resolve(tcx, typing_env, did, args).ok().flatten()
            })) {
                let rd = inst.def_id();
                if rd != did {
                    v.push(("resolved", J::s(self.cx.def(rd))));
                } else {
                    v.push(("resolved", J::s("=")));
                }
            }
        }
    }
}
