"""C02  Inline rendering and parameterised rendering are the same statement.

Both modes run the same prepare_* code on a `&mut dyn SqlWriter`; they can differ only where the writer's
identity is observable.  Rules: DESIGN.md section 4, C02."""
from .. import hir as H
from .. import paths as P
from ..facts import nhir, walk

META = ("other",
        "C02.R1 SqlWriter has exactly the impls String and SqlWriterValues and String::push_param is "
        "push_str(&query_builder.value_to_string(&value)) on its own parameters; R2 callee census on every value of type "
        "dyn SqlWriter (only write_fmt/write_str/write_char/push_param/as_writer, to_string only in build_collect*; no Any/"
        "downcast); R3 sibling agreement of the entry points of the 5 statement types (each interpreted on opaque self / backend / "
        "writer, forwarding between siblings followed: the backend's renderer is reached exactly once with exactly those) and "
        "of the #[inherent] forwards; "
        "R4 renderers take statements by shared reference, every statement-reachable type is Freeze, no clock/random/env/"
        "hash-order source in the crate's renderers; R5 every push_param call hands over the rendering backend itself (self) as "
        "the builder of the inline literal and sits in a prepare_value impl",
        "one obligation per impl, call site on a writer value, entry point, forward, renderer parameter and type")

SQLW = "crate::prepare::SqlWriter"
QB = "crate::backend::query_builder::QueryBuilder"
QSB = "crate::query::traits::QueryStatementBuilder"
QSW = "crate::query::traits::QueryStatementWriter"

RENDERER_OF = {
    "crate::query::select::SelectStatement": "prepare_select_statement",
    "crate::query::insert::InsertStatement": "prepare_insert_statement",
    "crate::query::update::UpdateStatement": "prepare_update_statement",
    "crate::query::delete::DeleteStatement": "prepare_delete_statement",
    "crate::query::with::WithQuery": "prepare_with_query",
}

WRITER_METHODS = {"write_fmt", "write_str", "write_char", "push_param", "as_writer"}
DENY_PREFIX = ("std::time::", "std::env::", "std::collections::hash::map::HashMap", "std::collections::hash::set::HashSet",
               "core::any::", "std::thread::", "std::fs::", "std::io::", "std::process::", "rand::", "core::cell::", "std::sync::Mutex")


def is_test_fn(name):
    return "::tests::" in name or "::test::" in name or name.endswith("::tests") or "::tests_" in name


def check_impls(run, f, cfg):
    impls = f.trait_impls(SQLW)
    tys = sorted(i["self_ty"] for i in impls)
    run.ob("C02.R1", "impls", tys == ["alloc::string::String", "crate::prepare::SqlWriterValues"],
           "SqlWriter is implemented exactly for String and SqlWriterValues", cfg=cfg, detail=tys)
    name = "<alloc::string::String as crate::prepare::SqlWriter>::push_param"
    try:
        fn = f.fn(name)
        body = nhir(f, name)
    except KeyError:
        run.anchor("C02.R1", "String::push_param", "not found", cfg)
        return
    pn = [p["pat"].get("name") for p in fn["params"]]
    ps = [p for p in P.fn_paths(body) if p.out != "diverge"]
    for i, p in enumerate(ps):
        calls = [e["n"] for e in p.events if e["ev"] == "call"]
        ok = len(calls) == 2 and not p.conds
        detail = [c.get("src") for c in calls]
        if ok:
            v2s, push = calls
            ok = (v2s.get("k") == "mcall" and v2s.get("callee") == QB + "::value_to_string" and H.place(v2s["recv"]) == pn[2]
                  and H.place(v2s["args"][0]) == pn[1]
                  and push.get("k") == "mcall" and push["name"] == "push_str" and H.place(push["recv"]) == pn[0]
                  and H.peel_ref(push["args"][0]) is v2s)
        run.ob("C02.R1", "String::push_param:path%d" % i, ok,
               "String::push_param(value, qb) is exactly self.push_str(&qb.value_to_string(&value)) - the inline text is the rendering "
               "backend's literal for the value that would have been bound", sp=fn["sp"], cfg=cfg, detail=detail)
    run.floor("C02.R1", "String::push_param-paths", len(ps), 1, cfg)
    # as_writer returns self for both impls
    for i in impls:
        an = i["items"].get("as_writer")
        if not an:
            run.anchor("C02.R1", "as_writer:" + i["self_ty"], "as_writer missing", cfg)
            continue
        ps = P.fn_paths(nhir(f, an))
        v = ps[0].value if len(ps) == 1 else None
        while isinstance(v, dict) and v.get("k") == "cast":
            v = v["e"]
        run.ob("C02.R1", "as_writer:" + i["self_ty"], len(ps) == 1 and H.place(v) == "self" and not ps[0].calls(),
               "as_writer returns the writer itself", sp=f.fn(an)["sp"], cfg=cfg)


def check_writer_census(run, f, cfg):
    n = 0
    for name, fn in f.fns.items():
        if fn.get("kind") != "fn" or is_test_fn(name):
            continue
        for c in walk(fn["hir"]):
            if c.get("k") != "mcall":
                continue
            rt = f.ty(c.get("recv_ty")) or ""
            if "dyn crate::prepare::SqlWriter" not in rt:
                continue
            n += 1
            m = c["name"]
            ok = m in WRITER_METHODS
            if m == "to_string":
                # allowed only as the value the function returns (build_collect*): the text is handed to the caller,
                # never inspected by rendering code
                tails = [H.peel_ref(p.value) for p in P.fn_paths(fn["hir"]) if p.out == "ret"]
                ok = bool(tails) and all(t is c for t in tails if t is not None) and any(t is c for t in tails)
            if not ok:
                run.ob("C02.R2", "writer-call:%s:%s" % (name, m), False,
                       "`%s` is called on a dyn SqlWriter in %s: the writer's identity/contents become observable to rendering" % (m, name),
                       sp=c.get("sp"), cfg=cfg)
        # Any / downcast anywhere near a writer
        for c in H.calls(fn["hir"], lambda c: (c.get("callee") or "").startswith("core::any::")):
            run.ob("C02.R2", "any:%s" % name, False, "core::any used in %s" % name, sp=c.get("sp"), cfg=cfg)
    run.ob("C02.R2", "census", True, "%d method calls on dyn SqlWriter values; all within the allowed set" % n, cfg=cfg)
    run.floor("C02.R2", "writer-calls", n, {"full": 400, "single": 300}, cfg)


def single_call(run, f, name):
    body = nhir(f, name)
    ps = [p for p in P.fn_paths(body) if p.out != "diverge"]
    if len(ps) != 1 or ps[0].conds:
        return None
    calls = ps[0].calls()
    if len(calls) != 1:
        return None
    return calls[0]


def entry_by_interp(f, name, renderer):
    """interpret an entry point on opaque (self, backend, writer): list of deviations from `backend.renderer(self, writer)
    exactly once, nothing else`; None when outside the interpreter's fragment"""
    from ..interp import Interp, Opaque, Unsupported, Diverged
    it = Interp(f)
    it.free_opaque = True
    it.max_depth = 6
    seen = []
    it.opaque_call = lambda e: (e.get("callee") or "") == renderer

    def rec(it_, e, env, depth):
        if (e.get("callee") or "") != renderer:
            raise Unsupported("call %s" % (e.get("callee") or e.get("name")))
        vals = ([it_.ev(e["recv"], env, depth)] if e.get("k") == "mcall" else []) + [it_.ev(a, env, depth) for a in e.get("args") or []]
        seen.append([getattr(v, "tag", repr(v)) for v in vals])
        return ()
    it.unknown_call = rec
    try:
        it.call_fn(name, [Opaque("self"), Opaque("backend"), Opaque("writer")])
    except (Unsupported, Diverged):
        return None
    bad = []
    if len(seen) != 1:
        bad.append("the renderer is called %d times" % len(seen))
    elif seen[0] != ["backend", "self", "writer"]:
        bad.append("the renderer is called with %s" % seen[0])
    if it.out:
        bad.append("text is written outside the renderer")
    return bad


def check_entry_points(run, f, cfg):
    b = {i["self_adt"]: i for i in f.trait_impls(QSB)}
    w = {i["self_adt"]: i for i in f.trait_impls(QSW)}
    run.ob("C02.R3", "statement-types", sorted(b) == sorted(RENDERER_OF) and sorted(w) == sorted(RENDERER_OF),
           "QueryStatementBuilder/QueryStatementWriter are implemented exactly for the 5 statement types", cfg=cfg,
           detail={"builder": sorted(b), "writer": sorted(w)})
    for adt, rend in sorted(RENDERER_OF.items()):
        short = adt.rsplit("::", 1)[-1]
        for tr, impls, item in ((QSB, b, "build_collect_any_into"), (QSW, w, "build_collect_into")):
            i = impls.get(adt)
            if i is None or item not in i["items"]:
                run.anchor("C02.R3", "%s:%s" % (short, item), "impl item missing", cfg)
                continue
            name = i["items"][item]
            fn = f.fn(name)
            pn = [p["pat"].get("name") for p in fn["params"]]
            dec = entry_by_interp(f, name, QB + "::" + rend)
            if dec is not None:
                run.ob("C02.R3", "%s:%s" % (short, item), dec == [],
                       "%s::%s (interpreted, forwarding through sibling entry points followed) reaches query_builder.%s(self, sql) exactly once and does nothing else%s" % (
                           short, item, rend, "" if dec == [] else " - NOT: " + "; ".join(dec)), sp=fn["sp"], cfg=cfg)
                continue
            c = single_call(run, f, name)
            ok = c is not None
            detail = None
            if ok:
                callee = c.get("callee") or ""
                args = ([H.place(c["recv"])] if c.get("k") == "mcall" else []) + [H.place(a) for a in c["args"]]
                ok = callee == QB + "::" + rend and args == [pn[1], pn[0], pn[2]]
                detail = {"callee": callee, "args": args}
            run.ob("C02.R3", "%s:%s" % (short, item), ok,
                   "%s::%s is exactly query_builder.%s(self, sql)" % (short, item, rend), sp=fn["sp"], cfg=cfg, detail=detail)
    # trait default bodies reach the statement only through the two *_into methods
    allowed = {
        QSB + "::build_any": {"build_collect_any_into"}, QSB + "::build_collect_any": {"build_collect_any_into"},
        QSW + "::to_string": {"build_collect_any_into"}, QSW + "::build": {"build_collect_into"},
        QSW + "::build_collect": {"build_collect_into"},
    }
    for name, want in sorted(allowed.items()):
        try:
            body = nhir(f, name)
        except KeyError:
            run.anchor("C02.R3", "default:" + name, "default body not found", cfg)
            continue
        selfcalls = [c["name"] for c in walk(body) if c.get("k") == "mcall" and H.place(c["recv"]) == "self"]
        run.ob("C02.R3", "default:" + name.rsplit("::", 1)[-1], set(selfcalls) == want and len(selfcalls) == 1,
               "%s renders through self.%s exactly once" % (name.rsplit("::", 2)[-2] + "::" + name.rsplit("::", 1)[-1], "/".join(sorted(want))),
               sp=f.fn(name)["sp"], cfg=cfg, detail=selfcalls)
    # to_string uses a fresh empty String as the writer
    # #[inherent] forwards call the trait method of the same name with the same arguments
    nfw = 0
    for adt in sorted(RENDERER_OF):
        for item, tr in (("build_collect_any_into", QSB), ("build_any", QSB), ("build_collect_any", QSB),
                         ("build_collect_into", QSW), ("build_collect", QSW), ("build", QSW), ("to_string", QSW)):
            name = "%s::%s" % (adt, item)
            if name not in f.fns:
                continue   # not forwarded for this type (e.g. WithQuery::build_collect_any_into)
            nfw += 1
            fn = f.fn(name)
            pn = [p["pat"].get("name") for p in fn["params"]]
            c = single_call(run, f, name)
            ok = c is not None
            detail = None
            if ok:
                args = ([H.place(c["recv"])] if c.get("k") == "mcall" else []) + [H.place(a) for a in c["args"]]
                ok = (c.get("callee") == tr + "::" + item) and args == pn
                detail = {"callee": c.get("callee"), "args": args}
            run.ob("C02.R3", "inherent:%s:%s" % (adt.rsplit("::", 1)[-1], item), ok,
                   "inherent %s::%s forwards to the trait method of the same name with its own arguments" % (adt.rsplit("::", 1)[-1], item),
                   sp=fn["sp"], cfg=cfg, detail=detail)
    run.floor("C02.R3", "inherent-forwards", nfw, 25, cfg)


def reachable_types(f, roots):
    """ADTs reachable through field types from the root ADTs (by name occurrence in the resolved type strings)"""
    seen = set()
    todo = list(roots)
    names = sorted(f.adts, key=len, reverse=True)
    while todo:
        a = todo.pop()
        if a in seen or a not in f.adts:
            continue
        seen.add(a)
        for v in f.adts[a]["variants"]:
            for fld in v["fields"]:
                t = f.ty(fld["ty"])
                for n in names:
                    if n in t and n not in seen:
                        todo.append(n)
    return seen


def check_immutability(run, f, cfg):
    # renderers take statements by shared reference
    tr = f.traits.get(QB)
    if tr is None:
        run.anchor("C02.R4", "QueryBuilder", "trait not found", cfg)
        return
    n = 0
    for it in tr["items"]:
        fn = f.fns.get(it["def"])
        if not fn:
            continue
        for p in fn["params"]:
            t = f.ty(p["ty"])
            if t.startswith("&mut ") and "dyn crate::prepare::SqlWriter" not in t and "alloc::string::String" not in t:
                run.ob("C02.R4", "mutparam:%s" % it["name"], False,
                       "QueryBuilder::%s takes %s: rendering could modify what it renders" % (it["name"], t), sp=fn["sp"], cfg=cfg)
            n += 1
    run.ob("C02.R4", "shared-ref-params", True, "%d renderer parameters inspected: statements are passed by shared reference" % n, cfg=cfg)
    run.floor("C02.R4", "renderer-params", n, 200, cfg)
    reach = reachable_types(f, RENDERER_OF.keys())
    nf = 0
    for a in sorted(reach):
        auto = f.adts[a].get("auto")
        if auto is None:
            # generic: inspect field types for interior mutability
            bad = [f.ty(fl["ty"]) for v in f.adts[a]["variants"] for fl in v["fields"]
                   if any(x in f.ty(fl["ty"]) for x in ("core::cell::", "std::sync::Mutex", "std::sync::RwLock", "core::sync::atomic"))]
            run.ob("C02.R4", "freeze:%s" % a, not bad, "%s has no interior-mutability field" % a, sp=f.adts[a]["sp"], cfg=cfg, detail=bad or None)
        else:
            run.ob("C02.R4", "freeze:%s" % a, auto.get("Freeze") is True, "%s: Freeze (no interior mutability; rendering twice sees the same value)" % a,
                   sp=f.adts[a]["sp"], cfg=cfg)
        nf += 1
    run.floor("C02.R4", "statement-reachable-types", nf, 40, cfg)
    # deny list over the callees of every function that can write SQL
    nd = 0
    for name, fn in f.fns.items():
        if fn.get("kind") != "fn" or is_test_fn(name):
            continue
        if not any("dyn crate::prepare::SqlWriter" in f.ty(p["ty"]) or "dyn core::fmt::Write" in f.ty(p["ty"]) for p in fn.get("params") or []):
            continue
        for c in H.calls(fn["hir"]):
            nd += 1
            cal = H.callee(c) or ""
            if cal.startswith(DENY_PREFIX):
                run.ob("C02.R4", "nondeterminism:%s:%s" % (name, cal), False,
                       "renderer %s calls %s (clock/random/environment/hash-order/interior mutability)" % (name, cal), sp=c.get("sp"), cfg=cfg)
    run.ob("C02.R4", "deny-list", True, "%d calls inside renderer functions inspected against the deny list" % nd, cfg=cfg)


def check_push_param_sites(run, f, cfg):
    """R5: the inline writer asks the builder it is handed for the literal, so every push_param call must hand over the
    rendering backend itself (`self`), never another builder - and the only callers are the prepare_value impls"""
    n = 0
    for name, fn in f.fns.items():
        if fn.get("hir") is None or is_test_fn(name):
            continue
        for c in H.calls(fn["hir"]):
            if not (c.get("callee") or "").endswith("SqlWriter::push_param"):
                continue
            n += 1
            short = name.rsplit("::", 1)[-1]
            b = c["args"][1] if len(c.get("args") or []) > 1 else None
            while isinstance(b, dict) and b.get("k") in ("cast", "addr", "deref", "paren"):
                b = b.get("e")
            ok = isinstance(b, dict) and b.get("k") == "local" and b.get("name") == "self"
            run.ob("C02.R5", "push_param-builder:%s" % name, ok,
                   "%s hands %s to push_param as the builder that renders the inline literal" % (short, "the rendering backend (self)" if ok else "something other than the rendering backend - the inline text would use another builder's literal syntax"),
                   sp=c.get("sp"), cfg=cfg)
            run.ob("C02.R5", "push_param-caller:%s" % name, short == "prepare_value",
                   "push_param is called from %s%s" % (short, "" if short == "prepare_value" else " - values must be written through prepare_value of the rendering backend"),
                   sp=c.get("sp"), cfg=cfg)
    run.floor("C02.R5", "push_param-sites", n, {"full": 4, "single": 2}, cfg)
    # no renderer conjures up another builder: a builder value (unit struct implementing QueryBuilder) appears only in
    # its own Default impl and in Display for Value (the documented common-syntax rendering, see C03.R6)
    qbs = {i["self_adt"] for i in f.trait_impls(QB)}
    allowed = ("as core::default::Default>::default", "<crate::value::Value as core::fmt::Display>::fmt",
               "crate::value::sea_value_to_json_value")     # conversion of a Value to JSON (with-json), not a SQL renderer
    m = 0
    for name, fn in f.fns.items():
        if fn.get("hir") is None or is_test_fn(name):
            continue
        for nd in walk(fn["hir"]):
            if nd.get("k") == "path" and (nd.get("def") in qbs or nd.get("ctor_of") in qbs):
                m += 1
                ok = any(name.endswith(a) for a in allowed)
                run.ob("C02.R5", "builder-value:%s:%s" % (name, (nd.get("def") or "").rsplit("::", 1)[-1]), ok,
                       "%s names the builder value %s%s" % (name.rsplit("::", 1)[-1], (nd.get("def") or "").rsplit("::", 1)[-1],
                                                            "" if ok else " - rendering must go through the builder the caller chose"),
                       sp=nd.get("sp"), cfg=cfg)
    run.floor("C02.R5", "builder-values", m, 2, cfg)


def check(run):
    for cfg in run.tier_configs(["default", "all"], ["mysql", "postgres", "sqlite"]):
        f = run.facts(cfg)
        check_impls(run, f, cfg)
        check_push_param_sites(run, f, cfg)
        check_writer_census(run, f, cfg)
        if cfg in ("default", "all"):
            check_entry_points(run, f, cfg)
        check_immutability(run, f, cfg)
    run.assumptions.append("not decided: that a live engine returns the same rows for the inline and the parameterised form (engine typing of literals vs bound parameters)")
    run.assumptions.append("value_to_string of the rendering backend is the backend's literal syntax (C03)")
    run.delegate("C01", "the parameterised form stands for the inline one only if the collecting writer binds every value it is handed, once, under its own placeholder",
                 only_rules={"R1", "R2", "R3", "R4", "R5", "R6", "R7", "R9"})
