"""Linking of per-function template IR for one backend: resolves renderer-to-renderer calls (trait dispatch on the
chosen backend type, inherent and free functions) so that rules can follow a statement through its renderers."""
from . import hir as H
from . import tir as T
from .facts import walk

BUILDER_TRAITS = [
    "crate::backend::query_builder::QueryBuilder",
    "crate::backend::table_builder::TableBuilder",
    "crate::backend::index_builder::IndexBuilder",
    "crate::backend::foreign_key_builder::ForeignKeyBuilder",
    "crate::backend::table_ref_builder::TableRefBuilder",
    "crate::backend::QuotedBuilder",
    "crate::backend::EscapeBuilder",
    "crate::backend::PrecedenceDecider",
    "crate::backend::OperLeftAssocDecider",
    "crate::extension::postgres::types::TypeBuilder",
    "crate::extension::postgres::extension::ExtensionBuilder",
]

BACKENDS = {
    "mysql": "crate::backend::mysql::MysqlQueryBuilder",
    "postgres": "crate::backend::postgres::PostgresQueryBuilder",
    "sqlite": "crate::backend::sqlite::SqliteQueryBuilder",
}


class Linker:
    def __init__(self, f, dialect):
        self.f = f
        self.dialect = dialect
        self.adt = BACKENDS[dialect]
        self._inherent = {}
        # inherent methods of the backend type shadow trait methods of the same name (rustc resolved them so at the call
        # site; the driver's `callee` already names the inherent method in that case)

    def resolve(self, callee, info=None):
        """def path of the function that runs when `callee` is called during rendering with this backend"""
        f = self.f
        for tr in BUILDER_TRAITS:
            if callee.startswith(tr + "::"):
                item = callee[len(tr) + 2:]
                n = f.impl_fn(tr, self.adt, item)
                if n:
                    return n
                return callee if callee in f.fns and f.fns[callee].get("hir") is not None else None
        if info is not None:
            r = info.get("resolved")
            if r and r != "=" and r in f.fns:
                return r
        if callee in f.fns and f.fns[callee].get("hir") is not None:
            return callee
        return None

    def callee_sink(self, target, info):
        t = T.fn_tir(self.f, target)
        idx = info.get("sink_index")
        if idx is None or idx >= len(t.params):
            return None
        nm = t.params[idx][0]
        return nm if nm in t.sinks else None

    def body(self, fname, sink=None, keep_sets=False):
        t = T.fn_tir(self.f, fname)
        if sink is None:
            ws = [s for s, k in t.sinks.items() if k == "writer"]
            if not ws:
                return t, ("seq", [])
            sink = ws[0]
        return t, T.project(t.effects, sink, None, keep_sets)


def param_fields(node, pname):
    """set of field names `pname.<field>` referenced anywhere inside an HIR node"""
    out = set()
    for n in walk(node):
        if n.get("k") == "field":
            b = H.peel_ref(n["base"])
            if b.get("k") == "local" and b.get("name") == pname:
                out.add(n["name"])
    return out


def mentions_param(node, pname):
    return any(n.get("k") == "local" and n.get("name") == pname for n in walk(node))


def guard_nodes(g):
    """HIR nodes that make up a guard"""
    out = []
    for k in ("e", "scrut", "pat", "arm_guard"):
        if isinstance(g.get(k), dict):
            out.append(g[k])
    return out


def field_uses(linker, fname, pname, depth=0, seen=None):
    """Every use of a field of the statement parameter `pname` of renderer `fname` (for this backend), with the guards
    under which it happens.  Follows calls that are handed the whole statement.  Returns a list of dicts
      {field, guards:[{text, fields}], fn, sp, how: 'write'|'call-arg'|'guard'}"""
    f = linker.f
    if seen is None:
        seen = set()
    if (fname, pname) in seen or depth > 6:
        return []
    seen.add((fname, pname))
    t = T.fn_tir(f, fname)
    uses = []
    # locals that stand for (an iterator over / a view of) a field of the statement: `let mut ctes = with.cte_expressions.iter();`
    aliases = {}
    for n in walk(t.body):
        if n.get("k") == "stmt_let" and n.get("init") is not None and n["pat"].get("k") == "bind":
            fl0 = param_fields(n["init"], pname)
            if fl0:
                aliases.setdefault(n["pat"]["name"], set()).update(fl0)

    def pfields(node):
        """fields of the statement a node depends on, directly or through such a local"""
        out = set(param_fields(node, pname))
        if aliases:
            for m in walk(node):
                if m.get("k") == "local" and m.get("name") in aliases:
                    out |= aliases[m["name"]]
        return out

    def gdesc(g):
        flds = set()
        others = False
        scr, pat = g.get("scrut"), g.get("pat")
        scr0 = H.peel_ref(scr) if isinstance(scr, dict) else None
        if isinstance(scr0, dict) and scr0.get("k") == "tuple" and isinstance(pat, dict) and pat.get("k") == "tuple" and \
                len(pat.get("subs") or []) == len(scr0.get("es") or []) and "taken" not in g:
            # `match (a.x, a.y) { (true, _) => .. }`: an arm tests only the components its pattern constrains
            parts = []
            for sub, comp in zip(pat["subs"], scr0["es"]):
                if sub.get("k") == "wild" or (sub.get("k") == "bind" and sub.get("sub") is None):
                    continue
                flds |= pfields(comp)
                parts.append("%s is %s" % (T.text(comp), T.pat_text(sub)))
            if isinstance(g.get("arm_guard"), dict):
                flds |= pfields(g["arm_guard"])
                parts.append(T.text(g["arm_guard"]))
            return {"text": " && ".join(parts) or "_", "fields": sorted(flds), "taken": g.get("taken")}
        for n in guard_nodes(g):
            flds |= pfields(n)
        return {"text": g.get("text"), "fields": sorted(flds), "taken": g.get("taken")}

    # An arm that panics (`_ => panic!("Not supported")`) rejects the input: nothing is rendered for it at all, so it is not a
    # condition under which a clause is silently left out.  Only return / continue / break leave a clause behind.
    def escapes_S(x):
        items = [y for y in T.flat(x) if y != ("seq", [])]
        return bool(items) and (items[-1][0] == "ctl" and items[-1][1] in ("ret", "continue", "break"))

    def escapes_E(x):
        if x[0] == "seq":
            items = [y for y in x[1] if y != ("seq", [])]
            return bool(items) and escapes_E(items[-1])
        return x[0] in ("ret", "continue", "break")

    def after_escape(x, guards, esc):
        """guards that hold for what follows an `if c { ..; return }`: the negation of c (it depends on the same fields)"""
        while x[0] == "seq":
            items = [y for y in x[1] if y != ("seq", [])]
            if not items:
                return guards
            x = items[-1]
        if x[0] != "alt":
            return guards
        out = list(guards)
        for g, b in x[1]:
            if esc(b):
                gd = gdesc(g)
                if gd["fields"]:
                    out.append({"text": "not yet left by `%s`" % (gd["text"] or ""), "fields": gd["fields"], "taken": None})
        return out

    def note_guarded_writes(x, guards, sp):
        """something is written under these guards: for a field that is only ever tested (a flag, an Option matched for
        its variant) this is its rendering - recorded once per guarded region with the full guard set"""
        if x[0] in ("seq", "alt", "loop", "star", "star1", "sepby"):
            writes = any(a[0] in ("lit", "hole", "call", "callv", "buf") and not (a[0] == "lit" and not a[1]) for a in T.atoms(x))
        else:
            writes = x[0] in ("lit", "hole", "call", "callv", "buf")
        if not writes:
            return
        flds = set()
        for g in guards:
            flds |= set(g["fields"])
        for fl in flds:
            # the guards that decide whether this field's clause is reached: up to the innermost one that tests the field
            # (deeper guards concern what is written inside the clause)
            last = max(i for i, g in enumerate(guards) if fl in g["fields"])
            uses.append({"field": fl, "guards": list(guards[:last + 1]), "fn": fname, "sp": sp, "how": "guarded-write",
                         "text": "write under %s" % " && ".join((g["text"] or "") for g in guards if fl in g["fields"])})

    def visit_S(S, guards):
        k = S[0]
        if k == "seq":
            for x in S[1]:
                visit_S(x, guards)
                guards = after_escape(x, guards, escapes_S)
        elif k == "alt":
            earlier = []        # negations of the arm guards (`PAT if cond`) of the arms above: a later arm is reached only if they failed
            for g, x in S[1]:
                gd = gdesc(g)
                for fl in gd["fields"]:
                    uses.append({"field": fl, "guards": list(guards), "fn": fname, "sp": g.get("sp"), "how": "guard", "text": gd["text"]})
                inner = guards + earlier + [gd]
                note_guarded_writes(x, inner, g.get("sp"))
                visit_S(x, inner)
                if isinstance(g.get("arm_guard"), dict):
                    flds = sorted(param_fields(g["arm_guard"], pname))
                    if flds:
                        earlier = earlier + [{"text": "not taken: `%s`" % (gd["text"] or ""), "fields": flds, "taken": None}]
        elif k in ("loop", "star", "star1"):
            info = S[2] if len(S) > 2 and isinstance(S[2], dict) else {}
            over = info.get("e")
            if isinstance(over, dict):
                for fl in pfields(over):
                    uses.append({"field": fl, "guards": list(guards), "fn": fname, "sp": info.get("sp"), "how": "iterate", "text": info.get("over")})
            visit_S(S[1], guards)
        elif k == "sepby":
            visit_S(S[1], guards)
            visit_S(S[2], guards)
        elif k == "hole":
            d = S[2] or {}
            for key in ("node", "of"):
                if isinstance(d.get(key), dict):
                    for fl in param_fields(d[key], pname):
                        uses.append({"field": fl, "guards": list(guards), "fn": fname, "sp": S[3], "how": "write", "text": d.get("what")})
            w = d.get("what") or ""
            # textual fallback: `<pname>.<field>` inside the description
            import re
            for m in re.finditer(r"\b%s\.(?:r#)?(\w+)" % re.escape(pname), w):
                uses.append({"field": m.group(1), "guards": list(guards), "fn": fname, "sp": S[3], "how": "write", "text": w})
            if isinstance(d.get("inner"), tuple):
                visit_S(d["inner"], guards)
        elif k in ("call", "callv"):
            info = S[2]
            nodes = info.get("arg_nodes") or []
            target = linker.resolve(S[1], info)
            for i, a in enumerate(nodes):
                if not isinstance(a, dict):
                    continue
                pa = H.peel_ref(a)
                if pa.get("k") == "local" and pa.get("name") == pname and target is not None:
                    # the whole statement is handed on: follow it
                    tt = T.fn_tir(f, target)
                    if i < len(tt.params) and tt.params[i][0]:
                        sub = field_uses(linker, target, tt.params[i][0], depth + 1, seen)
                        for u in sub:
                            uses.append(dict(u, guards=list(guards) + u["guards"]))
                    continue
                for fl in param_fields(a, pname):
                    uses.append({"field": fl, "guards": list(guards), "fn": fname, "sp": S[3], "how": "call-arg", "text": "%s(%s)" % (S[1].rsplit("::", 1)[-1], T.text(a)),
                                 "callee": target, "arg_index": i})

    def has_w(E):
        if E[0] == "w":
            return any(a[0] in ("lit", "hole", "call", "callv", "buf") and not (a[0] == "lit" and not a[1]) for a in T.atoms(E[2])) or E[2][0] in ("call", "callv", "hole")
        if E[0] == "seq":
            return any(has_w(x) for x in E[1])
        if E[0] == "alt":
            return any(has_w(x) for _, x in E[1])
        if E[0] == "loop":
            return has_w(E[1])
        return False

    def visit_E(E, guards):
        k = E[0]
        if k == "w":
            visit_S(E[2], guards)
        elif k == "seq":
            for x in E[1]:
                visit_E(x, guards)
                guards = after_escape(x, guards, escapes_E)
        elif k == "alt":
            earlier = []
            for g, x in E[1]:
                gd = gdesc(g)
                for fl in gd["fields"]:
                    uses.append({"field": fl, "guards": list(guards), "fn": fname, "sp": g.get("sp"), "how": "guard", "text": gd["text"]})
                inner = guards + earlier + [gd]
                if has_w(x):
                    flds = set()
                    for g_ in inner:
                        flds |= set(g_["fields"])
                    for fl in flds:
                        last = max(i_ for i_, g_ in enumerate(inner) if fl in g_["fields"])
                        uses.append({"field": fl, "guards": list(inner[:last + 1]), "fn": fname, "sp": g.get("sp"), "how": "guarded-write",
                                     "text": "write under %s" % " && ".join((g_["text"] or "") for g_ in inner if fl in g_["fields"])})
                visit_E(x, inner)
                if isinstance(g.get("arm_guard"), dict):
                    flds = sorted(param_fields(g["arm_guard"], pname))
                    if flds:
                        earlier = earlier + [{"text": "not taken: `%s`" % (gd["text"] or ""), "fields": flds, "taken": None}]
        elif k == "loop":
            info = E[2] or {}
            over = info.get("e")
            if isinstance(over, dict):
                for fl in pfields(over):
                    uses.append({"field": fl, "guards": list(guards), "fn": fname, "sp": info.get("sp"), "how": "iterate", "text": info.get("over")})
            visit_E(E[1], guards)

    visit_E(t.effects, [])
    # destructuring lets: `let CaseStatement { when, r#else } = stmts;` count as uses of all named fields
    for n in walk(t.body):
        if n.get("k") == "stmt_let" and n.get("init") is not None:
            init = H.peel_ref(n["init"])
            if init.get("k") == "local" and init.get("name") == pname and n["pat"].get("k") == "variant":
                for fp in n["pat"].get("fields") or []:
                    uses.append({"field": fp["name"], "guards": [], "fn": fname, "sp": n.get("sp"), "how": "destructure", "text": "let {..} = %s" % pname})
    return uses
