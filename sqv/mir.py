"""Utilities over the MIR view."""


def place_fields(place):
    """[(adt, field name)] for every field projection of a place, outermost first"""
    out = []
    for p in place.get("p") or []:
        if isinstance(p, dict) and "f" in p:
            out.append((p.get("adt"), p["name"]))
    return out


def iter_bodies(f):
    for name, fn in f.fns.items():
        m = fn.get("mir")
        if m:
            yield name, fn, m


def field_mutations(f, adt):
    """Every place in the crate where a field of `adt` is assigned, mutably borrowed, used as a call destination,
    or where a value of `adt` is constructed.  Yields dicts {fn, field, kind, sp}."""
    for name, fn, m in iter_bodies(f):
        for b in m["blocks"]:
            if b.get("cleanup"):
                continue
            for s in b["stmts"]:
                if s["k"] != "assign":
                    continue
                for a, fld in place_fields(s["place"]):
                    if a == adt:
                        yield {"fn": name, "field": fld, "kind": "assign", "sp": s.get("sp")}
                rv = s["rv"]
                if rv["k"] in ("ref", "rawptr") and rv.get("mut"):
                    for a, fld in place_fields(rv["place"]):
                        if a == adt:
                            yield {"fn": name, "field": fld, "kind": "borrow_mut", "sp": s.get("sp")}
                if rv["k"] == "agg" and rv.get("agg") == "adt" and rv.get("adt") == adt:
                    yield {"fn": name, "field": "*", "kind": "construct", "sp": s.get("sp")}
            t = b["term"]
            if t["k"] == "call":
                for a, fld in place_fields(t["dest"]):
                    if a == adt:
                        yield {"fn": name, "field": fld, "kind": "call_dest", "sp": b.get("sp")}


def calls_to(f, pred):
    """every MIR call terminator whose callee satisfies pred(callee_def, resolved) -> yields (fn name, block, term)"""
    for name, fn, m in iter_bodies(f):
        for i, b in enumerate(m["blocks"]):
            if b.get("cleanup"):
                continue
            t = b["term"]
            if t["k"] == "call":
                c = t["func"].get("fn")
                if c and pred(c, t.get("resolved")):
                    yield name, i, b


def callee_of(term):
    r = term.get("resolved")
    if r and r != "=":
        return r
    return term["func"].get("fn")


# ---- symbolic expansion of temporaries -----------------------------------------------------------------------

class Body:
    """Indexes of one MIR body: definitions of locals, predecessors, dominance."""

    def __init__(self, f, name):
        self.f = f
        self.name = name
        self.m = f.fns[name]["mir"]
        self.blocks = self.m["blocks"]
        self.locals = self.m["locals"]
        self.argc = self.m["argc"]
        self.defs = {}
        for bi, b in enumerate(self.blocks):
            if b.get("cleanup"):
                continue
            for si, s in enumerate(b["stmts"]):
                if s["k"] == "assign" and not s["place"].get("p"):
                    self.defs.setdefault(s["place"]["l"], []).append(("stmt", bi, si, s["rv"]))
            t = b["term"]
            if t["k"] == "call" and not t["dest"].get("p"):
                self.defs.setdefault(t["dest"]["l"], []).append(("call", bi, None, t))
        self.preds = {i: [] for i in range(len(self.blocks))}
        for i, b in enumerate(self.blocks):
            if b.get("cleanup"):
                continue
            for s in self.succs(i):
                self.preds[s].append(i)
        self.idom = self.m["idom"]

    def succs(self, i):
        t = self.blocks[i]["term"]
        k = t["k"]
        if k == "goto":
            return [t["target"]]
        if k == "switch":
            return [x[1] for x in t["targets"]] + [t["otherwise"]]
        if k in ("call", "drop", "assert"):
            return [t["target"]] if t.get("target") is not None else []
        return []

    def dominates(self, a, b):
        """block a dominates block b"""
        seen = 0
        while b is not None and seen < 10000:
            if a == b:
                return True
            nb = self.idom[b]
            if nb == b:
                return False
            b = nb
            seen += 1
        return False

    def local_name(self, l):
        return self.locals[l].get("name")

    def local_ty(self, l):
        return self.f.ty(self.locals[l]["ty"])

    def is_temp(self, l):
        return l > self.argc and self.locals[l].get("name") is None

    def dest_place(self, place):
        """expansion of a place that is being written: the base local is expanded only when written through (deref)"""
        proj = place.get("p") or []
        if proj and proj[0] == "deref":
            return self.expand_place(place)
        return self.expand_place(place, no_base=True)

    def expand_place(self, place, depth=0, no_base=False):
        l = place["l"]
        proj = place.get("p") or []
        base = None
        if not no_base and self.is_temp(l) and len(self.defs.get(l, [])) == 1 and depth < 40:
            d = self.defs[l][0]
            base = self.expand_def(d, depth + 1)
        else:
            nm = self.local_name(l)
            if l == 0:
                nm = "<ret>"
            base = ("var", nm if nm else "_%d" % l, l)
        for p in proj:
            if p == "deref":
                if base[0] == "ref":
                    base = base[2]
                else:
                    base = ("deref", base)
            elif isinstance(p, dict) and "f" in p:
                base = ("field", base, p["name"], p.get("adt"))
            elif isinstance(p, dict) and "downcast" in p:
                base = ("downcast", base, p.get("vname"))
            else:
                base = ("proj", base, str(p))
        return base

    def expand_operand(self, op, depth=0):
        if op["k"] == "const":
            if "fn" in op:
                return ("fn", op["fn"])
            if "v" in op:
                return ("const", op["v"])
            return ("const", op.get("text"))
        if op["k"] in ("copy", "move"):
            return self.expand_place(op["place"], depth)
        return ("unknown",)

    def expand_def(self, d, depth=0):
        kind, bi, si, x = d
        if kind == "call":
            return ("call", callee_of(x), tuple(self.expand_operand(a, depth) for a in x["args"]), bi)
        rv = x
        k = rv["k"]
        if k == "use":
            return self.expand_operand(rv["op"], depth)
        if k == "ref":
            return ("ref", bool(rv.get("mut")), self.expand_place(rv["place"], depth))
        if k == "bin":
            return ("bin", rv["op"], self.expand_operand(rv["a"], depth), self.expand_operand(rv["b"], depth))
        if k == "un":
            return ("un", rv["op"], self.expand_operand(rv["a"], depth))
        if k == "cast":
            return ("cast", rv["kind"], self.expand_operand(rv["op"], depth), rv.get("to"))
        if k == "discr":
            return ("discr", self.expand_place(rv["place"], depth))
        if k == "agg":
            return ("agg", rv.get("agg"), rv.get("adt"), rv.get("variant"), tuple(rv.get("fields") or ()),
                    tuple(self.expand_operand(o, depth) for o in rv["ops"]))
        return ("other", k)


def strip_refs(e):
    while isinstance(e, tuple) and e and e[0] in ("ref", "deref"):
        e = e[2] if e[0] == "ref" else e[1]
    return e


def show(e):
    """compact text of an expanded expression"""
    if not isinstance(e, tuple):
        return str(e)
    k = e[0]
    if k == "var":
        return e[1]
    if k == "field":
        return "%s.%s" % (show(e[1]), e[2])
    if k == "ref":
        return ("&mut " if e[1] else "&") + show(e[2])
    if k == "deref":
        return "*" + show(e[1])
    if k == "call":
        return "%s(%s)" % (e[1].rsplit("::", 1)[-1], ", ".join(show(a) for a in e[2]))
    if k == "bin":
        return "(%s %s %s)" % (show(e[2]), e[1], show(e[3]))
    if k == "const":
        return repr(e[1])
    if k == "agg":
        return "%s::%s{%s}" % ((e[2] or e[1] or "").rsplit("::", 1)[-1], e[3], ", ".join(show(a) for a in e[5]))
    if k == "downcast":
        return "%s as %s" % (show(e[1]), e[2])
    if k == "cast":
        return "cast(%s)" % show(e[2])
    if k == "un":
        return "%s(%s)" % (e[1], show(e[2]))
    if k == "discr":
        return "discr(%s)" % show(e[1])
    return str(e)


def self_writes(b):
    """blocks in which *self (any field) is assigned, mutably borrowed or used as call destination"""
    out = []
    for i, blk in enumerate(b.blocks):
        if blk.get("cleanup"):
            continue
        for s in blk["stmts"]:
            if s["k"] != "assign":
                continue
            for pl, kind in ((s["place"], "assign"),) + (((s["rv"]["place"], "borrow_mut"),) if s["rv"]["k"] == "ref" and s["rv"].get("mut") else ()):
                e = b.dest_place(pl) if kind == "assign" else b.expand_place(pl)
                root = e
                fields = []
                while isinstance(root, tuple) and root[0] in ("field", "deref", "downcast", "ref", "proj"):
                    if root[0] == "field":
                        fields.append(root[2])
                    root = root[2] if root[0] == "ref" else root[1]
                if isinstance(root, tuple) and root[0] == "var" and root[1] == "self" and fields:
                    out.append((i, kind, fields[-1], s.get("sp")))
        t = blk["term"]
        if t["k"] == "call":
            e = b.dest_place(t["dest"])
            root = e
            fields = []
            while isinstance(root, tuple) and root[0] in ("field", "deref", "downcast", "ref", "proj"):
                if root[0] == "field":
                    fields.append(root[2])
                root = root[2] if root[0] == "ref" else root[1]
            if isinstance(root, tuple) and root[0] == "var" and root[1] == "self" and fields:
                out.append((i, "call_dest", fields[-1], blk.get("sp")))
    return out
