"""Statement-structure rules shared by C07 / C08 / C13 / C14: field consumption (nothing the builder was given is
dropped; a clause is guarded only by its own emptiness), separator discipline, parenthesis balance, lexical adjacency,
order preservation - all over the linked template IR of one backend."""
import json
import os
import re

from . import hir as H
from . import link as L
from . import tir as T
from .facts import VERIF, walk

QB = "crate::backend::query_builder::QueryBuilder"
TB = "crate::backend::table_builder::TableBuilder"
IB = "crate::backend::index_builder::IndexBuilder"
FKB = "crate::backend::foreign_key_builder::ForeignKeyBuilder"

QUERY_STRUCTS = [
    # (trait, renderer method, struct, prefix of the struct inside the renderer's parameter)
    (QB, "prepare_select_statement", "crate::query::select::SelectStatement", ()),
    (QB, "prepare_insert_statement", "crate::query::insert::InsertStatement", ()),
    (QB, "prepare_update_statement", "crate::query::update::UpdateStatement", ()),
    (QB, "prepare_delete_statement", "crate::query::delete::DeleteStatement", ()),
    (QB, "prepare_with_query", "crate::query::with::WithQuery", ()),
    (QB, "prepare_with_clause", "crate::query::with::WithClause", ()),
    (QB, "prepare_with_query_clause_common_table", "crate::query::with::CommonTableExpression", ()),
    (QB, "prepare_select_expr", "crate::query::select::SelectExpr", ()),
    (QB, "prepare_join_expr", "crate::query::select::JoinExpr", ()),
    (QB, "prepare_order_expr", "crate::types::OrderExpr", ()),
    (QB, "prepare_window_statement", "crate::query::window::WindowStatement", ()),
    (QB, "prepare_select_lock", "crate::query::select::LockClause", ()),
    (QB, "prepare_on_conflict", "crate::query::on_conflict::OnConflict", ()),
    (QB, "prepare_case_statement", "crate::query::case::CaseStatement", ()),
    (QB, "prepare_function_arguments", "crate::func::FunctionCall", ()),
]
SCHEMA_STRUCTS = [
    (TB, "prepare_table_create_statement", "crate::table::create::TableCreateStatement", ()),
    (TB, "prepare_column_def", "crate::table::column::ColumnDef", ()),
    (TB, "prepare_table_alter_statement", "crate::table::alter::TableAlterStatement", ()),
    (TB, "prepare_table_drop_statement", "crate::table::drop::TableDropStatement", ()),
    (TB, "prepare_table_rename_statement", "crate::table::rename::TableRenameStatement", ()),
    (TB, "prepare_table_truncate_statement", "crate::table::truncate::TableTruncateStatement", ()),
    (IB, "prepare_index_create_statement", "crate::index::create::IndexCreateStatement", ()),
    (IB, "prepare_index_create_statement", "crate::index::common::TableIndex", ("index",)),
    (IB, "prepare_table_index_expression", "crate::index::common::TableIndex", ("index",)),
    (IB, "prepare_index_drop_statement", "crate::index::drop::IndexDropStatement", ()),
    (FKB, "prepare_foreign_key_create_statement_internal", "crate::foreign_key::common::TableForeignKey", ("foreign_key",)),
    (FKB, "prepare_foreign_key_drop_statement_internal", "crate::foreign_key::common::TableForeignKey", ("foreign_key",), ("name",)),
]


def load_table(name):
    p = os.path.join(VERIF, "specs", name)
    if not os.path.exists(p):
        return {}
    return {e["key"]: e["reason"] for e in json.load(open(p))["entries"]}


def dotted_fields(node, pname):
    """set of dotted field paths rooted at local `pname` inside an HIR node: ('index','name')"""
    out = set()
    for n in walk(node):
        if n.get("k") == "field":
            path = []
            cur = n
            while isinstance(cur, dict) and cur.get("k") == "field":
                path.append(cur["name"])
                cur = H.peel_ref(cur["base"])
                while isinstance(cur, dict) and cur.get("k") == "mcall" and cur["name"] in ("as_ref", "unwrap", "deref", "as_deref", "iter", "clone") and not cur["args"]:
                    cur = H.peel_ref(cur["recv"])
            if isinstance(cur, dict) and cur.get("k") == "local" and cur.get("name") == pname:
                out.add(tuple(reversed(path)))
    return out


def renders(linker, fname, pname, depth=0, seen=None):
    """does renderer `fname` write anything that depends on its parameter `pname` (directly or through callees)?"""
    f = linker.f
    if seen is None:
        seen = set()
    if (fname, pname) in seen or depth > 8:
        return False
    seen.add((fname, pname))
    try:
        t = T.fn_tir(f, fname)
    except KeyError:
        return False
    found = [False]
    # locals that stand for (an iterator over / a view of) the parameter: `let mut tables = from.iter();`
    names = {pname}
    for _pass in range(3):
        for n_ in walk(t.body):
            # `let x = p.iter();`, `let Some((head, tail)) = p.split_first() else {..}`, `if let Some(x) = p.first()`, `for x in p`
            if n_.get("k") in ("stmt_let", "let") and isinstance(n_.get("init"), dict) and isinstance(n_.get("pat"), dict) and \
                    any(L.mentions_param(n_["init"], nm) for nm in names):
                for b_ in walk(n_["pat"]):
                    if b_.get("k") == "bind" and b_.get("name"):
                        names.add(b_["name"])

    def node_mentions(n):
        return isinstance(n, dict) and any(L.mentions_param(n, nm) for nm in names)

    def visit_S(S, under):
        k = S[0]
        if found[0]:
            return
        if k == "seq":
            for x in S[1]:
                visit_S(x, under)
        elif k == "alt":
            for g, x in S[1]:
                u = under or any(node_mentions(n) for n in L.guard_nodes(g))
                visit_S(x, u)
        elif k in ("loop", "star", "star1"):
            info = S[2] if len(S) > 2 and isinstance(S[2], dict) else {}
            u = under or node_mentions(info.get("e"))
            visit_S(S[1], u)
        elif k == "sepby":
            visit_S(S[1], under)
            visit_S(S[2], under)
        elif k in ("lit",):
            if under:
                found[0] = True
        elif k == "hole":
            d = S[2] or {}
            if under or any(node_mentions(d.get(x)) for x in ("node", "of")) or re.search(r"\b%s\b" % re.escape(pname), d.get("what") or ""):
                found[0] = True
        elif k in ("call", "callv"):
            info = S[2]
            if under:
                found[0] = True
                return
            target = linker.resolve(S[1], info)
            for i, a in enumerate(info.get("arg_nodes") or []):
                if not node_mentions(a):
                    continue
                if target is None:
                    found[0] = True       # handed to a function we cannot see (std): assume used
                    return
                tt = T.fn_tir(f, target)
                if i < len(tt.params) and tt.params[i][0]:
                    if renders(linker, target, tt.params[i][0], depth + 1, seen):
                        found[0] = True
                        return

    def visit_E(E, under):
        k = E[0]
        if found[0]:
            return
        if k == "w":
            visit_S(E[2], under)
        elif k == "seq":
            for x in E[1]:
                visit_E(x, under)
        elif k == "alt":
            for g, x in E[1]:
                u = under or any(node_mentions(n) for n in L.guard_nodes(g))
                visit_E(x, u)
        elif k == "loop":
            info = E[2] or {}
            visit_E(E[1], under or node_mentions(info.get("e")))

    visit_E(t.effects, False)
    # parameters bound by destructuring / if-let from pname count through the shadowing names (over-approximation: if the
    # parameter is pattern-matched and any write happens under that match, it is rendered) - handled by `under` above
    return found[0]


def check_fields(run, rule, f, cfg, dialect, registry, unsupported, guards_ok):
    linker = L.Linker(f, dialect)
    n = 0
    for entry in registry:
        trait, method, adt, prefix = entry[:4]
        only = entry[4] if len(entry) > 4 else None
        if adt not in f.adts:
            if not adt.startswith("crate::extension::"):
                run.anchor(rule, "struct:" + adt, "statement struct of the registry not found in this configuration", cfg)
            continue
        target = linker.resolve(trait + "::" + method)
        if target is None:
            # sqlite's inherent override pattern etc.
            run.ob(rule, "%s:renderer:%s" % (dialect, method), False, "%s: renderer %s not found for this backend" % (dialect, method), cfg=cfg)
            continue
        t = T.fn_tir(f, target)
        # parameter carrying the statement
        root_adt = adt if not prefix else None
        pname = None
        for nm, ty in t.params:
            if nm and nm != "self" and "dyn crate::prepare::SqlWriter" not in ty and "crate::" in ty:
                pname = nm
                break
        if pname is None:
            run.ob(rule, "%s:%s:param" % (dialect, method), False, "%s: statement parameter of %s not recognised" % (dialect, method), sp=t.fn["sp"], cfg=cfg)
            continue
        short = adt.rsplit("::", 1)[-1]
        fields = [x["name"] for x in f.adts[adt]["variants"][0]["fields"]]
        uses = L.field_uses(linker, target, pname)
        # dotted paths for nested structs
        if prefix:
            dotted = collect_dotted(linker, target, pname)
        for fl in fields:
            if only is not None and fl not in only:
                continue
            n += 1
            key = "%s.%s" % (short, fl)
            if prefix:
                us = [u for u in dotted if u["path"][:len(prefix) + 1] == prefix + (fl,)]
                rendered = bool(us)
            else:
                us = [u for u in uses if u["field"] == fl]
                rendered = False
                for u in us:
                    if u["how"] in ("write", "iterate", "destructure"):
                        rendered = True
                    elif u["how"] == "guard":
                        rendered = rendered or True     # a guard on the field that controls emitted text (e.g. `if recursive {..}`)
                    elif u["how"] == "call-arg":
                        cal = u.get("callee")
                        if cal is None:
                            rendered = True
                        else:
                            tt = T.fn_tir(f, cal)
                            i = u.get("arg_index")
                            if i is not None and i < len(tt.params) and tt.params[i][0] and renders(linker, cal, tt.params[i][0]):
                                rendered = True
            ukey = "%s:%s" % (dialect, key)
            if ukey not in unsupported and ("*:" + key) in unsupported:
                ukey = "*:" + key
            if not rendered:
                run.ob(rule, "field:%s:%s" % (dialect, key), ukey in unsupported,
                       "%s: field %s is %s" % (dialect, key, ("not rendered - " + unsupported[ukey]) if ukey in unsupported else
                                               "never rendered by %s (a clause the builder was given is dropped)" % method),
                       sp=t.fn["sp"], cfg=cfg)
                continue
            run.ob(rule, "field:%s:%s" % (dialect, key), True, "%s: field %s reaches the output of %s" % (dialect, key, method), sp=t.fn["sp"], cfg=cfg, trivial=True)
            if prefix:
                continue
            # guards: only the field's own emptiness - on at least one rendering path.  A field that is only ever tested
            # (flags, Options matched for their variant) is rendered by what is written under those tests.
            direct = [u for u in us if u["how"] not in ("guard", "guarded-write")]
            rendering = direct or [u for u in us if u["how"] == "guarded-write"] or us
            if any(all(not [x for x in g["fields"] if x != fl] for g in u["guards"]) for u in rendering):
                continue
            seen = set()
            for u in rendering:
                for g in u["guards"]:
                    foreign = [x for x in g["fields"] if x != fl]
                    if not foreign:
                        continue
                    gtext = re.sub(r"\s+", " ", g["text"] or "")
                    gkey = "%s:%s:%s" % (dialect, key, gtext)
                    if gkey in seen:
                        continue
                    seen.add(gkey)
                    anykey = "*:%s:%s" % (key, gtext)
                    # reviewed either by its text or by the set of other fields it may depend on (robust to rewording)
                    fhit = []
                    for gk in guards_ok:
                        if "~" in gk:
                            head, flds_ = gk.rsplit("~", 1)
                            if head in ("%s:%s" % (dialect, key), "*:%s" % key) and set(foreign) <= set(flds_.split(",")):
                                fhit.append(gk)
                    ok = gkey in guards_ok or anykey in guards_ok or bool(fhit)
                    if fhit and not (gkey in guards_ok or anykey in guards_ok):
                        guards_ok = dict(guards_ok)
                        guards_ok[gkey] = guards_ok[fhit[0]]
                    run.ob(rule, "guard:%s" % gkey, ok,
                           "%s: %s is rendered only under the condition `%s`, which depends on another field (%s)%s" % (
                               dialect, key, gtext, ", ".join(foreign), (": " + (guards_ok.get(gkey) or guards_ok.get(anykey))) if ok else
                               " - a clause that was given can be silently dropped"), sp=u.get("sp") or t.fn["sp"], cfg=cfg)
    return n


def collect_dotted(linker, fname, pname, depth=0, seen=None):
    """dotted field paths of `pname` used anywhere in renderer fname or in callees that receive `pname` whole"""
    f = linker.f
    if seen is None:
        seen = set()
    if (fname, pname) in seen or depth > 5:
        return []
    seen.add((fname, pname))
    t = T.fn_tir(f, fname)
    out = []
    for p in dotted_fields(t.body, pname):
        out.append({"path": p, "fn": fname})
    for c in H.calls(t.body):
        info_args = ([c["recv"]] if c.get("k") == "mcall" else []) + list(c.get("args") or [])
        target = linker.resolve(c.get("callee") or "", {"resolved": c.get("resolved")})
        if target is None:
            continue
        for i, a in enumerate(info_args):
            pa = H.peel_ref(a)
            if isinstance(pa, dict) and pa.get("k") == "local" and pa.get("name") == pname:
                tt = T.fn_tir(f, target)
                if i < len(tt.params) and tt.params[i][0]:
                    out += collect_dotted(linker, target, tt.params[i][0], depth + 1, seen)
    return out


# ---- separator discipline -----------------------------------------------------------------------------------------

def _flag_of(cond):
    """if cond tests a boolean flag local: (name, polarity-of-'is true') else None.  Recognises `first`, `!first`,
    and conjunctions containing one such literal (the other conjuncts are kept as extra conditions)."""
    c = H.peel_ref(cond)
    if c.get("k") == "binary" and c["op"] == "&&":
        return _flag_of(c["l"]) or _flag_of(c["r"])
    pol = True
    while c.get("k") == "unary" and c["op"] == "not":
        pol = not pol
        c = H.peel_ref(c["e"])
    if c.get("k") == "local":
        return (c["name"], pol)
    return None


def _writes_of_path(p, sinks):
    """(separator literals written, other emission events) along a path: list of ('lit', text) / ('emit', node)"""
    out = []
    for ev in p.events:
        if ev["ev"] != "call":
            if ev["ev"] in ("loop", "closure"):
                # nested loops / closures that write count as emissions
                out.append(("emit", ev["n"]))
            continue
        n = ev["n"]
        if n.get("k") == "mcall" and n["name"] in ("unwrap", "expect"):
            continue
        if n.get("k") == "mcall" and n["name"] in T.APPEND_METHODS and H.place(n["recv"]) in sinks:
            a = n["args"][0]
            if a.get("k") == "fmt" and all("lit" in x for x in a["pieces"]):
                out.append(("lit", "".join(x["lit"] for x in a["pieces"])))
            elif a.get("k") == "lit":
                out.append(("lit", str(a["lit"]["v"])))
            else:
                out.append(("emit", n))
            continue
        # calls that are handed a sink
        args = ([n["recv"]] if n.get("k") == "mcall" else []) + list(n.get("args") or [])
        for a in args:
            pa = H.peel_ref(a)
            while isinstance(pa, dict) and pa.get("k") == "mcall" and pa["name"] in ("as_writer",):
                pa = H.peel_ref(pa["recv"])
            if isinstance(pa, dict) and pa.get("k") == "local" and pa.get("name") in sinks:
                if not (n.get("k") == "mcall" and n["name"] in ("as_writer",)):
                    out.append(("emit", n))
                break
    return out


def _tabulate_fold(f, clo, flag, elem_name, elem_adt, sinks, body=None, flag_from_env=False):
    """decision table of a fold closure over the variants of its element enum: {(flag, variant): (sep, emits, new flag)}"""
    from .interp import Interp, Opaque, Var, Unsupported, Diverged, _Continue
    table = {}
    variants = f.adts[elem_adt]["variants"]

    def unknown(it, e, env, depth):
        # a call the table does not need to understand: if it is handed a sink it emits something
        args = ([e["recv"]] if e.get("k") == "mcall" else []) + list(e.get("args") or [])
        for a in args:
            pa = H.peel_ref(a)
            while isinstance(pa, dict) and pa.get("k") == "mcall" and pa["name"] in ("as_writer",):
                pa = H.peel_ref(pa["recv"])
            if isinstance(pa, dict) and pa.get("k") == "local" and pa.get("name") in sinks:
                it.out.append((pa["name"], "<call>"))
                break
        return Opaque("call")
    for v in variants:
        for fv in (True, False):
            it = Interp(f, unknown_call=unknown)
            env = {flag: fv, elem_name: Var(v["def"], [Opaque("x")] * len(v["fields"]))}
            for snk in sinks:
                env[snk] = Opaque("sink")
            it.free_opaque = True      # free locals of the enclosing function are opaque

            def hands_sink(e):
                args = ([e["recv"]] if e.get("k") == "mcall" else []) + list(e.get("args") or [])
                for a in args:
                    pa = H.peel_ref(a)
                    while isinstance(pa, dict) and pa.get("k") == "mcall" and pa["name"] in ("as_writer",):
                        pa = H.peel_ref(pa["recv"])
                    if isinstance(pa, dict) and pa.get("k") == "local" and pa.get("name") in sinks:
                        return True
                return False
            it.opaque_call = hands_sink
            try:
                try:
                    r = it.ev(body if body is not None else clo["body"], env)
                except _Continue:
                    r = None        # `continue`: the iteration ends here
                if flag_from_env:
                    r = env.get(flag)
            except Diverged:
                table[(fv, v["name"])] = ("diverges",)
                continue
            except Unsupported as e:
                return None, str(e)
            texts = [t for s_, t in it.out if s_ in sinks]
            sep = [t for t in texts if t.strip() in (",", ";") or (t != "" and t.strip() == "" and False)]
            emits = [t for t in texts if not (t.strip() in (",", ";"))]
            table[(fv, v["name"])] = (bool(sep), bool(emits), r if isinstance(r, bool) else None)
    return table, None


def check_separators(run, rule, f, cfg, select=None):
    """For every loop that writes a separator under a `first` flag: on every path through one iteration
       (a) a separator is written only if the element writes something,
       (b) the flag becomes false exactly when something was written (or it was already false)."""
    from . import paths as P
    from .facts import nhir
    nloops = 0
    for name, t, err in T.sink_fns(f):
        if err is not None or (select is not None and not select(name)):
            continue
        sinks = set(t.sinks)
        body = t.body
        short = name.rsplit("::", 1)[-1]
        # fold closures
        for c in H.calls(body):
            if not (c.get("k") == "mcall" and c["name"] in ("fold", "try_fold") and len(c["args"]) == 2 and c["args"][1].get("k") == "closure"):
                continue
            clo = c["args"][1]
            params = clo.get("params") or []
            if not params or params[0]["pat"].get("k") != "bind" or f.ty(params[0].get("ty")) != "bool":
                continue
            flag = params[0]["pat"]["name"]
            # element enum: tabulate the closure over its variants when the element is an enum of the crate
            el = params[1] if len(params) > 1 else None
            elty = T.strip_ref(f.ty(el.get("ty"))) if el else ""
            if el and el["pat"].get("k") == "bind" and elty in f.adts and f.adts[elty]["kind"] == "enum":
                table, err2 = _tabulate_fold(f, clo, flag, el["pat"]["name"], elty, sinks)
                if table is not None and any(row[0] is True for row in table.values() if row[0] != "diverges"):
                    probs = []
                    for (fv, vn), row in sorted(table.items()):
                        if row[0] == "diverges":
                            continue
                        sep, emits, nf = row
                        if sep and not emits:
                            probs.append("%s: separator without element" % vn)
                        if emits and not sep and fv is False and False:
                            pass
                        if emits and nf is not False:
                            probs.append("%s (flag %s): writes text but leaves the flag %s" % (vn, fv, nf))
                        if not emits and fv is True and nf is False:
                            probs.append("%s: writes nothing but clears the flag (leading separator for the next element)" % vn)
                        if nf is None:
                            probs.append("%s: new flag value not a boolean" % vn)
                    probs = sorted(set(probs))
                    run.ob(rule, "separator:%s:%s" % (name, flag), not probs,
                           "%s: fold over %s tabulated on %d variants of %s x flag: %s" % (short, T.text(c["recv"])[:40], len(f.adts[elty]["variants"]), elty.rsplit("::", 1)[-1],
                                                                                      "separator written iff the variant writes a clause; the flag is cleared iff something was written" if not probs else "; ".join(probs)),
                           sp=c.get("sp"), cfg=cfg, detail=probs or None)
                    nloops += 1
                    continue
            paths_ = P.enum(clo["body"])
            _check_loop_paths(run, rule, f, cfg, name, short, "fold over %s" % T.text(c["recv"])[:50], flag, paths_, sinks, c.get("sp"),
                              new_flag=lambda p: _ret_flag(p, flag))
            nloops += 1
        # for loops with a `let mut first = true` flag
        flags = {}
        for n in walk(body):
            if n.get("k") == "stmt_let" and n["pat"].get("k") == "bind" and n.get("init") is not None:
                init = H.peel_ref(n["init"])
                if f.ty(n.get("pty")) == "bool":
                    flags[n["pat"]["name"]] = init      # mutable or not: an immutable flag that guards a separator can never be cleared
        if flags:
            def all_loops(paths_, acc, depth=0):
                for q in paths_:
                    for ev in q.events:
                        if ev["ev"] == "loop":
                            acc.append(ev)
                        if ev["ev"] in ("loop", "closure") and depth < 6:
                            all_loops(ev["paths"], acc, depth + 1)
                return acc
            seen_nodes = set()
            for lp in all_loops(P.fn_paths(body), []):
                if id(lp["n"]) in seen_nodes:
                    continue
                seen_nodes.add(id(lp["n"]))
                used = set()
                for x in walk(lp["n"]):
                    if x.get("k") == "if":
                        fl = _flag_of(x["cond"])
                        if fl and fl[0] in flags:
                            used.add(fl[0])
                for flag in used:
                    # a flag declared inside the loop body is per-iteration state, not a list flag
                    if any(x.get("k") == "stmt_let" and x["pat"].get("k") == "bind" and x["pat"].get("name") == flag for x in walk(lp["n"])):
                        continue
                    # element enum of a `for x in ..` loop: from the variants matched on x in the body
                    el = _for_element(f, lp["n"])
                    if el is not None:
                        ename, eadt, ebody = el
                        table, err2 = _tabulate_fold(f, None, flag, ename, eadt, sinks, body=ebody, flag_from_env=True)
                        if table is not None and any(row[0] is True for row in table.values() if row[0] != "diverges"):
                            probs = []
                            for (fv, vn), row in sorted(table.items()):
                                if row[0] == "diverges":
                                    continue
                                sep, emits, nf = row
                                if sep and not emits:
                                    probs.append("%s: separator without element" % vn)
                                if emits and nf is not False:
                                    probs.append("%s (flag %s): writes text but leaves the flag %s" % (vn, fv, nf))
                                if not emits and fv is True and nf is False:
                                    probs.append("%s: writes nothing but clears the flag (leading separator for the next element)" % vn)
                            probs = sorted(set(probs))
                            run.ob(rule, "separator:%s:%s" % (name, flag), not probs,
                                   "%s: for loop tabulated on %d variants of %s x flag `%s`: %s" % (short, len(f.adts[eadt]["variants"]), eadt.rsplit("::", 1)[-1], flag,
                                                                                                 "separator written iff the variant writes a clause; the flag is cleared iff something was written" if not probs else "; ".join(probs)),
                                   sp=lp["n"].get("sp"), cfg=cfg, detail=probs or None)
                            nloops += 1
                            continue
                    _check_loop_paths(run, rule, f, cfg, name, short, "for loop", flag, lp["paths"], sinks, lp["n"].get("sp"),
                                      new_flag=lambda p, flag=flag: _assigned_flag(p, flag))
                    nloops += 1
        # head / tail lists: `if let Some((head, tail)) = xs.split_first() { ELEM(head); for x in tail { SEP; ELEM(x) } }`
        for sink in [s_ for s_, k_ in t.sinks.items() if k_ == "writer"]:
            for node in _tir_nodes(T.project(t.effects, sink)):
                if node[0] == "alt":
                    sf = _split_first_list(node)
                    if sf is not None:
                        run.ob(rule, "separator:%s:split_first:%s" % (name, sf[2]["over"]), True,
                               "%s: head/tail list over %s: the separator is written before every element but the first, and the first is "
                               "written the same way as the others" % (short, sf[2]["over"]), sp=sf[2].get("sp"), cfg=cfg)
                        nloops += 1
    return nloops


def _tir_nodes(S):
    if not isinstance(S, tuple) or not S:
        return
    yield S
    k = S[0]
    if k == "seq":
        for x in S[1]:
            yield from _tir_nodes(x)
    elif k == "alt":
        for g, x in S[1]:
            yield from _tir_nodes(x)
    elif k in ("loop", "star", "star1"):
        yield from _tir_nodes(S[1])
    elif k == "sepby":
        yield from _tir_nodes(S[1])
        yield from _tir_nodes(S[2])
    elif k == "sepchain":
        for b, sp in S[1]:
            yield from _tir_nodes(b)
            yield from _tir_nodes(sp)


def _for_element(f, loop_node):
    """(element binding name, enum adt, body of one iteration) of a desugared `for x in ..` loop whose body matches x on
    the variants of a crate enum"""
    for m in walk(loop_node):
        if m.get("k") == "match" and "ForLoop" in m.get("src", ""):
            for arm in m["arms"]:
                p = arm["pat"]
                if p.get("k") == "variant" and "Some" in (p.get("path") or {}).get("def", ""):
                    subs = p.get("subs") or [x["pat"] for x in (p.get("fields") or [])]
                    if len(subs) == 1 and subs[0].get("k") == "bind":
                        name = subs[0]["name"]
                        for mm in walk(arm["body"]):
                            if mm.get("k") == "match" and mm.get("src") == "Normal" and H.place(mm["scrut"]) == name:
                                for a in mm["arms"]:
                                    vs = T.pat_variants(a["pat"])
                                    if vs:
                                        enum = vs[0].rsplit("::", 1)[0]
                                        if enum in f.adts and f.adts[enum]["kind"] == "enum":
                                            return name, enum, arm["body"]
            return None
    return None


_seen_loops = set()


def _ret_flag(p, flag):
    """new value of the fold accumulator on this path: False / True / 'same' / None(unknown)"""
    v = H.peel_ref(p.value) if p.value is not None else None
    if p.out not in ("fall", "ret") or v is None:
        return None
    if v.get("k") == "lit" and v["lit"]["t"] == "bool":
        return v["lit"]["v"]
    if v.get("k") == "local" and v.get("name") == flag:
        return "same"
    return None


def _assigned_flag(p, flag):
    val = "same"
    for ev in p.events:
        if ev["ev"] == "assign" and H.place(ev["n"]["l"]) == flag:
            r = H.peel_ref(ev["n"]["r"])
            if r.get("k") == "lit" and r["lit"]["t"] == "bool":
                val = r["lit"]["v"]
            else:
                val = None
    return val


def _check_loop_paths(run, rule, f, cfg, fname, short, what, flag, paths_, sinks, sp, new_flag):
    seps = set()
    rows = []
    for p in paths_:
        if p.out == "diverge":
            continue
        # value of the flag assumed on this path (from the branch conditions that test it)
        assumed = None
        for c in p.conds:
            if c[0] == "if":
                fl = _flag_of(c[1])
                if fl and fl[0] == flag:
                    # cond (possibly a conjunction) taken/not taken: only a taken conjunction fixes the flag
                    cc = H.peel_ref(c[1])
                    if cc.get("k") == "binary" and cc["op"] == "&&":
                        if c[2]:
                            assumed = fl[1]
                    else:
                        assumed = fl[1] if c[2] else (not fl[1])
        ws = _writes_of_path(p, sinks)
        # the separator: a literal written in the branch guarded by the flag - identify as literals consisting of punctuation/space only
        sep = [w for w in ws if w[0] == "lit" and w[1].strip() in (",", ";", "") and w[1] != ""]
        emits = [w for w in ws if not (w[0] == "lit" and w[1].strip() in (",", ";", ""))]
        nf = new_flag(p)
        rows.append((assumed, bool(sep), bool(emits), nf, p))
        for w in sep:
            seps.add(w[1])
    if not any(r[1] for r in rows):
        return          # no separator is written under this flag: not a separated list
    probs = []
    for assumed, has_sep, emits, nf, p in rows:
        if has_sep and not emits:
            probs.append("a path writes the separator but no element (dangling separator)")
        if emits and nf not in (False,) and not (nf == "same" and assumed is False):
            probs.append("a path writes an element but leaves the `%s` flag %s (the next element gets no separator)" % (flag, "unchanged" if nf == "same" else nf))
        if not emits and nf is False and assumed is not False:
            probs.append("a path writes nothing but clears the `%s` flag (the next element gets a leading separator)" % flag)
    probs = sorted(set(probs))
    run.ob(rule, "separator:%s:%s" % (fname, flag), not probs,
           "%s: %s with separator %s under flag `%s`: %s" % (short, what, "/".join(repr(s) for s in sorted(seps)), flag,
                                                          "separator written iff an element is written, flag cleared iff something was written" if not probs else "; ".join(probs)),
           sp=sp, cfg=cfg, detail=probs or None)


# ---- parenthesis balance --------------------------------------------------------------------------------------------

def check_parens(run, rule, f, cfg, select=None):
    """Every function with a sink is balanced on every consistent path: guards with the same text are decided once per path
    (`if left_paren {"("} .. if left_paren {")"}`), the depth never goes negative and ends at zero."""
    n = 0
    for name, t, err in T.sink_fns(f):
        if err is not None or (select is not None and not select(name)):
            continue
        for sink in t.sinks:
            s = T.project(t.effects, sink)
            if not any(a[0] == "lit" and ("(" in a[1] or ")" in a[1]) for a in T.atoms(s)):
                continue
            n += 1
            res = _paren_flow(s)
            short = name.rsplit("::", 1)[-1]
            run.ob(rule, "parens:%s:%s" % (name, sink), res is None,
                   "%s: parentheses written to `%s` are balanced on every path%s" % (short, sink, "" if res is None else " - NOT: " + res), sp=t.fn["sp"], cfg=cfg)
    return n


def _lit_parens(text, q=False):
    """(min prefix depth, net depth, quote state at end) of a literal, ignoring parentheses inside single-quoted text"""
    d = 0
    mn = 0
    for ch in text:
        if ch == "'":
            q = not q
        elif not q and ch == "(":
            d += 1
        elif not q and ch == ")":
            d -= 1
            mn = min(mn, d)
    return mn, d, q


def _paren_flow(S):
    # states: (depth, in-quote, frozenset of (guard text, taken))
    relevant = set()

    def has_paren(x):
        return any(a[0] == "lit" and ("(" in a[1] or ")" in a[1] or "'" in a[1]) for a in T.atoms(x))

    def collect(x):
        k = x[0]
        if k == "seq":
            for y in x[1]:
                collect(y)
        elif k == "alt":
            for g, y in x[1]:
                if has_paren(y) and "e" in g:
                    relevant.add(g["text"])
                collect(y)
        elif k in ("loop", "star", "star1"):
            collect(x[1])
        elif k == "sepby":
            collect(x[1])
            collect(x[2])
    collect(S)
    bad = []

    def run_(x, states):
        k = x[0]
        if k == "seq":
            for y in x[1]:
                states = run_(y, states)
            return states
        if k == "alt":
            out = set()
            for g, y in x[1]:
                sub = set()
                for d, q, asg in states:
                    if "e" in g and g["text"] in relevant:
                        a = dict(asg)
                        if g["text"] in a and a[g["text"]] != g["taken"]:
                            continue
                        a[g["text"]] = g["taken"]
                        sub.add((d, q, frozenset(a.items())))
                    else:
                        sub.add((d, q, asg))
                out |= run_(y, sub)
            return out
        if k in ("loop", "star", "star1", "sepby"):
            # a loop body / list element / separator must keep depth and quote state
            parts = [x[1]] if k != "sepby" else [x[1], x[2]]
            for d0, q0, _ in (states or {(0, False, frozenset())}):
                for part in parts:
                    inner = run_(part, {(0, q0, frozenset())})
                    for d, q, _ in inner:
                        if d != 0:
                            bad.append("a loop iteration changes the nesting depth by %d" % d)
                break
            return states
        if k == "lit":
            out = set()
            for d, q, asg in states:
                mn, net, q2 = _lit_parens(x[1], q)
                if d + mn < 0:
                    bad.append("a closing parenthesis without an open one (%r)" % x[1])
                out.add((d + net, q2, asg))
            return out
        if k in ("ctl", "diverge"):
            return set()
        return states
    end = run_(S, {(0, False, frozenset())})
    for d, q, asg in end:
        if d != 0:
            bad.append("a path ends at nesting depth %d (%s)" % (d, ", ".join("%s=%s" % kv for kv in sorted(asg))))
    return "; ".join(sorted(set(bad))[:3]) if bad else None


# ---- constant index into a clause vector -------------------------------------------------------------------------------

def check_partial_consumption(run, rule, f, cfg, reviewed, select=None):
    """`xs[0]` on a clause vector renders one element of a list the builder may have filled with several"""
    n = 0
    for name, t, err in T.sink_fns(f):
        if err is not None or not any(k == "writer" for k in t.sinks.values()) or (select is not None and not select(name)):
            continue
        pnames = [p for p, _ in t.params]
        idiom = head_tail_calls(t.body)
        for x in walk(t.body):
            # the same element access written as a method: `xs.first()`, `xs.get(0)`, `xs.iter().next()` - canonicalised to `xs[k]`
            if x.get("k") == "mcall" and id(x) not in idiom and x.get("name") in ("first", "get", "next"):
                recv = H.peel_ref(x["recv"])
                k_ = None
                if x["name"] == "first" and not x.get("args"):
                    k_ = 0
                elif x["name"] == "get" and len(x.get("args") or []) == 1 and H.peel_ref(x["args"][0]).get("k") == "lit":
                    k_ = H.peel_ref(x["args"][0])["lit"]["v"]
                elif x["name"] == "next" and not x.get("args") and recv.get("k") == "mcall" and recv.get("name") in ("iter", "into_iter") and not recv.get("args"):
                    k_ = 0
                    recv = H.peel_ref(recv["recv"])
                bt = (f.ty(x.get("recv_ty")) or "") if x["name"] != "next" else "[]"
                if k_ is not None and isinstance(k_, int) and ("Vec<" in bt or bt.lstrip("&").startswith("[")):
                    x = {"k": "index", "idx": {"k": "lit", "lit": {"t": "int", "v": k_}}, "base": recv, "base_ty": None, "sp": x.get("sp"), "_canon": "%s[%d]" % (T.text(recv), k_)}
            if x.get("k") == "index":
                idx = H.peel_ref(x["idx"])
                base = H.peel_ref(x["base"])
                bt = (f.ty(x.get("base_ty")) or "") if not x.get("_canon") else "[]"
                if idx.get("k") == "lit" and idx["lit"]["t"] == "int" and ("Vec<" in bt or bt.lstrip("&").startswith("[")):
                    root = base
                    while isinstance(root, dict) and root.get("k") == "field":
                        root = H.peel_ref(root["base"])
                    if isinstance(root, dict) and root.get("k") == "local" and root.get("name") in pnames:
                        n += 1
                        xtext = x.get("_canon") or T.text(x)
                        key = "%s:%s" % (name, xtext)
                        if _diverges_on_longer(t.body, T.text(base)):
                            run.ob(rule, "partial:%s" % key, True, "%s renders `%s` and refuses (panics) when the list has more elements" % (name.rsplit("::", 1)[-1], xtext),
                                   sp=x.get("sp"), cfg=cfg)
                            continue
                        run.ob(rule, "partial:%s" % key, key in reviewed,
                               "%s renders only `%s` of a list%s" % (name.rsplit("::", 1)[-1], xtext, (": " + reviewed[key]) if key in reviewed else
                                                                   " - further elements the builder was given are dropped"), sp=x.get("sp"), cfg=cfg)
    return n


def _diverges_on_longer(body, base_text):
    """is there an `if <base>.len() > 1 { panic!(..) }` (or >= 2 / != 1) in the function"""
    for n in walk(body):
        if n.get("k") != "if":
            continue
        c = H.peel_ref(n["cond"])
        if c.get("k") == "binary" and c["op"] in (">", ">=", "!="):
            l, r = H.peel_ref(c["l"]), H.peel_ref(c["r"])
            if l.get("k") == "mcall" and l["name"] == "len" and T.text(l["recv"]) == base_text and r.get("k") == "lit":
                v = r["lit"]["v"]
                if (c["op"] == ">" and v == 1) or (c["op"] == ">=" and v == 2) or (c["op"] == "!=" and v == 1):
                    th = n["then"]
                    if any(H.diverges(x) for x in walk(th) if x.get("k") == "call"):
                        return True
    return False


# ---- separated lists ---------------------------------------------------------------------------------------------

SEP_GUARD = re.compile(r"^!\w*first\w*$|^\w+ (!=|>) 0$|^!\w*first\w* &&|^!is_first$")


SEP_GUARD_STRICT = re.compile(r"^!\w*first\w*$|^\w+ (!=|>) 0$|^!is_first$")


def _split_first_list(S):
    """`if let Some((head, tail)) = xs.split_first() { ELEM(head); for x in tail { SEP; ELEM(x) } }`  ->  (ELEM, SEP, info)"""
    if len(S[1]) != 2:
        return None
    arms = {g.get("taken"): (g, b) for g, b in S[1] if isinstance(g, dict)}
    if True not in arms or False not in arms:
        return None
    g, b = arms[True]
    if [x for x in T.flat(arms[False][1]) if x != ("seq", [])]:
        return None
    e = g.get("e")
    if not (isinstance(e, dict) and e.get("k") == "let"):
        return None
    init = H.peel_ref(e.get("init") or {})
    pat = e.get("pat") or {}
    if not (init.get("k") == "mcall" and init.get("name") == "split_first" and pat.get("k") == "variant" and len(pat.get("subs") or []) == 1):
        return None
    tp = pat["subs"][0]
    if not (tp.get("k") == "tuple" and len(tp["subs"]) == 2 and all(x.get("k") == "bind" for x in tp["subs"])):
        return None
    head, tail = tp["subs"][0]["name"], tp["subs"][1]["name"]
    items = [x for x in T.flat(b) if x != ("seq", [])]
    if len(items) < 2 or items[-1][0] not in ("loop", "star", "star1") or len(items[-1]) < 3 or not isinstance(items[-1][2], dict):
        return None
    info = items[-1][2]
    if (info.get("over") or "").strip() not in (tail, tail + ".iter()"):
        return None
    binds = [n["name"] for n in walk(info.get("pat") or {}) if n.get("k") == "bind"]
    if not binds and info.get("kind") == "for_each":
        binds = [n["name"] for p_ in info.get("params") or [] for n in walk(p_.get("pat") or {}) if n.get("k") == "bind"]
    if len(binds) != 1:
        return None
    litems = [x for x in T.flat(items[-1][1]) if x != ("seq", [])]
    nsep = 0
    while nsep < len(litems) and litems[nsep][0] == "lit":
        nsep += 1
    if nsep == 0 or nsep == len(litems):
        return None
    first = re.sub(r"\b%s\b" % re.escape(head), "@", T.show(("seq", items[:-1])))
    rest = re.sub(r"\b%s\b" % re.escape(binds[0]), "@", T.show(("seq", litems[nsep:])))
    if first != rest:
        # both written through one local closure (`write(head, sql); rest.iter().for_each(|x| { SEP; write(x, sql) })`): the
        # element then carries the closure's parameter name on both sides
        both = lambda txt: re.sub(r"\b(%s|%s)\b" % (re.escape(head), re.escape(binds[0])), "@", txt)
        if both(T.show(("seq", items[:-1]))) != both(T.show(("seq", litems[nsep:]))):
            return None
    recv = init.get("recv")
    return ("seq", litems[nsep:]), ("seq", litems[:nsep]), {"kind": "split_first", "over": T.text(recv) if isinstance(recv, dict) else "", "e": recv, "sp": e.get("sp")}


def sepify(S, strict=False):
    """rewrite loops of the form  { (SEP | ) BODY }*  whose first element is a separator written under a first-flag /
    index guard into  sepby(BODY, SEP)"""
    k = S[0]
    if k == "seq":
        return ("seq", [sepify(x, strict) for x in S[1]])
    if k == "alt":
        sf = _split_first_list(S)
        if sf is not None:
            return ("sepby", sepify(sf[0], strict), sf[1], sf[2])
        return ("alt", [(g, sepify(x, strict)) for g, x in S[1]])
    if k in ("loop", "star", "star1"):
        body = S[1]
        items = T.flat(body)
        items = [x for x in items if x != ("seq", [])]
        if items and items[0][0] == "alt" and len(items[0][1]) == 2:
            (g1, b1), (g2, b2) = items[0][1]
            empty1 = b1 == ("seq", []) or (b1[0] == "seq" and not b1[1])
            empty2 = b2 == ("seq", []) or (b2[0] == "seq" and not b2[1])
            sepb, g = (b1, g1) if empty2 and not empty1 else ((b2, g2) if empty1 and not empty2 else (None, None))
            if sepb is not None and all(a[0] == "lit" for a in T.atoms(sepb)) and (SEP_GUARD_STRICT if strict else SEP_GUARD).search((g.get("text") or "").strip()):
                return ("sepby", sepify(("seq", items[1:]), strict), sepb, S[2] if len(S) > 2 and isinstance(S[2], dict) else None)
        return (k, sepify(body, strict)) + tuple(S[2:])
    if k == "sepby":
        return ("sepby", sepify(S[1], strict), sepify(S[2], strict)) + tuple(S[3:])
    if k == "sepchain":
        return ("sepchain", [(sepify(b, strict), sp) for b, sp in S[1]])
    return S


# ---- lexical adjacency ---------------------------------------------------------------------------------------------

WORDISH = {"w", "v", "r"}


def _cls(ch):
    if ch.isalnum() or ch == "_":
        return "w"
    if ch.isspace():
        return "s"
    return "p"


HOLE_ENDS = {
    # hole kind -> (first class, last class)
    "IDEN_QUOTED": ("p", "p"), "QUOTE_L": ("p", "p"), "QUOTE_R": ("p", "p"), "IDEN_QUOTED_BODY": ("r", "r"),
    "VALUE_PARAM": ("v", "v"), "VALUE_INLINE": ("v", "v"), "NUM": ("w", "w"), "FLOAT": ("w", "w"), "HEX2": ("w", "w"), "BOOL": ("w", "w"),
    "FMT_SAFE": ("w", "w"), "ESCAPED_STR": ("r", "r"), "CHAR": ("r", "r"),
    "STR": ("r", "r"), "IDEN_RAW": ("r", "r"), "IDEN_DISPLAY": ("r", "r"), "DISPLAY": ("r", "r"), "UNKNOWN": ("r", "r"), "FORMATTED": ("r", "r"),
}


class Adjacency:
    def __init__(self, f, dialect):
        self.f = f
        self.linker = L.Linker(f, dialect)
        self.summ = {}        # (fn, sink) -> (FIRST set, LAST set incl. 'START' if nullable)
        self.findings = []

    def summary(self, fname, sink):
        key = (fname, sink)
        return self.summ.get(key, (set(), {"START"}))

    def flow_fn(self, fname, sink, record):
        t, S = self.linker.body(fname, sink)
        firsts = set()

        def atom_ends(a):
            """list of (first classes, last classes, nullable) alternatives for an atom"""
            k = a[0]
            if k == "lit":
                if not a[1]:
                    return (set(), set(), True)
                return ({_cls(a[1][0])}, {_cls(a[1][-1])}, False)
            if k == "hole":
                fi, la = HOLE_ENDS.get(a[1], ("r", "r"))
                return ({fi}, {la}, a[1] in ("STR", "IDEN_RAW", "DISPLAY", "UNKNOWN", "ESCAPED_STR", "IDEN_QUOTED_BODY"))
            if k == "callv":
                cal = a[1]
                if cal.endswith("value_to_string") or cal.endswith("value_to_string_common"):
                    return ({"v"}, {"v"}, False)
                # functions returning a fixed word (if_null_function etc.): literal bodies
                target = self.linker.resolve(cal, a[2])
                if target:
                    fn = self.f.fns.get(target)
                    from . import paths as P
                    vals = set()
                    try:
                        for p in P.fn_paths(fn["hir"]):
                            v = H.peel_ref(p.value) if p.value is not None else None
                            if isinstance(v, dict) and v.get("k") == "lit" and v["lit"]["t"] == "str":
                                vals.add(v["lit"]["v"])
                            else:
                                vals = None
                                break
                    except Exception:
                        vals = None
                    if vals:
                        return ({_cls(s[0]) for s in vals if s}, {_cls(s[-1]) for s in vals if s}, any(not s for s in vals))
                return ({"r"}, {"r"}, True)
            if k == "call":
                target = self.linker.resolve(a[1], a[2])
                if target is None:
                    return ({"r"}, {"r"}, True)
                cs = self.linker.callee_sink(target, a[2])
                if cs is None:
                    return (set(), set(), True)
                fi, la = self.summary(target, cs)
                return (set(fi), set(x for x in la if x != "START"), "START" in la)
            if k == "buf":
                return ({"r"}, {"r"}, True)
            return (set(), set(), True)

        def step(a, states):
            """states: frozenset of (last class | 'START', inside-single-quotes) pairs; returns the new set"""
            fi, la, nullable = atom_ends(a)
            classes = set(c for c, q in states)
            if "START" in classes:
                firsts.update(fi)
            outside = [c for c, q in states if not q]
            if record and states and fi and not nullable and all(not q for c, q in states) and set(outside) <= {"w", "v"} and fi <= {"w", "v"}:
                self.findings.append((fname, sink, sorted(outside)[0], sorted(fi)[0], a))
            out = set()
            for c, q in states:
                q2 = q
                if a[0] == "lit":
                    for ch in a[1]:
                        if ch == "'":
                            q2 = not q2
                for l in la:
                    out.add((l, q2))
                if nullable or not la:
                    out.add((c, q2))
            return frozenset(out)

        def ev(x, states):
            k = x[0]
            if k == "seq":
                for y in x[1]:
                    states = ev(y, states)
                return states
            if k == "alt":
                out = set()
                for g, y in x[1]:
                    out |= ev(y, states)
                return frozenset(out)
            if k in ("loop", "star", "star1"):
                cur = states
                for _ in range(6):
                    nxt = frozenset(ev(x[1], cur) | cur)
                    if nxt == cur:
                        break
                    cur = nxt
                return cur
            if k == "sepby":
                # body (sep body)*  - zero iterations possible
                a1 = ev(x[1], states)
                cur = a1
                for _ in range(6):
                    b = ev(x[2], cur)
                    nxt = frozenset(ev(x[1], b) | cur)
                    if nxt == cur:
                        break
                    cur = nxt
                return frozenset(cur | states)
            if k in ("ctl", "diverge"):
                return frozenset()
            if k == "reset":
                return frozenset([("START", False)])
            return step(x, states)
        end = ev(sepify(S), frozenset([("START", False)]))
        return firsts, set(c for c, q in end)

    def solve(self, fns):
        for _ in range(12):
            changed = False
            for fname, sinks in fns:
                for sink in sinks:
                    new = self.flow_fn(fname, sink, False)
                    old = self.summ.get((fname, sink))
                    if old is None or new[0] - old[0] or new[1] - old[1]:
                        merged = (new[0] | (old[0] if old else set()), new[1] | (old[1] if old else set()))
                        self.summ[(fname, sink)] = merged
                        changed = True
            if not changed:
                break
        for fname, sinks in fns:
            for sink in sinks:
                self.flow_fn(fname, sink, True)


def check_adjacency(run, rule, f, cfg, dialect, select=None):
    fns = []
    for name, t, err in T.sink_fns(f):
        if err is not None:
            continue
        ws = [s for s in t.sinks]
        if ws:
            fns.append((name, ws))
    adj = Adjacency(f, dialect)
    adj.solve(fns)
    seen = set()
    n = 0
    for fname, sink, st, c, a in adj.findings:
        if select is not None and not select(fname):
            continue
        key = "%s:%s:%s" % (fname, {"w": "word", "v": "value", "r": "raw"}[st], T.show(a)[:60])
        if key in seen:
            continue
        seen.add(key)
        n += 1
        # raw-after-raw and raw next to something: only report certain fusions (a word/value directly followed by a word/value)
        certain = st in ("w", "v") and c in ("w", "v")
        if not certain:
            continue
        run.ob(rule, "adjacent:%s:%s" % (dialect, key), False,
               "%s (%s): %s is written directly after a %s without separating whitespace or punctuation: the two fuse into one token" % (
                   fname.rsplit("::", 1)[-1], dialect, T.show(a)[:60], {"w": "word", "v": "value / placeholder"}[st]), sp=a[3] if len(a) > 3 else None, cfg=cfg)
    run.ob(rule, "adjacency:%s" % dialect, True, "%s: %d writer functions analysed for token fusion between adjacent emissions" % (dialect, len(fns)), cfg=cfg)
    return len(fns)


# ---- which property a renderer function belongs to ------------------------------------------------------------------------

def fn_backend(name):
    if "::backend::mysql::" in name or "::extension::mysql::" in name:
        return "mysql"
    if "::backend::postgres::" in name or "::extension::postgres::" in name:
        return "postgres"
    if "::backend::sqlite::" in name or "::extension::sqlite::" in name:
        return "sqlite"
    return "common"


def fn_kind(name):
    schema_marks = ("table_builder", "index_builder", "foreign_key_builder", "::table::", "::index::", "::foreign_key::", "::types::<impl", "postgres::types",
                    "postgres::extension", "::table>", "TableBuilder", "IndexBuilder", "ForeignKeyBuilder", "TypeBuilder", "ExtensionBuilder")
    if any(m in name for m in schema_marks):
        return "schema"
    return "query"


def selector(kind, backends):
    def sel(name):
        if not name.startswith("crate::backend::") and "::extension::" not in name:
            return False
        return fn_kind(name) == kind and fn_backend(name) in backends
    return sel


# ---- order preservation ---------------------------------------------------------------------------------------------------

REORDER = {"rev", "sort", "sort_by", "sort_by_key", "sort_unstable", "sort_unstable_by", "sort_unstable_by_key", "dedup", "dedup_by", "dedup_by_key", "swap",
           "retain", "reverse", "swap_remove", "rotate_left", "rotate_right", "skip", "step_by", "take", "truncate", "pop", "split_off", "drain", "last", "nth"}


def head_tail_calls(body):
    """ids of the `.first()` / `.skip(1)` calls that together form the head / tail idiom over one list:
    `if let Some(h) = xs.first() { E(h); for x in xs.iter().skip(1) { SEP; E(x) } }` renders every element once, in order"""
    firsts, skips = {}, {}
    for c in H.calls(body):
        if c.get("k") != "mcall":
            continue
        if c["name"] == "first" and not c.get("args"):
            firsts.setdefault(T.text(c["recv"]), []).append(c)
        if c["name"] == "skip" and len(c.get("args") or []) == 1:
            a = H.peel_ref(c["args"][0])
            r = H.peel_ref(c["recv"])
            if a.get("k") == "lit" and a["lit"]["v"] == 1 and r.get("k") == "mcall" and r["name"] in ("iter", "into_iter") and not r.get("args"):
                skips.setdefault(T.text(r["recv"]), []).append(c)
    ok = set()
    for base in set(firsts) & set(skips):
        if len(firsts[base]) == 1 and len(skips[base]) == 1:
            ok.add(id(firsts[base][0]))
            ok.add(id(skips[base][0]))
    return ok


def check_order(run, rule, f, cfg, select):
    """renderers iterate clause vectors forward and completely: no reordering / truncating adaptor"""
    n = 0
    for name, t, err in T.sink_fns(f):
        if err is not None or not select(name):
            continue
        idiom = head_tail_calls(t.body)
        for c in H.calls(t.body):
            if c.get("k") == "mcall":
                n += 1
                if id(c) in idiom:
                    continue
                if c["name"] in REORDER and "Tokenizer" not in (c.get("callee") or "") and "Peekable" not in (c.get("callee") or "") and \
                        not ((c.get("callee") or "").startswith("core::option::Option") or (c.get("callee") or "").startswith("core::str::")):
                    run.ob(rule, "reorder:%s:%s" % (name, c["name"]), False,
                           "%s calls .%s(): elements of a clause list would be rendered out of order or dropped" % (name.rsplit("::", 1)[-1], c["name"]), sp=c.get("sp"), cfg=cfg)
    run.ob(rule, "order-census", True, "%d method calls in the selected renderers: no reordering/truncating adaptor on a clause list" % n, cfg=cfg)
    return n


# ---- hook discipline ------------------------------------------------------------------------------------------------------

def check_hooks(run, rule, f, cfg, select=None):
    """an inner renderer listed in specs/hooks.json is called only from implementations of its hook (or of itself): any
    other caller renders the construct without the backend overrides of the hook"""
    table = json.load(open(os.path.join(VERIF, "specs", "hooks.json")))["entries"]
    inner = {e["inner"]: e for e in table}
    n = 0
    seen = set()
    overridden = {}
    for imp in f.impls:
        if imp.get("trait") and imp.get("self_adt") in L.BACKENDS.values():
            for it in imp["items"]:
                overridden.setdefault(it, set()).add(imp["self_adt"].rsplit("::", 1)[-1])
    for name, fn in f.fns.items():
        if fn.get("hir") is None:
            continue
        short = name.rsplit("::", 1)[-1]
        for c in H.calls(fn["hir"]):
            if c.get("k") != "mcall" or c["name"] not in inner:
                continue
            e = inner[c["name"]]
            seen.add(c["name"])
            if select is not None and not select(name) and short not in (e["hook"], e["inner"]):
                continue
            n += 1
            ok = short in (e["hook"], e["inner"])
            run.ob(rule, "hook:%s<-%s" % (c["name"], name), ok,
                   "%s calls %s %s" % (short, c["name"], "as an implementation of the hook %s" % e["hook"] if ok else
                                       "directly, bypassing the hook %s that %s override (%s)" % (e["hook"], ", ".join(sorted(overridden.get(e["hook"], []))) or "backends", e["reason"])),
                   sp=c.get("sp"), cfg=cfg)
    # the trait default of a `*_common` hook is inherited by some backends and overridden by others: whatever it does beyond
    # forwarding to the inner renderer is behaviour of the inheriting backends only (the overriding ones never reach it)
    from . import paths as P
    present = [b for b in L.BACKENDS.values() if b in f.adts]
    for k, e in inner.items():
        if not k.endswith("_common"):
            continue
        over = overridden.get(e["hook"], set())
        if not over or len(over) >= len(present):
            continue            # nobody overrides it / nobody inherits it
        dname = [n_ for n_, fn_ in f.fns.items() if n_.endswith("::" + e["hook"]) and (fn_.get("owner") or {}).get("trait") and fn_.get("hir") is not None]
        if len(dname) != 1:
            continue
        fn_ = f.fns[dname[0]]
        ps = [p_ for p_ in P.fn_paths(fn_["hir"]) if p_.out != "diverge"]
        pn = [p_["pat"].get("name") for p_ in fn_["params"]]
        ok = len(ps) == 1 and not ps[0].conds and len(ps[0].calls()) == 1
        if ok:
            c = ps[0].calls()[0]
            ok = c.get("k") == "mcall" and c["name"] == k and [H.place(c["recv"])] + [H.place(a) for a in c["args"]] == pn
        run.ob(rule, "hook-default:%s" % e["hook"], ok,
               "the trait default of %s (inherited by the backends that do not override it; overridden by %s) is a bare forward to %s: the backends "
               "share one rendering of the construct%s" % (e["hook"], ", ".join(sorted(over)), k, "" if ok else
                                                          " - NOT: it does something of its own, which the overriding backends never reach"),
               sp=fn_["sp"], cfg=cfg)
        n += 1
    for k, e in inner.items():
        if k not in seen:
            run.anchor(rule, "hook:" + k, "inner renderer %s of specs/hooks.json is not called anywhere" % k, cfg)
        elif not overridden.get(e["hook"]):
            run.notes.append("hook %s is not overridden by any backend in config %s" % (e["hook"], cfg))
    return n


# ---- element sites --------------------------------------------------------------------------------------------------------

_ADT_RE = re.compile(r"crate::[A-Za-z_0-9:]+")


def statement_structs(f):
    """named-field structs reachable from the statement structs of the registries through field types"""
    seen = set()
    todo = [e[2] for e in QUERY_STRUCTS + SCHEMA_STRUCTS]
    while todo:
        a = todo.pop()
        if a in seen or a not in f.adts:
            continue
        seen.add(a)
        for v in f.adts[a]["variants"]:
            for fl in v["fields"]:
                ty = fl.get("ty") if isinstance(fl.get("ty"), str) else f.ty(fl.get("ty"))
                for m in _ADT_RE.findall(ty or ""):
                    if m in f.adts and m not in seen:
                        todo.append(m)
    return {a for a in seen if f.adts[a].get("kind") == "struct" and f.adts[a]["variants"][0]["fields"]
            and not f.adts[a]["variants"][0]["fields"][0]["name"].isdigit()}


def check_element_sites(run, rule, f, cfg, select=None):
    """every place where a renderer takes an element of a statement apart (a non-parameter local whose type is a
    statement struct) hands it whole to another renderer or reads every field of it"""
    reviewed = load_table("element_sites.json")
    structs = statement_structs(f)
    n = 0
    for name, fn in f.fns.items():
        if fn.get("hir") is None or not (name.startswith("crate::backend::") or "::extension::" in name):
            continue
        if select is not None and not select(name):
            continue
        params = {p["pat"].get("id") for p in fn["params"] if p["pat"].get("k") == "bind"}
        if not any("SqlWriter" in (f.ty(p.get("ty")) or "") for p in fn["params"]):
            continue        # not a renderer: a predicate / helper that inspects a statement writes nothing
        locs = {}
        for nd in walk(fn["hir"]):
            if nd.get("k") == "local" and nd.get("id") not in params:
                ty = (f.ty(nd.get("ty")) or "").lstrip("&")
                if ty.startswith("mut "):
                    ty = ty[4:]
                if ty in structs:
                    locs.setdefault((nd["id"], nd["name"], ty), nd.get("sp"))
        short = name.rsplit("::", 1)[-1]
        for (lid, lname, ty), sp in sorted(locs.items(), key=lambda x: str(x[0])):
            fields = set()
            whole = False
            for nd in walk(fn["hir"]):
                if nd.get("k") == "field":
                    b = H.peel_ref(nd["base"])
                    if isinstance(b, dict) and b.get("k") == "local" and b.get("id") == lid:
                        fields.add(nd["name"])
                elif nd.get("k") in ("call", "mcall"):
                    args = ([nd["recv"]] if nd.get("k") == "mcall" else []) + list(nd.get("args") or [])
                    for a in args:
                        pa = H.peel_ref(a)
                        if isinstance(pa, dict) and pa.get("k") == "local" and pa.get("id") == lid:
                            whole = True
            n += 1
            sname = ty.rsplit("::", 1)[-1]
            if whole:
                run.ob(rule, "element:%s:%s:%s" % (fn_backend(name), short, lname), True,
                       "%s: the %s bound as `%s` is handed whole to another renderer" % (short, sname, lname), sp=sp, cfg=cfg, trivial=True)
                continue
            for fl in [x["name"] for x in f.adts[ty]["variants"][0]["fields"]]:
                key = "%s:%s:%s.%s" % (short, lname, sname, fl)
                ok = fl in fields
                run.ob(rule, "element-field:%s:%s" % (fn_backend(name), key), ok or key in reviewed,
                       "%s: field %s.%s of the element bound as `%s` is %s" % (
                           short, sname, fl, lname, "read" if ok else ("not read here - " + reviewed[key]) if key in reviewed else
                           "never read at this site: this part of the element is dropped for every element rendered here"), sp=sp, cfg=cfg)
    return n
