"""Fact extraction: runs the sqfacts driver over /repo (or $SQV_REPO) per feature configuration and
loads the resulting JSON.  Facts are cached by a content hash of everything the build reads."""
import fcntl
import hashlib
import json
import os
import shutil
import subprocess
import sys
import time

VERIF = os.path.dirname(os.path.dirname(os.path.abspath(__file__)))
WORK = os.path.join(VERIF, ".work")
DRIVER = os.path.join(VERIF, "driver", "target", "release", "sqfacts")


def repo_root():
    return os.environ.get("SQV_REPO", "/repo")


CONFIGS = {
    # name: (cargo args, tier)
    "default": (["--features", "tests-cfg", "--lib", "--test", "test-derive"], "quick"),
    "all": (["--features", "all-features,tests-cfg", "--lib"], "quick"),
    "mysql": (["--no-default-features", "--features", "backend-mysql", "--lib"], "thorough"),
    "postgres": (["--no-default-features", "--features", "backend-postgres", "--lib"], "thorough"),
    "sqlite": (["--no-default-features", "--features", "backend-sqlite", "--lib"], "thorough"),
    "moreparens": (["--features", "tests-cfg,option-more-parentheses", "--lib"], "thorough"),
    "exacttype": (["--features", "tests-cfg,option-sqlite-exact-column-type", "--lib"], "thorough"),
    "all-nots": (["--features",
                  "backend-mysql,backend-postgres,backend-sqlite,derive,attr,hashable-value,all-types,tests-cfg",
                  "--lib"], "thorough"),
}

CRATES = "sea_query,sea_query_derive,test_derive"


def _hash_tree(h, root, rel):
    p = os.path.join(root, rel)
    if os.path.isfile(p):
        h.update(rel.encode())
        with open(p, "rb") as f:
            h.update(f.read())
        return
    for dp, dns, fns in os.walk(p):
        dns.sort()
        if "target" in dns:
            dns.remove("target")
        for fn in sorted(fns):
            fp = os.path.join(dp, fn)
            h.update(os.path.relpath(fp, root).encode())
            try:
                with open(fp, "rb") as f:
                    h.update(f.read())
            except OSError:
                pass


def repo_hash():
    root = repo_root()
    h = hashlib.sha256()
    for rel in ("src", "sea-query-derive/src", "sea-query-derive/Cargo.toml", "tests/derive", "Cargo.toml",
                "Cargo.lock"):
        if os.path.exists(os.path.join(root, rel)):
            _hash_tree(h, root, rel)
    with open(DRIVER, "rb") as f:
        h.update(f.read())
    h.update(root.encode())
    return h.hexdigest()[:20]


def _sysroot():
    return subprocess.check_output(["rustc", "+nightly", "--print", "sysroot"], text=True).strip()


def ensure_driver():
    if not os.path.exists(DRIVER):
        raise SystemExit("sqfacts driver not built; run MANIFEST.setup_cmd (./setup.sh)")


def extract(cfg, quiet=True):
    """Make sure facts for `cfg` exist for the current tree; return the directory holding them."""
    ensure_driver()
    os.makedirs(WORK, exist_ok=True)
    rh = repo_hash()
    out = os.path.join(WORK, "facts", rh, cfg)
    done = os.path.join(out, "DONE")
    if os.path.exists(done):
        return out
    lock_path = os.path.join(WORK, "lock-" + cfg)
    with open(lock_path, "w") as lock:
        fcntl.flock(lock, fcntl.LOCK_EX)
        if os.path.exists(done):
            return out
        if os.path.isdir(out):
            shutil.rmtree(out)
        os.makedirs(out)
        target = os.path.join(WORK, "target-" + cfg)
        # defeat cargo's freshness cache for the workspace members
        fp = os.path.join(target, "debug", ".fingerprint")
        if os.path.isdir(fp):
            for d in os.listdir(fp):
                if d.startswith("sea-query"):
                    shutil.rmtree(os.path.join(fp, d), ignore_errors=True)
        env = dict(os.environ)
        env["LD_LIBRARY_PATH"] = _sysroot() + "/lib" + (":" + env["LD_LIBRARY_PATH"] if env.get("LD_LIBRARY_PATH") else "")
        env["RUSTFLAGS"] = "-Zmir-opt-level=0 -Awarnings"
        env["RUSTC_WORKSPACE_WRAPPER"] = DRIVER
        env["SQF_CRATES"] = CRATES
        env["SQF_OUT"] = out
        env["CARGO_TARGET_DIR"] = target
        env["CARGO_NET_OFFLINE"] = "true"
        args, _tier = CONFIGS[cfg]
        cmd = ["cargo", "+nightly", "check", "--offline", "-p", "sea-query"] + args
        t0 = time.time()
        r = subprocess.run(cmd, cwd=repo_root(), env=env, stdout=subprocess.PIPE, stderr=subprocess.STDOUT, text=True)
        if r.returncode != 0:
            sys.stderr.write(r.stdout[-6000:])
            raise SystemExit("fact extraction failed for config %s (the tree does not compile?)" % cfg)
        if not os.path.exists(os.path.join(out, "sea_query.json")):
            sys.stderr.write(r.stdout[-3000:])
            raise SystemExit("fact extraction for config %s produced no fact file (driver skipped?)" % cfg)
        with open(done, "w") as f:
            f.write("%.1f\n" % (time.time() - t0))
        _gc(rh)
    return out


def _gc(keep):
    base = os.path.join(WORK, "facts")
    try:
        ds = [(os.path.getmtime(os.path.join(base, d)), d) for d in os.listdir(base) if d != keep]
    except OSError:
        return
    ds.sort()
    now = time.time()
    for _, d in ds[:-40]:
        shutil.rmtree(os.path.join(base, d), ignore_errors=True)      # hard cap on the number of cached trees
    for mt, d in ds[-40:-2]:
        # facts of other trees may be in use by a concurrent run on a scratch copy (development harnesses check several
        # trees at once): only what has not been touched for a while is collected
        if now - mt > 3600:
            shutil.rmtree(os.path.join(base, d), ignore_errors=True)


class Facts:
    def __init__(self, path, cfg, crate):
        with open(path) as f:
            d = json.load(f)
        self.cfg = cfg
        self.crate = crate
        self.path = path
        self.types = d["types"]
        self.fns = d["fns"]
        self.adts = d["items"]["adts"]
        self.traits = d["items"]["traits"]
        self.impls = d["items"]["impls"]
        self.consts = d["items"]["consts"]
        self.aliases = d["items"]["aliases"]
        self._impl_by_def = {i["def"]: i for i in self.impls}

    def ty(self, i):
        if i is None:
            return None
        return self.types[i]

    def fn(self, name):
        f = self.fns.get(name)
        if f is None:
            raise KeyError(name)
        return f

    def find_fns(self, pred):
        return [(k, v) for k, v in self.fns.items() if pred(k, v)]

    def impl_of(self, fn):
        o = fn.get("owner") or {}
        if "impl" in o:
            return self._impl_by_def.get(o["impl"])
        return None

    def trait_impls(self, trait):
        return [i for i in self.impls if i.get("trait") == trait]

    def impl_fn(self, trait, self_adt, item):
        """def path of `item` in the impl of `trait` for `self_adt`, or None"""
        for i in self.impls:
            if i.get("trait") == trait and i.get("self_adt") == self_adt:
                return i["items"].get(item)
        return None


_cache = {}


def load(cfg, crate="sea_query"):
    key = (repo_hash(), cfg, crate)
    if key in _cache:
        return _cache[key]
    d = extract(cfg)
    p = os.path.join(d, crate + ".json")
    if not os.path.exists(p) and crate == "sea_query":
        # the directory was collected under our feet (see _gc): extract again, once
        shutil.rmtree(d, ignore_errors=True)
        d = extract(cfg)
        p = os.path.join(d, crate + ".json")
    if not os.path.exists(p):
        raise SystemExit("no facts for crate %s in config %s" % (crate, cfg))
    f = Facts(p, cfg, crate)
    _cache[key] = f
    return f


def walk(node):
    """Pre-order walk over every dict node of an expression / pattern tree."""
    stack = [node]
    while stack:
        n = stack.pop()
        if isinstance(n, dict):
            yield n
            for v in reversed(list(n.values())):
                if isinstance(v, (dict, list)):
                    stack.append(v)
        elif isinstance(n, list):
            for v in reversed(n):
                if isinstance(v, (dict, list)):
                    stack.append(v)


if __name__ == "__main__":
    for c in sys.argv[1:] or ["default", "all"]:
        t = time.time()
        print(c, extract(c), "%.1fs" % (time.time() - t))


_nhir = {}


def nhir(f, name):
    """normalized HIR (format_args decoded) of function `name` in Facts `f`"""
    from . import hir
    key = (id(f), name)
    if key not in _nhir:
        _nhir[key] = hir.normalize(f.fn(name)["hir"])
    return _nhir[key]
