"""Keyword / spelling tables: what each backend writes for every variant of the small closed enums (join kinds, set
operations, ordering, frames, functions, operators, referential actions ...) is tabulated by abstract interpretation of
the resolved renderer and compared with the set of spellings the dialect accepts (specs/keywords.json)."""
import json
import os

from . import hir as H
from . import link as L
from .facts import VERIF
from .interp import Diverged, Interp, Opaque, Unsupported, Var

TRAITS = {"QB": "crate::backend::query_builder::QueryBuilder", "FKB": "crate::backend::foreign_key_builder::ForeignKeyBuilder",
          "TB": "crate::backend::table_builder::TableBuilder", "IB": "crate::backend::index_builder::IndexBuilder"}


def spec():
    return json.load(open(os.path.join(VERIF, "specs", "keywords.json")))["tables"]


def _mk_interp(f, linker):
    def unknown(it, e, env, depth):
        # calls that take the writer: leave a marker for what they would write
        name = e.get("name") or (e.get("callee") or "").rsplit("::", 1)[-1]
        args = ([e["recv"]] if e.get("k") == "mcall" else []) + list(e.get("args") or [])
        for a in args:
            pa = H.peel_ref(a)
            while isinstance(pa, dict) and pa.get("k") == "mcall" and pa["name"] in ("as_writer",):
                pa = H.peel_ref(pa["recv"])
            if isinstance(pa, dict) and pa.get("k") == "local" and pa.get("name") == "sql":
                marker = {"prepare_simple_expr": "<expr>", "prepare_value": "<value>", "push_param": "<value>", "prepare_select_statement": "<select>",
                          "prepare_table_ref": "<table>"}.get(name, "<%s>" % name)
                it.out.append(("sql", marker))
                break
        return Opaque("call")
    it = Interp(f, unknown_call=unknown)
    it.free_opaque = True

    def opaque(e):
        name = e.get("name") or (e.get("callee") or "").rsplit("::", 1)[-1]
        return name in ("prepare_simple_expr", "prepare_value", "prepare_select_statement", "prepare_table_ref", "push_param", "prepare_condition_where")
    it.opaque_call = opaque
    # the escape code is decided per character elsewhere (C03 / C17): here its result is one opaque escaped text
    it.builtins["crate::backend::EscapeBuilder::escape_string"] = lambda it_, a: "<escaped>"
    # likewise the identifier quoting (C04): one opaque quoted name
    it.builtins["crate::types::Iden::quoted"] = lambda it_, a: "<quoted>"
    # dispatch of `self.method(..)` on the builder traits: resolve for this backend
    for tr in L.BUILDER_TRAITS:
        t = f.traits.get(tr)
        if not t:
            continue
        for item in t["items"]:
            decl = item["def"]
            if item["name"] in ("prepare_simple_expr", "prepare_value", "prepare_select_statement", "prepare_table_ref", "escape_string", "prepare_condition_where"):
                continue      # kept opaque: the table only needs a marker for what they write
            target = linker.resolve(decl)
            if target and target != decl:
                it.builtins[decl] = (lambda tgt: (lambda it_, args: it_.call_fn(tgt, args, 1)))(target)
    return it


def render(f, linker, trait, method, args):
    """text written to `sql` by trait::method(self, *args, sql) for this backend, or None if it diverges"""
    target = linker.resolve(trait + "::" + method)
    if target is None:
        raise Unsupported("no renderer %s" % method)
    it = _mk_interp(f, linker)
    try:
        it.call_fn(target, [Opaque("self")] + args + [Opaque("sql")])
    except Diverged:
        return None
    return "".join(t for s, t in it.out if s == "sql")


def variants(f, adt):
    return f.adts[adt]["variants"]


def check_table(run, rule, f, cfg, dialect, name, tab):
    linker = L.Linker(f, dialect)
    if tab.get("only") and dialect not in tab["only"]:
        return 0
    enum = tab["enum"]
    if enum not in f.adts:
        if "::extension::" not in enum:      # extension enums exist only with their backend's cargo feature
            run.anchor(rule, "table:%s" % name, "enum %s of specs/keywords.json not found" % enum, cfg)
        return 0
    trait = TRAITS[tab["trait"]]
    exp = tab["expect"].get(dialect, {})
    shape = tab["shape"]
    n = 0
    for v in variants(f, enum):
        vn = v["name"]
        if vn in (tab.get("skip") or []):
            continue
        if tab.get("variants") and vn not in tab["variants"]:
            continue
        val = Var(v["def"], [Opaque("p%d" % i) for i in range(len(v["fields"]))])
        try:
            if shape in ("variant", "variant-payload"):
                txt = render(f, linker, trait, tab["method"], [val])
            elif shape == "union":
                txt = render(f, linker, trait, tab["method"], [val, Opaque("select")])
            elif shape == "order":
                txt = render(f, linker, trait, tab["method"], [{"expr": Var("crate::expr::SimpleExpr::Column", [Opaque("e")]), "order": val, "nulls": None}])
            elif shape == "nulls":
                txt = render(f, linker, trait, tab["method"], [{"expr": Var("crate::expr::SimpleExpr::Column", [Opaque("e")]), "order": Var("crate::types::Order::Asc"), "nulls": ("__some", val)}])
            elif shape == "lock-type":
                txt = render(f, linker, trait, tab["method"], [{"type": val, "tables": [], "behavior": None}])
            elif shape == "lock-behavior":
                txt = render(f, linker, trait, tab["method"], [{"type": Var("crate::query::select::LockType::Update"), "tables": [], "behavior": ("__some", val)}])
            elif shape == "pgfunction":
                txt = render(f, linker, trait, tab["method"], [Var("crate::func::Function::PgFunction", [val])])
            elif shape == "pgoperator":
                txt = render(f, linker, trait, tab["method"], [Var("crate::types::BinOper::PgOperator", [val])])
            elif shape == "sqliteoperator":
                txt = render(f, linker, trait, tab["method"], [Var("crate::types::BinOper::SqliteOperator", [val])])
            else:
                raise Unsupported("shape " + shape)
        except Unsupported as e:
            run.ob(rule, "kw:%s:%s:%s" % (dialect, name, vn), False, "%s: %s::%s outside the tabulated fragment: %s" % (dialect, name, vn, e), cfg=cfg)
            continue
        n += 1
        want = exp.get(vn, "MISSING")
        if want == "MISSING":
            run.ob(rule, "kw:%s:%s:%s" % (dialect, name, vn), False,
                   "%s: %s::%s is written as %r but specs/keywords.json has no entry for it (a new variant needs a reviewed spelling)" % (dialect, name, vn, txt), cfg=cfg)
            continue
        if want is None:
            ok = txt is None
            run.ob(rule, "kw:%s:%s:%s" % (dialect, name, vn), ok, "%s: %s::%s is not part of the dialect and the renderer refuses it%s" % (
                dialect, name, vn, "" if ok else " - but it writes %r" % txt), cfg=cfg)
            continue
        got = None if txt is None else " ".join(txt.split()) if shape not in ("union",) else txt
        accept = [" ".join(w.split()) if shape not in ("union",) else w for w in want]
        run.ob(rule, "kw:%s:%s:%s" % (dialect, name, vn), got in accept,
               "%s: %s::%s is written as %r; the dialect accepts %s" % (dialect, name, vn, txt, " | ".join(repr(w) for w in want)), cfg=cfg)
    return n


def check_tables(run, rule, f, cfg, dialect, names):
    sp = spec()
    total = 0
    for nm in names:
        if nm not in sp:
            run.anchor(rule, "kw-table:" + nm, "no table %s in specs/keywords.json" % nm, cfg)
            continue
        total += check_table(run, rule, f, cfg, dialect, nm, sp[nm])
    return total
