#!/usr/bin/env python3
"""Regenerates /verif/MANIFEST.json from the table below (kept in one place so that it stays valid)."""
import json
import os
import sys

VERIF = os.path.dirname(os.path.dirname(os.path.abspath(__file__)))

BASE_OFF = ("cd /repo && cargo nextest run --workspace --no-fail-fast --test-threads 8 --offline "
            "|| cargo test --workspace --no-fail-fast --offline")

# pid: (category, level text, level note, technique, design ref)
CHECKS = {}
NOT_APPLICABLE = {}


def claim(pid, category, text, note, technique, ref):
    CHECKS[pid] = (category, text, note, technique, ref)


def na(pid, reason):
    NOT_APPLICABLE[pid] = reason


# ---------------------------------------------------------------------------------------------
claim("C01", "other",
      "Structural proof of the writer invariant: only push_param changes counter/values, every path through it appends one "
      "placeholder carrying the post-increment count and pushes the one value, every backend's prepare_value reaches it "
      "exactly once with a clone of its argument, the entry points wire placeholder() of the rendering backend in and return "
      "into_parts(), and no renderer writes a placeholder mark itself. All control paths of the named functions and all call "
      "sites in the crate are enumerated, in each analysed feature configuration; by induction the i-th placeholder carries "
      "the i-th value for every statement.",
      "Decides the writer mechanism for all statements; assumes user-supplied raw SQL has no unquoted placeholder marks; "
      "'no value is dropped by a renderer' is shared with C07/C08 field consumption; the engine-side meaning of ?/$n is the "
      "dialect's (specs). Trusts rustc's HIR/MIR and the extractor.",
      "path-effect summaries + who-may-write/who-may-call census over rustc HIR/MIR", "DESIGN.md section 4, C01")

claim("C02", "other",
      "Both modes run the same renderer code on a `&mut dyn SqlWriter`; the check establishes that the writer's identity is "
      "unobservable to rendering (callee census on every dyn SqlWriter value, no downcast), that the only inline "
      "writer writes exactly the rendering backend's literal for the value that would have been bound, that all entry points "
      "of the five statement types and their #[inherent] forwards reach the same renderer with the same arguments, and that "
      "rendering cannot modify the statement (shared references, Freeze on the whole type closure, no nondeterminism source).",
      "Does not decide that an engine returns the same rows for literals and bound parameters (engine typing). Trusts "
      "rustc's resolution of callees and the Freeze answers of the trait solver.",
      "callee census, sibling agreement, trait-solver Freeze over rustc HIR", "DESIGN.md section 4, C02")

claim("C03", "other",
      "Per backend the escape function is extracted as an ordered replace chain and shown to be a per-character code; the "
      "literal frame (including Postgres' E-prefix decision) is extracted from the template IR; the composition is decoded with "
      "the dialect's documented lexer for every string up to length 3 over the escape-relevant alphabet (finite case split: "
      "every character named anywhere + representatives of all others; length 3 covers every boundary interaction of the "
      "lexers' escapes). Dataflow over the template IR of every writer function shows that whatever sits between single quotes "
      "is escaped, hex or fixed-alphabet text; payloads reach the quoting routines without lossy conversion; bytes are a "
      "two-digit hex hole per byte in the dialect's frame; no renderer formats a Value through Display.",
      "Oracle = specs/lexical.json (lexers written from the manuals, server defaults assumed). Decides the text of the "
      "literal, not that an engine stores it (engine-side encoding/collation is out of reach).",
      "replace-chain extraction + dialect lexer oracle (exhaustive finite case split) + TIR dataflow", "DESIGN.md section 4, C03")

claim("C04", "other",
      "Iden::quoted is shown to double exactly the closing quote byte of the whole name and the default Iden::prepare to frame "
      "it with the two quote characters; the backend QUOTE constants are compared with the dialect's identifier-quoting rule. "
      "A dataflow over the template IR of every writer function (all backends, query and schema renderers) shows that whatever "
      "is emitted between a left-quote and the next right-quote is a quote-free literal or Iden::quoted with that quote, and "
      "that every identifier written raw is one of seven reviewed raw-by-contract sinks. No impl of Iden overrides prepare/"
      "quoted.",
      "Self-describing rule: code says 'this is a quoted identifier' by writing the quote characters. Engine-side decoding = "
      "un-doubling the quote (specs/lexical.json). Derive-generated fast paths are C19.",
      "structural extraction of Iden::quoted + TIR dataflow over quote-delimited regions", "DESIGN.md section 4, C04")

claim("C05", "other",
      "The parenthesisation decision is tabulated completely: for every backend, every outer operator the backend renders "
      "(plain, Postgres and SQLite extension operators, a custom operator), both operand sides, every inner operator and every "
      "other SimpleExpr kind, plus NOT and the two BETWEEN bounds, the real binary_expr / Unary code is interpreted over the "
      "abstract operands (~2800 cells). Every cell that drops the parentheses is justified by the dialect's precedence level "
      "and associativity, by the BETWEEN bound grammar, or by the operand being a single token / self-delimiting in the "
      "backend's template IR. Arbitrary nesting reduces to these cells because the decision only looks at the immediate inner "
      "operator.",
      "Oracle = specs/precedence.json (written from the three manuals, server defaults). Does not decide evaluation on an "
      "engine, only that the printed text re-parses to the tree that was built. Implicit operator contexts outside "
      "binary_expr (e.g. MySQL's `expr IS NULL` ordering emulation) are not covered.",
      "exhaustive decision table by abstract interpretation vs precedence oracle", "DESIGN.md section 4, C05")

claim("C06", "other",
      "Every rewriting action of the condition builder (unwrap a single-member group, concatenate member lists, add as member, "
      "wrap) is located on every control path and its path condition is tabulated over the complete abstract domain of groups "
      "(negated x type x 0..3 members, for both operands) by abstract interpretation of the extracted guard expressions; the "
      "guard must imply the precondition of the three-valued-logic identity the action relies on. Fold operators, empty-group "
      "constants, whole-group negation, member order, the renderer's Empty/keyword behaviour and all public condition-adding "
      "entry points are checked as finite tables.",
      "The identities themselves are argued in DESIGN.md, not machine-checked; printing of the produced expression tree is "
      "C05. Guards outside the interpreter's fragment fail closed.",
      "path enumeration + guard tabulation by abstract interpretation over a finite domain", "DESIGN.md section 4, C06")

claim("C07", "other",
      "Decides structural necessary conditions of 'a built statement does what the builder calls say' for the SQLite query "
      "renderers, for every statement the renderers can be given: every field of every query statement struct reaches the "
      "output guarded only by its own emptiness (or is a reviewed SQLite exception), no clause list is rendered partially or "
      "out of order, separators are written iff an element is, parentheses balance on every consistent path, adjacent "
      "emissions cannot fuse into one token, and every keyword table (joins, set operations, ORDER/NULLS, frames, functions, "
      "operators) agrees with the spellings SQLite accepts.",
      "NOT decided: that a real SQLite accepts the statement beyond these conditions and returns the same rows / leaves the "
      "same table contents (needs execution). The keyword and exception tables under specs/ are the trusted base.",
      "field-consumption, separator, parenthesis and adjacency rules over the linked template IR + keyword tables by abstract interpretation", "DESIGN.md section 4, C07")

claim("C08", "other",
      "Same engine as C07 for the MySQL and PostgreSQL query renderers (defaults + overrides resolved per backend): field "
      "consumption with reviewed dialect exceptions (RETURNING, conflict targets, SEARCH/CYCLE, index hints, TABLESAMPLE ..), "
      "separator discipline, parenthesis balance, token adjacency, forward iteration, and the per-backend keyword / function / "
      "operator tables against the dialects' accepted spellings.",
      "NOT decided: acceptance by a full MySQL / PostgreSQL parser. Known finding recorded: MySQL multi-table UPDATE renders "
      "only the first FROM table.",
      "field-consumption, separator, parenthesis and adjacency rules over the linked template IR + keyword tables", "DESIGN.md section 4, C08")

claim("C09", "other",
      "The three backends run the same default renderers and can differ only where a backend overrides a trait item. The check "
      "enumerates every override (42 today) and requires each to be a reviewed one with its class (lexical / emulation / "
      "dialect-only / non-portable / refuses); dialect-only overrides are shown to write backend-specific text only under a guard "
      "on their dialect-only construct; and on the portable subset the keyword tables of the three backends - tabulated from the "
      "code - are equal after the documented function-name and parenthesis substitutions (142 rows).",
      "NOT decided: that the three engines return identical results. The per-dialect meaning of the shared text is C03/C04/"
      "C05/C07/C08. The automata-equivalence of whole statement languages planned in DESIGN.md was replaced by this audit + "
      "table agreement (section 8 fallback).",
      "override audit + cross-backend agreement of tabulated keyword tables", "DESIGN.md section 4, C09")

claim("C10", "other",
      "InsertStatement::values / select_from are interpreted on the complete length abstraction (columns 0..3 x row or "
      "select width 0..3 x current source kind, 48 cells each): a row of another length is refused with "
      "ColValNumMismatch{col_len, val_len}, unswapped, and nothing is touched; a matching row is appended in cell "
      "order; a small-scope obligation shows that the code compares lengths only with each other. Outside the "
      "interpreter's fragment the MIR dominator analysis decides (every write dominated by the equal edge of the "
      "comparison of columns.len() with the length of the very value stored). A crate-wide who-may-write census shows "
      "no other code touches columns/source/default_values; prepare_insert_statement is interpreted on statements of "
      "1..3 rows of 1..3 marker cells (every row whole, in order, each cell through one renderer call on that very "
      "cell); the history closure rule (columns() after values()) reports the one known defect.",
      "Over all call histories of the listed API (the invariant is inductive). The length abstraction is complete "
      "because the functions compare lengths only with each other (checked); rendering of the cells themselves is "
      "covered by C07/C08.",
      "abstract interpretation over the length abstraction + small-scope constant check; MIR dominators + field-write census", "DESIGN.md section 4, C10")

claim("C11", "other",
      "The CustomWithExpr arm (with whatever helper holds the loop) and inject_parameters are interpreted - their "
      "extracted bodies, never the compiled crate - on every tape of abstract tokens of length <= 3 (<= 4 thorough) "
      "over {mark, other punctuation, two numbers, a word, a quoted literal holding the mark, a space}, for the `?` and "
      "`$n` styles, with exactly as many values as the tape designates and with spare ones; the text written is "
      "compared with the property's own reading (mark -> designated value, doubled mark -> one mark, everything else "
      "verbatim). A small-scope obligation shows that the code compares positions and counters only with constants "
      "below the tape length. The cust_with_* constructors are interpreted on 0..3 opaque values. Code outside the "
      "interpreter's fragment is decided by loop path summaries instead (fail closed).",
      "How template text is split into tokens is C16. Not decided: inject_parameters(build(s)) == to_string(s) for "
      "every statement (re-lexing of every literal form); out-of-range placeholders panic by design; a lone `$` on a "
      "numbered backend is not specified by the property and not compared.",
      "abstract interpretation of extracted HIR on all short token tapes + small-scope constant check; path summaries as fallback", "DESIGN.md section 4, C11")

claim("C12", "other",
      "Exhaustive over every From/Nullable/ValueType impl present in the all-features build (about 40 types), every "
      "tuple arity 1..12 and every Value variant, by symbolic interpretation of the impl bodies: From<T>::from on a "
      "symbolic atom x yields one Value variant holding Some(x), Nullable::null the None of the same variant, "
      "ValueType::try_from gives back Ok(x) and refuses the NULL and the Some of every other variant (two probes per "
      "variant); Option<T>, Vec<T> (element-type guard), tuples (components in index order, other arities refused) and "
      "ValueTuple::into_iter likewise. Conversions between owned and borrowed forms of one value, a reviewed list of "
      "foreign adapters and the per-element conversion of a generic T are the identity; any other call on the payload "
      "is outside the fragment and the shape rules (variant pairing, identity-step census) decide instead. Symbolic "
      "identity is value-independent, so this covers all values of each type.",
      "Trusts the reviewed foreign conversions (uuid adapters, chrono fixed-offset rebuild) and Value equality (C18) "
      "used by Option<T>::try_from; as_null / dummy_value are decided by their match shape; an impl neither "
      "interpretable nor of a recognised shape fails closed.",
      "symbolic interpretation of extracted HIR (exhaustive over impls and variants); variant-pairing census as fallback", "DESIGN.md section 4, C12")

claim("C13", "other",
      "SQLite schema renderers: the complete ColumnType -> declared type table is extracted by abstract interpretation and "
      "SQLite's documented affinity algorithm is applied to every emitted name (intended affinity per variant; AUTOINCREMENT "
      "columns declared exactly INTEGER; unsupported types refused); field consumption of the schema statement structs with "
      "reviewed SQLite exceptions; separators, parentheses, adjacency, forward iteration.",
      "NOT decided: that the engine accepts the statement and that its catalogue then reports the declared schema (needs "
      "execution and introspection). Trusted: specs/sqlite_affinity.json, the affinity algorithm as documented.",
      "type table by abstract interpretation + SQLite affinity algorithm; structural rules over the linked template IR", "DESIGN.md section 4, C13")

claim("C14", "other",
      "MySQL and PostgreSQL schema renderers: every ColumnType variant is declared with a type the dialect defines, parameters "
      "forwarded in order, UNSIGNED exactly on the unsigned variants, unsupported types refused; separator discipline of every "
      "separated list (the hand-managed commas of Postgres ALTER COLUMN are tabulated over all ColumnSpec variants x flag); "
      "parentheses, adjacency; field consumption per backend with reviewed exceptions.",
      "NOT decided: acceptance by the dialects' DDL parsers. Trusted: specs/types.json and the reviewed exception tables.",
      "type tables and separator tables by abstract interpretation; structural rules over the linked template IR", "DESIGN.md section 4, C14")

claim("C15", "other",
      "Proof-style over a finite obligation list: each of the 12 take(&mut self) functions and each clear_* / reset_* "
      "function is interpreted on a statement whose fields hold opaque markers (nested builders: structs of markers) - "
      "the taken value holds field-wise what self held, query statements are left equal to their derived Default, a "
      "clear function changes exactly its field, to the Default value; bodies outside the interpreter's fragment are "
      "decided by their struct literal / MIR field writes. Clone/PartialEq on the whole type closure of the statements "
      "are compiler-derived or reviewed; every such type is Freeze and the shared identifier pointer is never mutated "
      "through.",
      "Equality of rendering follows from equality of fields because renderers read nothing but the statement (C02.R4). "
      "Derive expansions are trusted to be field-wise.",
      "abstract interpretation on marker statements (HIR), derive census, trait-solver Freeze, MIR field-write census as fallback", "DESIGN.md section 4, C15")

claim("C16", "other",
      "Structural termination and losslessness of the tokenizer for all inputs: on every path of every sub-lexer loop each "
      "consumed character is appended first (so token texts concatenate to the consumed input), a sub-lexer returns Some only "
      "with non-empty text and None without consuming, every loop iteration that continues consumes a character, get() is "
      "guarded by end(), next() is loop-free and returns None only after all four sub-lexers declined, and a decision table over "
      "character classes shows that every possible first character is consumed by some sub-lexer. The quoted-text grouping "
      "clause is decided by tabulating the extracted state machine against the documented rule on short tapes.",
      "R1-R5 hold for all strings (path-universal). R6 (grouping) is a bounded tabulation over class representatives (body "
      "length <= 3, 5 on the reduced alphabet; 4/6 in the thorough tier), not a proof for unbounded bodies. Character-class "
      "predicates of std are modelled on representatives.",
      "path-effect pairing rules (HIR paths) + decision tables by abstract interpretation over character classes", "DESIGN.md section 4, C16")

claim("C17", "proof",
      "Proof by finite case analysis: the escape function is one simultaneous per-character substitution h (extracted "
      "as a replace chain or a stateless character loop); the unescape loop is tabulated as a finite-state transducer "
      "over all characters that occur in either function plus representatives of every other character; from the plain "
      "state it maps h(c) to c and returns to the plain state for every class, hence unescape(escape(s)) = s for all "
      "strings by induction. SQLite's pair is the quote-doubling pair (lemma). All impls of EscapeBuilder in each "
      "configuration are enumerated. When a body has neither of the extractable forms, both functions are interpreted "
      "instead on every string of length <= 2 over that alphabet and of length 3 over one member of every class "
      "(homomorphism, per-character inversion, round trip), with the small-scope obligation that no size constant "
      "reaches the tabulated length; that fallback is bounded evidence, not the inductive proof.",
      "Trusts the documented semantics of str::replace and str::chars; the transducer is obtained by interpreting the "
      "extracted loop body over the finite character classes (the code compares characters only against literals; the "
      "loop must iterate over exactly param.chars()).",
      "replace-chain + transducer extraction, per-character case split; interpreted strings as fallback", "DESIGN.md section 4, C17")

claim("C18", "other",
      "In the hashable-value configuration Value::eq and Value::hash, with every helper they call, are interpreted on "
      "values whose payloads are symbolic atoms: eq on every pair of variants (payload NULL / a) and on every pair of "
      "payloads NULL / a / b of one variant, with every component of multi-field variants varied (4000+ rows), holds "
      "exactly when variant and payload are the same, and is symmetric; every hash trace starts with the discriminant; "
      "whenever eq holds the two hash traces are identical; what eq compares and what hash feeds are recorded with the "
      "normal form they are wrapped in (OrderedFloat, serde_json::to_string, plain) and agree per variant, float "
      "payloads never in plain form; no raw float comparison or bit hashing anywhere in the helpers. Outside the "
      "interpreter's fragment the match-arm census and comparator/hasher pairing decide.",
      "Trusts Eq/Hash coherence of std, ordered_float and the optional third-party payload types (one atomic step "
      "each). Transitivity follows per variant from the payload's own Eq.",
      "symbolic interpretation with normal-form traces (HIR); match-arm census + resolved comparator/hasher pairing as fallback", "DESIGN.md section 4, C18")

claim("C19", "other",
      "The derive macro is analysed as a program transformer: its validity predicate is tabulated over character "
      "classes (accepted names are [A-Za-z0-9_]*, hence quote-free), the per-variant predicate over attribute kinds x "
      "names x container names (it validates exactly the name the variant renders), the generated fast path is shown to "
      "be emitted only on paths under that condition - directly or handed to a helper as the bool it branches on - "
      "(flag initialised true, updated only by &= for every variant), the name sources (heck snake_case / PascalCase, "
      "`Table` -> container name, rename, method, enum_def prefix/suffix) are decided by interpreting get_table_name, "
      "table_or_snake_case, write_variant_name (over a token-list model of quote!) and the backward slices of the "
      "identifiers enum_def interpolates (type names including Rust keywords; table_name, prefix, suffix options), with "
      "structural rules as the fallback, and every derive(Iden) expansion in the repository's test target is cross- "
      "checked against an independent snake_case.",
      "Does not decide the transformation for all input programs beyond these guards and sources; heck is trusted (and "
      "cross-checked on the in-repo expansions). Helper attributes are read from source text for the witness cross- "
      "check only.",
      "decision tables by abstract interpretation + guard-provenance rule on the macro's HIR + sliced interpretation + witness expansions", "DESIGN.md section 4, C19")

claim("C20", "proof",
      "Every reachable non-generic ADT and alias of the crate is Send and Sync in the thread-safe configuration; each "
      "obligation is discharged by rustc's own trait solver on the real build, with a control query in the configuration "
      "without the feature. This is exactly the type-level fact the property states.",
      "Trusts rustc's trait solver and the driver's enumeration of reachable types; generic ADTs are covered through "
      "their field types (no Rc/Cell/raw pointer) and the DynIden alias.",
      "trait-solver queries in a rustc_private driver (type-level proof)", "DESIGN.md section 4, C20")


def build():
    props = [json.loads(l)["id"] for l in open(os.path.join(VERIF, "properties.jsonl"))]
    checks = []
    for pid in props:
        if pid not in CHECKS:
            continue
        cat, text, note, tech, ref = CHECKS[pid]
        checks.append({
            "property_id": pid,
            "quick_cmd": "./check %s --tier quick" % pid,
            "thorough_cmd": "./check %s --tier thorough" % pid,
            "evidence_file": "/verif/evidence/%s.json" % pid,
            "replay_cmd_template": "./check %s --replay {path}" % pid,
            "engine": "sqv",
            "level_claimed": {"category": cat, "text": text, "design_ref": ref},
            "level_note": note,
            "technique": tech,
        })
    m = {
        "version": 1,
        "setup_cmd": "./setup.sh",
        "hooks": {
            "guard": "seaql_sea_query_verif",
            "enable": "none needed: the analysis reads rustc's own HIR/MIR of the unmodified build (RUSTC_WORKSPACE_WRAPPER=driver)",
            "baseline_off_cmd": BASE_OFF,
            "source_commits": [],
            "add_only": True,
        },
        "engines": [
            {"name": "sqfacts", "path": "/verif/driver", "serves_properties": sorted(CHECKS),
             "kind_free_text": "rustc_private driver: resolved HIR + typeck, MIR, items, trait-solver answers as JSON per feature configuration"},
            {"name": "sqv", "path": "/verif/sqv", "serves_properties": sorted(CHECKS),
             "kind_free_text": "python3 (stdlib) rule engines over the extracted facts: structural rules, path summaries, decision tables, template IR"},
        ],
        "checks": checks,
        "notes": "Static analysis only: no registered command executes sea-query code. See DESIGN.md.",
        "not_applicable": [{"property_id": p, "reason": NOT_APPLICABLE[p]} for p in props if p in NOT_APPLICABLE],
    }
    missing = [p for p in props if p not in CHECKS and p not in NOT_APPLICABLE]
    if missing:
        raise SystemExit("properties neither claimed nor not_applicable: %s" % missing)
    with open(os.path.join(VERIF, "MANIFEST.json"), "w") as f:
        json.dump(m, f, indent=1)
        f.write("\n")


if __name__ == "__main__":
    sys.path.insert(0, VERIF)
    for p in ["C%02d" % i for i in range(1, 21)]:
        if p not in CHECKS:
            na(p, "check not built yet (work in progress; see DESIGN.md section 8 build order)")
    build()
