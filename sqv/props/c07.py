"""C07  On SQLite, a built statement does what the builder calls say.  DESIGN.md section 4, C07.
Engine behaviour is not decidable statically; its structural preconditions are."""
from ._structure import run_structure

META = ("other",
        "C07.R1 grammar refinement - the token language each statement renderer can write (NFA built from the linked template "
        "IR: guards free, but correlated boolean flags, shared first-flags, loop-index guards, constant enum arguments, "
        "variants excluded by a calling match and fold decision tables tracked) is included in the dialect grammar skeleton "
        "specs/<dialect>.ebnf; a counterexample is a shortest token string with the emission that leaves the grammar; C07.R6 "
        "hook discipline - inner renderers of overridable backend hooks (specs/hooks.json) are called only from implementations "
        "of the hook;  "
        "Structural necessary conditions of the SQLite query renderers (shared default renderers + SQLite overrides), over the "
        "linked template IR: C07.R2 parentheses balanced on every consistent path, no two emissions fuse into one token, every "
        "separated list writes its separator iff an element is written; C07.R3 field consumption - every field of every query "
        "statement struct reaches the output guarded only by its own emptiness, or is a reviewed (dialect, field) exception; no "
        "clause vector is rendered partially; C07.R4 keyword tables (join kinds, set operations, ordering / NULLS, frames, "
        "subquery operators, functions, operators) against the dialect's accepted spellings, and forward, complete iteration "
        "of every clause vector",
        "one obligation per (struct field), per separated list, per function with parentheses, per keyword-table row")


def check(run):
    run_structure(run, "C07", "query", ["sqlite"], run.tier_configs(["default", "all"], ["sqlite"]))
    run.assumptions.append("NOT decided: acceptance by a real SQLite engine beyond these structural conditions (name resolution, typing), "
                           "returned rows, table contents, affected-row counts")
    
    run.delegate("C06", "which rows an UPDATE / DELETE / SELECT touches is decided by the condition tree that C06 decides")
