#!/usr/bin/env python3
"""Development tool (not a registered check): applies each mutation of selftest/mutations.py to a scratch copy
of /repo (outside /repo and /verif), runs the affected check against it (SQV_REPO) and compares with the
expectation: breaking mutations must yield a VIOLATION whose key contains `expect`; benign ones must be silent.

usage: selftest/run.py [id-substring ...] [--jobs N]"""
import os
import shutil
import subprocess
import sys
import json

VERIF = os.path.dirname(os.path.dirname(os.path.abspath(__file__)))
sys.path.insert(0, os.path.dirname(os.path.abspath(__file__)))
from mutations import MUTATIONS  # noqa: E402

SCRATCH = "/tmp/sqv-selftest"
PRISTINE = "/tmp/sqv-selftest-pristine"


def fresh_copy(scratch=None):
    scratch = scratch or SCRATCH
    if os.path.isdir(scratch):
        shutil.rmtree(scratch)
    subprocess.check_call(["rsync", "-a", "--exclude", "target", "--exclude", ".git", "/repo/", scratch + "/"])


def run_one(m, scratch):
    """apply one mutation to a private scratch copy, run its checks, return (id, kind, ok, msgs)"""
    global SCRATCH
    env = dict(os.environ, SQV_REPO=scratch)
    edits = m["edits"] if "edits" in m else [(m["file"], m["old"], m["new"])]
    for file, old, new in edits:
        p = os.path.join(scratch, file)
        s = open(p).read()
        if s.count(old) != 1:
            return (m["id"], m["kind"], False, ["pattern occurs %d times in %s" % (s.count(old), file)])
        open(p, "w").write(s.replace(old, new))
    try:
        ok_all = True
        msgs = []
        for pid in m["props"]:
            r = subprocess.run([os.path.join(VERIF, "check"), pid, "--tier", m.get("tier", "quick")], cwd=VERIF, env=env,
                               stdout=subprocess.PIPE, stderr=subprocess.STDOUT, text=True)
            viol = [l for l in r.stdout.splitlines() if l.startswith("VIOLATION") or l.startswith("  rule=")]
            keys = [l for l in r.stdout.splitlines() if l.startswith("  rule=")]
            if m["kind"] == "breaking":
                ok = r.returncode == 1 and any(m["expect"] in k for k in keys)
            else:
                ok = r.returncode == 0 and not viol
            if "extraction failed" in r.stdout:
                ok = False
                msgs.append("DOES NOT COMPILE")
            ok_all = ok_all and ok
            msgs.append("%s rc=%d %s" % (pid, r.returncode, " | ".join(k.strip()[:160] for k in keys[:3])))
        return (m["id"], m["kind"], ok_all, msgs)
    finally:
        for file, _, _ in edits:
            shutil.copy2(os.path.join(PRISTINE, file), os.path.join(scratch, file))


def main_parallel(sel, jobs):
    import concurrent.futures
    import queue
    todo = [m for m in MUTATIONS if not sel or any(s in m["id"] for s in sel)]
    pool = queue.Queue()
    fresh_copy(PRISTINE)          # restores come from this snapshot, so /repo may be touched while the corpus runs
    dirs = [PRISTINE]
    for k in range(jobs):
        d = "%s-%d" % (SCRATCH, k)
        if os.path.isdir(d):
            shutil.rmtree(d)
        shutil.copytree(PRISTINE, d)
        dirs.append(d)
        pool.put(d)
    results = []

    def work(m):
        d = pool.get()
        try:
            return run_one(m, d)
        finally:
            pool.put(d)
    try:
        with concurrent.futures.ThreadPoolExecutor(max_workers=jobs) as ex:
            for r in ex.map(work, todo):
                results.append(r)
                print("%-5s %-9s %-40s %s" % ("ok" if r[2] else "FAIL", r[1], r[0], "; ".join(r[3])), flush=True)
    finally:
        for d in dirs:
            shutil.rmtree(d, ignore_errors=True)
    bad = [r for r in results if not r[2]]
    print("%d mutations, %d as expected, %d not" % (len(results), len(results) - len(bad), len(bad)))
    with open(os.path.join(VERIF, "selftest", "last_results.json"), "w") as f:
        json.dump([{"id": a, "kind": b, "as_expected": c, "out": d} for a, b, c, d in results], f, indent=1)
    return 1 if bad else 0


def apply(m):
    edits = m["edits"] if "edits" in m else [(m["file"], m["old"], m["new"])]
    touched = []
    for file, old, new in edits:
        p = os.path.join(SCRATCH, file)
        s = open(p).read()
        if s.count(old) != 1:
            raise SystemExit("mutation %s: pattern occurs %d times in %s" % (m["id"], s.count(old), file))
        open(p, "w").write(s.replace(old, new))
        touched.append(file)
    return touched


def restore(files):
    for file in files:
        shutil.copy2(os.path.join("/repo", file), os.path.join(SCRATCH, file))


def main():
    args = sys.argv[1:]
    jobs = 1
    if "--jobs" in args:
        i = args.index("--jobs")
        jobs = int(args[i + 1])
        del args[i:i + 2]
    sel = [a for a in args if not a.startswith("--")]
    if jobs >= 1 and "--serial" not in sys.argv:
        return main_parallel(sel, jobs)
    fresh_copy()
    results = []
    env = dict(os.environ, SQV_REPO=SCRATCH)
    try:
        for m in MUTATIONS:
            if sel and not any(s in m["id"] for s in sel):
                continue
            touched = apply(m)
            try:
                ok_all = True
                msgs = []
                for pid in m["props"]:
                    r = subprocess.run([os.path.join(VERIF, "check"), pid, "--tier", m.get("tier", "quick")], cwd=VERIF, env=env,
                                       stdout=subprocess.PIPE, stderr=subprocess.STDOUT, text=True)
                    viol = [l for l in r.stdout.splitlines() if l.startswith("VIOLATION") or l.startswith("  rule=")]
                    keys = [l for l in r.stdout.splitlines() if l.startswith("  rule=")]
                    if m["kind"] == "breaking":
                        ok = r.returncode == 1 and any(m["expect"] in k for k in keys)
                    else:
                        ok = r.returncode == 0 and not viol
                    if "extraction failed" in r.stdout:
                        ok = False
                        msgs.append("DOES NOT COMPILE")
                    ok_all = ok_all and ok
                    msgs.append("%s rc=%d %s" % (pid, r.returncode, " | ".join(k.strip()[:160] for k in keys[:3])))
                results.append((m["id"], m["kind"], ok_all, msgs))
                print("%-5s %-9s %-40s %s" % ("ok" if ok_all else "FAIL", m["kind"], m["id"], "; ".join(msgs)), flush=True)
            finally:
                restore(touched)
    finally:
        shutil.rmtree(SCRATCH, ignore_errors=True)
    # evidence of /repo itself must not be left overwritten by scratch runs: re-run is the caller's business
    bad = [r for r in results if not r[2]]
    print("%d mutations, %d as expected, %d not" % (len(results), len(results) - len(bad), len(bad)))
    with open(os.path.join(VERIF, "selftest", "last_results.json"), "w") as f:
        json.dump([{"id": a, "kind": b, "as_expected": c, "out": d} for a, b, c, d in results], f, indent=1)
    return 1 if bad else 0


if __name__ == "__main__":
    sys.exit(main())
