"""C04  Identifiers are quoted so that they decode to exactly the supplied name.  DESIGN.md section 4, C04."""
import json
import os

from .. import hir as H
from .. import lexers as L
from .. import paths as P
from .. import tir as T
from ..facts import VERIF, nhir, walk

META = ("other",
        "C04.R1 Iden::quoted (interpreted on every name of length <= 2 over letters, all dialects' quote characters and a "
        "multi-byte character, length 3 over the quote characters, for each quote pair; shape rule as fallback) replaces every "
        "closing-quote byte by two of them and the default Iden::prepare emits left quote + "
        "quoted(q) + right quote; the backend QUOTE constants are the dialect's identifier quote (left = right), so doubling is "
        "the engine's decoding rule; R2 dataflow over the template IR of every writer function: whatever is emitted between a "
        "left-quote hole and the next right-quote hole is a quote-free literal or Iden::quoted with the same quote; R3 every "
        "identifier - or text cut out of an identifier's name (slices, split_at, traced through locals) - written raw outside "
        "quotes is a reviewed raw-by-contract sink; R4 no impl of Iden overrides prepare/quoted "
        "and the identifier positions of the renderers reach Iden::prepare (site floor); R5 the encoded text returned by "
        "Iden::quoted is written out by the very function that asked for it (or returned by it, and then the same holds for its "
        "callers): encoded names are never handed on or stored, so nothing is encoded twice",
        "one obligation per structural condition, per quote-delimited region, per raw identifier sink, per Iden impl")

IDEN = "crate::types::Iden"
QUOTE = "crate::types::Quote"
QB_T = "crate::backend::QuotedBuilder"
BACKENDS = {
    "crate::backend::mysql::MysqlQueryBuilder": "mysql",
    "crate::backend::postgres::PostgresQueryBuilder": "postgres",
    "crate::backend::sqlite::SqliteQueryBuilder": "sqlite",
}


def load_unquoted():
    p = os.path.join(VERIF, "specs", "unquoted_idens.json")
    return {e["key"]: e["reason"] for e in json.load(open(p))["entries"]}


def quoted_by_interp(run, f, cfg, name, fn):
    """Iden::quoted interpreted on every name of length <= 2 over {letters, each dialect's quote characters, a multi-byte
    character} (length 3 over a letter and the quote characters) and each quote pair in use: the result is the name with every closing quote doubled - exactly what the
    engines un-double.  True when decided"""
    from itertools import product
    from ..interp import Interp, Opaque, Unsupported, Diverged, Var
    quotes = [('"', '"'), ("`", "`"), ("[", "]")]
    alphabet = ["a", "_", '"', "`", "[", "]", "'", "\u00e9"]
    bad, rows = [], 0
    try:
        for ql, qr in quotes:
            words = [t_ for n in (0, 1, 2) for t_ in product(alphabet, repeat=n)] + list(product(sorted(set(["a", ql, qr, "'"])), repeat=3))
            if True:
                for tup in words:
                    nm = "".join(tup)
                    it = Interp(f)
                    it.builtins = {IDEN + "::to_string": lambda it_, a, nm=nm: nm,
                                   "core::str::converts::from_utf8": lambda it_, a: ("Ok", bytes(a[0]).decode("utf-8")),
                                   "core::str::from_utf8": lambda it_, a: ("Ok", bytes(a[0]).decode("utf-8"))}
                    got = it.call_fn(name, [Opaque("self"), Var("crate::types::Quote", [ord(ql), ord(qr)])])
                    rows += 1
                    want = nm.replace(qr, qr + qr)
                    if got != want:
                        bad.append("quoted(%r, closing %r) = %r, expected %r" % (nm, qr, got, want))
    except (Unsupported, Diverged, UnicodeDecodeError) as e:
        run.notes.append("C04.R1 Iden::quoted outside the interpreter's fragment (%s): decided by its shape" % e)
        return False
    from .. import scope
    scope.check_bound(run, "C04.R1", "quoted:scope", f, [name], 3, cfg, "Iden::quoted (names of length <= 3)")
    ok = not bad
    msg = "" if ok else " - NOT: " + "; ".join(bad[:3])
    run.ob("C04.R1", "quoted:source", ok, "Iden::quoted (interpreted on %d (name, quote) rows) transforms the whole name%s" % (rows, msg), sp=fn["sp"], cfg=cfg)
    run.ob("C04.R1", "quoted:pattern", ok, "the replaced pattern is the closing quote byte q.1", sp=fn["sp"], cfg=cfg)
    run.ob("C04.R1", "quoted:doubling", ok, "every closing quote in the name is written twice, nothing else changes", sp=fn["sp"], cfg=cfg)
    run.ob("C04.R1", "quoted:single-replace", ok, "exactly one replacement is applied", sp=fn["sp"], cfg=cfg, trivial=True)
    return True


def check_quoted(run, f, cfg):
    name = IDEN + "::quoted"
    fn = f.fns.get(name)
    if fn is None:
        run.anchor("C04.R1", "quoted", "Iden::quoted default body not found", cfg)
        return
    if quoted_by_interp(run, f, cfg, name, fn):
        return check_quoted_rest(run, f, cfg)
    body = nhir(f, name)
    ps = [p for p in P.fn_paths(body) if p.out != "diverge"]
    if len(ps) != 1:
        run.anchor("C04.R1", "quoted", "Iden::quoted is not a single-path function", cfg)
        return
    p = ps[0]
    qn = fn["params"][1]["pat"].get("name")
    lets = {e["n"]["pat"].get("name"): e["n"]["init"] for e in p.events if e["ev"] == "let" and e["n"]["pat"].get("k") == "bind"}

    def origin(e, depth=0):
        """trace an expression to `q.1` through from_utf8(&[..]).unwrap(), arrays and lets: returns 'q.0' / 'q.1' / None"""
        e = H.peel_ref(e)
        if depth > 8 or not isinstance(e, dict):
            return None
        if e.get("k") == "local" and e["name"] in lets:
            return origin(lets[e["name"]], depth + 1)
        if e.get("k") == "field" and H.place(e) in (qn + ".0", qn + ".1"):
            return H.place(e).replace(qn, "q")
        if e.get("k") == "array" and len(e["es"]) == 1:
            return origin(e["es"][0], depth + 1)
        if e.get("k") == "mcall" and e["name"] in ("unwrap", "as_str", "as_ref", "to_string", "encode_utf8"):
            return origin(e["recv"], depth + 1)
        if e.get("k") == "call" and (e.get("callee") or "").rsplit("::", 1)[-1] in ("from_utf8", "from_utf8_unchecked", "from", "from_u32") and e["args"]:
            return origin(e["args"][0], depth + 1)
        if e.get("k") == "cast":
            return origin(e["e"], depth + 1)
        return None

    v = H.peel_ref(p.value)
    ok = isinstance(v, dict) and v.get("k") == "mcall" and v["name"] == "replace"
    detail = {}
    if ok:
        recv = H.peel_ref(v["recv"])
        src_ok = recv.get("k") == "mcall" and recv.get("callee") == IDEN + "::to_string" and H.place(recv["recv"]) == "self"
        pat_o = origin(v["args"][0])
        rep = H.peel_ref(v["args"][1])
        while rep.get("k") == "mcall" and rep["name"] in ("as_str", "as_ref"):
            rep = H.peel_ref(rep["recv"])
        rep_ok = rep.get("k") == "mcall" and rep["name"] == "repeat" and origin(rep["recv"]) == pat_o and \
            H.peel_ref(rep["args"][0]).get("k") == "lit" and H.peel_ref(rep["args"][0])["lit"]["v"] == 2
        detail = {"source": T.text(recv), "pattern": pat_o, "replacement": T.text(rep)}
        run.ob("C04.R1", "quoted:source", src_ok, "Iden::quoted transforms self.to_string() (the whole name)", sp=fn["sp"], cfg=cfg, detail=detail)
        run.ob("C04.R1", "quoted:pattern", pat_o == "q.1", "the replaced pattern is the closing quote byte q.1", sp=fn["sp"], cfg=cfg, detail=detail)
        run.ob("C04.R1", "quoted:doubling", rep_ok, "the replacement is that same quote repeated twice", sp=fn["sp"], cfg=cfg, detail=detail)
        others = [c for c in p.calls() if c.get("name") == "replace"]
        run.ob("C04.R1", "quoted:single-replace", len(others) == 1, "exactly one replacement is applied", sp=fn["sp"], cfg=cfg)
    else:
        run.ob("C04.R1", "quoted:shape", False, "Iden::quoted does not end in a str::replace of the name", sp=fn["sp"], cfg=cfg)
    check_quoted_rest(run, f, cfg)


def check_quoted_rest(run, f, cfg):
    # default prepare
    t = T.fn_tir(f, IDEN + "::prepare")
    sink = [s for s in t.sinks][0] if t.sinks else None
    s = T.project(t.effects, sink) if sink else ("seq", [])
    fl = [a for a in T.flat(s) if a != ("seq", [])]
    q2 = t.params[2][0] if len(t.params) > 2 else "q"
    ok = len(fl) == 3 and [a[0] for a in fl] == ["hole"] * 3 and [a[1] for a in fl] == ["QUOTE_L", "IDEN_QUOTED_BODY", "QUOTE_R"] and \
        fl[0][2]["what"] == q2 and fl[2][2]["what"] == q2 and fl[1][2]["what"] == "self" and fl[1][2]["quote"] == q2
    run.ob("C04.R1", "prepare:default", ok, "default Iden::prepare writes q.left() + self.quoted(q) + q.right()", sp=t.fn["sp"], cfg=cfg, detail=T.show(s))
    # Quote::left / right
    for nm, fld in ((QUOTE + "::left", "0"), (QUOTE + "::right", "1")):
        fn2 = f.fns.get(nm)
        ok = False
        if fn2:
            ps2 = P.fn_paths(fn2["hir"])
            if len(ps2) == 1:
                v2 = H.peel_ref(ps2[0].value)
                while isinstance(v2, dict) and (v2.get("k") == "cast" or (v2.get("k") == "call" and (v2.get("callee") or "").endswith("::from"))):
                    v2 = H.peel_ref(v2["e"] if v2.get("k") == "cast" else v2["args"][0])
                ok = H.place(v2) == "self." + fld
        run.ob("C04.R1", "Quote::" + nm.rsplit("::", 1)[-1], ok, "%s is the character of field %s" % (nm.rsplit("::", 2)[-2] + "::" + nm.rsplit("::", 1)[-1], fld), sp=fn2["sp"] if fn2 else None, cfg=cfg)
    # Iden::to_string default: unquoted into a fresh String
    t2 = T.fn_tir(f, IDEN + "::to_string")
    ok = False
    if len(t2.sinks) == 1:
        sname = list(t2.sinks)[0]
        s2 = [a for a in T.flat(T.project(t2.effects, sname)) if a != ("seq", [])]
        ok = len(s2) == 1 and s2[0][0] == "hole" and s2[0][1] == "IDEN_RAW" and s2[0][2]["what"] == "self"
        ps3 = P.fn_paths(nhir(f, IDEN + "::to_string"))
        ok = ok and len(ps3) == 1 and H.place(ps3[0].value) == sname
    run.ob("C04.R1", "to_string:default", ok, "default Iden::to_string is exactly the text written by unquoted()", sp=t2.fn["sp"], cfg=cfg)


def const_quote(f, cname):
    fn = f.fns.get(cname)
    if fn is None:
        return None
    v = H.peel_ref(fn["hir"])
    if v.get("k") == "call" and (v.get("callee") or "") == QUOTE and len(v["args"]) == 2:
        out = []
        for a in v["args"]:
            a = H.peel_ref(a)
            if a.get("k") == "lit" and a["lit"]["t"] in ("byte", "int"):
                out.append(chr(a["lit"]["v"]))
            else:
                return None
        return tuple(out)
    return None


def check_quotes(run, f, cfg):
    present = [a for a in BACKENDS if a in f.adts]
    for adt in present:
        d = BACKENDS[adt]
        qn = f.impl_fn(QB_T, adt, "quote")
        fn = f.fns.get(qn) if qn else None
        ok = False
        cdef = None
        if fn:
            ps = P.fn_paths(fn["hir"])
            if len(ps) == 1:
                v = H.peel_ref(ps[0].value)
                if v.get("k") == "path" and (v.get("dk") or "").startswith("Const"):
                    cdef = v["def"]
        val = const_quote(f, cdef) if cdef else None
        want = L.spec()[d]["identifier_quote"]
        ok = val is not None and val == (want, want) and L.spec()[d]["identifier_doubling"]
        run.ob("C04.R1", "quote:" + d, ok, "%s: quote() is the constant (%r, %r) = the dialect's identifier quote, which the engine un-doubles" % (d, want, want),
               sp=fn["sp"] if fn else None, cfg=cfg, detail={"const": cdef, "value": val})
    run.floor("C04.R1", "backends", len(present), 3 if cfg in ("default", "all") else 1, cfg)


def iden_derived(f, t, node, depth=0, seen=None):
    """does this string expression derive from the name of an identifier (Iden::to_string / Display of an Iden), directly
    or through locals of the function (`let (a, b) = name.split_at(i)`)"""
    if not isinstance(node, dict) or depth > 5:
        return False
    seen = seen if seen is not None else set()
    for n in walk(node):
        if n.get("k") in ("mcall", "call"):
            cal = n.get("callee") or ""
            rt = f.ty(n.get("recv_ty")) if n.get("recv_ty") is not None else ""
            if cal == IDEN + "::to_string" or (n.get("name") == "to_string" and ("dyn crate::types::Iden" in rt or rt.lstrip("&").startswith("crate::types::SeaRc<"))):
                return True
        if n.get("k") == "local" and n.get("name") not in seen:
            seen.add(n["name"])
            for l in walk(t.body):
                # every way the name can be bound: `let pat = init`, `if let pat = init` / `while let`, a match arm's pattern
                if l.get("k") in ("stmt_let", "let") and l.get("init") is not None and isinstance(l.get("pat"), dict) and \
                        any(b.get("k") == "bind" and b.get("name") == n["name"] for b in walk(l["pat"])):
                    if iden_derived(f, t, l["init"], depth + 1, seen):
                        return True
                if l.get("k") == "match" and isinstance(l.get("scrut"), dict):
                    for arm in l.get("arms") or []:
                        if any(b.get("k") == "bind" and b.get("name") == n["name"] for b in walk(arm.get("pat") or {})):
                            if iden_derived(f, t, l["scrut"], depth + 1, seen):
                                return True
    return False


def check_regions(run, f, cfg, unq):
    nfn = 0
    nreg = 0
    nprep = 0
    nraw = 0
    for name, t, err in T.sink_fns(f):
        if err is not None:
            run.anchor("C04.R2", "tir:%s" % name, "TIR extraction failed: %s" % err, cfg)
            continue
        nfn += 1
        short = name.rsplit("::", 1)[-1]
        for sink in t.sinks:
            s = T.project(t.effects, sink)
            inside = []
            opened = []

            def atom(st, a, inside=inside, opened=opened):
                if a[0] == "hole" and a[1] == "QUOTE_L":
                    if st:
                        inside.append(("nested-open", a))
                    opened.append(a)
                    return [True]
                if a[0] == "hole" and a[1] == "QUOTE_R":
                    if not st:
                        inside.append(("close-without-open", a))
                    return [False]
                if a[0] == "reset":
                    return [False]
                if st:
                    inside.append(("in", a))
                return [st]
            out = T.flow(s, frozenset([False]), atom)
            seen = set()
            for kind, a in inside:
                key = T.show(a)
                if (kind, key) in seen:
                    continue
                seen.add((kind, key))
                nreg += 1
                if kind != "in":
                    run.ob("C04.R2", "quote-structure:%s:%s" % (name, kind), False, "%s: %s of identifier quotes" % (short, kind), sp=a[3] if len(a) > 3 else None, cfg=cfg)
                    continue
                ok = False
                why = ""
                if a[0] == "lit":
                    ok = not any(ch in a[1] for ch in "`\"")
                    why = "a literal%s" % ("" if ok else " containing a quote character")
                elif a[0] == "hole" and a[1] == "IDEN_QUOTED_BODY":
                    ok = True
                    why = "Iden::quoted(%s)" % a[2].get("quote")
                else:
                    why = "raw run-time text (%s) - a quote character inside the name would end the identifier early" % (a[1] if a[0] == "hole" else a[0])
                run.ob("C04.R2", "region:%s:%s" % (name, key[:70]), ok, "%s: between identifier quotes stands %s: %s" % (short, key[:70], why),
                       sp=a[3] if len(a) > 3 else t.fn["sp"], cfg=cfg)
            if True in out:
                run.ob("C04.R2", "unclosed:%s" % name, False, "%s can end inside an open identifier quote" % short, sp=t.fn["sp"], cfg=cfg)
            # census of identifier holes
            for a in T.atoms(s):
                if a[0] == "hole" and a[1] == "IDEN_QUOTED":
                    nprep += 1
            # R3: raw identifiers outside quotes
            raws = []

            def atom2(st, a, raws=raws, t=t):
                if a[0] == "hole" and a[1] == "QUOTE_L":
                    return [True]
                if a[0] == "hole" and a[1] == "QUOTE_R":
                    return [False]
                if not st and a[0] == "hole" and a[1] in ("IDEN_RAW", "IDEN_DISPLAY"):
                    raws.append(a)
                elif not st and a[0] == "hole" and a[1] in ("STR", "UNKNOWN", "DISPLAY") and iden_derived(f, t, a[2].get("node") or a[2].get("of")):
                    # text cut out of / computed from an identifier's name (a slice, a split) written outside the quotes
                    raws.append(("hole", "IDEN_RAW", {"what": a[2].get("what", "")}, a[3] if len(a) > 3 else None))
                return [st]
            T.flow(s, frozenset([False]), atom2)
            seen2 = set()
            for a in raws:
                what = a[2].get("what", "")
                key = "%s:%s" % (name, what)
                if key in seen2:
                    continue
                seen2.add(key)
                nraw += 1
                if name in (IDEN + "::to_string", IDEN + "::quoted"):
                    continue        # the accessor and the encoder themselves: what `quoted` returns is decided by C04.R1
                run.ob("C04.R3", "raw-iden:%s" % key, key in unq,
                       "%s writes identifier `%s` without quoting: %s" % (short, what, unq.get(key, "NOT in the reviewed raw-by-contract table specs/unquoted_idens.json")),
                       sp=a[3], cfg=cfg)
    run.floor("C04.R2", "sink-fns", nfn, 150, cfg)
    run.floor("C04.R4", "Iden::prepare-sites", nprep, 45, cfg)   # 74 confirmed by hand on the unchanged tree; 60% site floor
    run.ob("C04.R4", "prepare-census", True, "%d IDEN_QUOTED holes (Iden::prepare call sites) and %d quote-delimited region members in %d writer functions" % (nprep, nreg, nfn), cfg=cfg)
    return nraw


def check_impls(run, f, cfg):
    n = 0
    for i in f.trait_impls(IDEN):
        n += 1
        extra = sorted(set(i["items"]) & {"prepare", "quoted"})
        run.ob("C04.R4", "impl:%s" % i["self_ty"], not extra,
               "impl Iden for %s does not override %s (the default doubling applies)" % (i["self_ty"], "prepare/quoted" if not extra else "/".join(extra)),
               sp=i["sp"], cfg=cfg)
    run.floor("C04.R4", "iden-impls", n, {"full": 4, "single": 2}, cfg)


def check_quoted_consumed(run, f, cfg):
    """R5: the text returned by Iden::quoted is already encoded.  Every call of it must be written out by the function that
    makes the call (as the body between identifier quotes - R2 checks those), or be that function's own return value (the
    function is then a source of encoded text itself and the rule applies to its callers).  Encoded text that is handed
    to another function or stored would be encoded a second time, or written without its quotes."""
    sources = {IDEN + "::quoted"}
    consumed = set()
    for name, t, err in T.sink_fns(f):
        if err is not None:
            continue
        for sink in t.sinks:
            for a in T.atoms(T.project(t.effects, sink)):
                if a[0] == "hole" and a[1] == "IDEN_QUOTED_BODY" and len(a) > 3:
                    consumed.add(a[3])
                if a[0] == "callv" and len(a) > 3:
                    consumed.add(("callv", a[1], a[3]))
    n = 0
    for _round in range(3):
        grew = False
        for name, fn in sorted(f.fns.items()):
            if fn.get("kind") != "fn" or fn.get("hir") is None or "::test" in name or name in sources:
                continue
            calls = [c for c in H.calls(fn["hir"]) if (c.get("callee") or "") in sources or (H.callee(c) or "") in sources]
            if not calls:
                continue
            # values the function returns
            rets = set()
            try:
                for p_ in P.fn_paths(fn["hir"]):
                    v = H.peel_ref(p_.value) if p_.value is not None else None
                    if isinstance(v, dict):
                        rets.add(id(v))
                        if v.get("k") == "local":
                            for l in walk(fn["hir"]):
                                if l.get("k") == "stmt_let" and l["pat"].get("k") == "bind" and l["pat"].get("name") == v["name"] and isinstance(l.get("init"), dict):
                                    rets.add(id(H.peel_ref(l["init"])))
            except Exception:
                pass
            # .. also when the encoded name is part of the text the function returns (`format!("{}{}{}", l, x.quoted(q), r)`)
            ret_sps = set()
            try:
                ct = T.fn_tir(f, name)
                for p_ in P.fn_paths(ct.body):
                    if p_.value is not None and T.is_stringy(T.strip_ref(f.ty(fn.get("ret")) or "")):
                        for a in T.atoms(ct.S(p_.value)):
                            if a[0] == "hole" and a[1] == "IDEN_QUOTED_BODY" and len(a) > 3:
                                ret_sps.add(a[3])
                            if a[0] == "callv" and len(a) > 3:
                                ret_sps.add(("callv", a[1], a[3]))
            except Exception:
                pass
            for c in calls:
                cal = c.get("callee") or ""
                if c.get("sp") in consumed or ("callv", cal, c.get("sp")) in consumed:
                    if _round == 0:
                        n += 1
                    continue
                if id(c) in rets or c.get("sp") in ret_sps or ("callv", cal, c.get("sp")) in ret_sps:
                    if name not in sources:
                        sources.add(name)
                        grew = True
                    continue
                if _round == 2 or not grew:
                    run.ob("C04.R5", "quoted-escapes:%s" % name, False,
                           "%s calls %s but neither writes the result out nor returns it: the already-encoded name is handed on (it would be "
                           "encoded again, or written without its quotes)" % (name.rsplit("::", 1)[-1], cal.rsplit("::", 1)[-1]), sp=c.get("sp"), cfg=cfg)
        if not grew:
            break
    run.ob("C04.R5", "quoted-census", True, "%d calls of Iden::quoted, each written out by the function that makes it" % n, cfg=cfg)
    run.floor("C04.R5", "quoted-calls", n, {"full": 10, "single": 5}, cfg)


def check(run):
    unq = load_unquoted()
    for cfg in run.tier_configs(["default", "all"], ["mysql", "postgres", "sqlite"]):
        f = run.facts(cfg)
        check_quoted(run, f, cfg)
        check_quotes(run, f, cfg)
        check_regions(run, f, cfg, unq)
        check_quoted_consumed(run, f, cfg)
        check_impls(run, f, cfg)
    run.trusted.append("specs/lexical.json: identifier quoting rules of MySQL (backtick, doubled), PostgreSQL and SQLite (double quote, doubled)")
    run.assumptions.append("derive-generated Iden impls (fast path in prepare) are decided under C19")
    run.assumptions.append("identifiers containing NUL are outside the engines' domain")
    run.delegate("C19", "identifiers of derived Iden types are written by the generated code that C19 decides")
