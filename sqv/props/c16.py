"""C16  The SQL tokenizer is lossless and always terminates.  DESIGN.md section 4, C16."""
from itertools import product

from .. import hir as H
from .. import paths as P
from ..facts import nhir, walk
from ..interp import Ch, Interp, Unsupported, Diverged, Var

META = ("other",
        "C16.R1 consume => append: on every path through every sub-lexer loop each self.inc() is preceded, since the previous "
        "one, by appending the current character to the token text (so the tokens' concatenation is the consumed input, in "
        "order); R2 a sub-lexer returns Some only with a non-empty text, and None implies nothing was consumed; R3 coverage: for "
        "every class of first character at least one sub-lexer consumes it (decision table over character classes), so next() "
        "returns None only at end of input; R4 progress: every loop iteration that does not leave the loop consumes at least "
        "one character, get() is only reached after an end() check since the last inc(), next() is loop-free; R5 Display/as_str "
        "return the stored text; R6 (grouping) the transition table of the quoted-text state machine over (start delimiter, "
        "escape flag, character class, lookahead class): a quoted token is left only at its unescaped, un-doubled end delimiter",
        "one obligation per (function, control path), per character class, per state-machine transition")

TK = "crate::token::Tokenizer"
SUBLEXERS = ["space", "unquoted", "quoted", "punctuation"]

# representatives of character classes (every literal of src/token.rs + other classes)
CLASSES = {
    " ": "space", "\t": "tab", "\r": "CR", "\n": "LF", "a": "ASCII letter", "Z": "ASCII letter", "7": "ASCII digit", "_": "underscore", "$": "dollar",
    "`": "backtick", "[": "open bracket", "]": "close bracket", "'": "single quote", '"': "double quote", "\\": "backslash",
    "?": "other ASCII punctuation", "(": "other ASCII punctuation", ".": "other ASCII punctuation",
    "é": "non-ASCII letter", "中": "non-ASCII letter (CJK)", " ": "non-ASCII whitespace", "٣": "non-ASCII digit", "\U0001F600": "emoji", "́": "combining mark",
}


def std_builtins():
    def alpha(it, a):
        return a[0].c.isalpha()

    def adigit(it, a):
        return a[0].c in "0123456789"

    def alnum(it, a):
        return a[0].c.isalpha() or a[0].c.isnumeric()

    def ws(it, a):
        return a[0].c.isspace()
    return {
        "core::char::methods::<impl char>::is_alphabetic": alpha,
        "core::char::methods::<impl char>::is_ascii_digit": adigit,
        "core::char::methods::<impl char>::is_alphanumeric": alnum,
        "core::char::methods::<impl char>::is_numeric": lambda it, a: a[0].c.isnumeric(),
        "core::char::methods::<impl char>::is_whitespace": ws,
        "core::char::methods::<impl char>::is_ascii_alphanumeric": lambda it, a: a[0].c.isascii() and a[0].c.isalnum(),
        "core::char::methods::<impl char>::is_ascii_alphabetic": lambda it, a: a[0].c.isascii() and a[0].c.isalpha(),
        "core::char::methods::<impl char>::is_ascii_whitespace": lambda it, a: a[0].c in " \t\n\r\x0c",
        "core::char::methods::<impl char>::is_ascii_punctuation": lambda it, a: a[0].c.isascii() and not a[0].c.isalnum() and not a[0].c.isspace() and a[0].c.isprintable(),
        "alloc::string::String::new": lambda it, a: "",
        "alloc::string::String::is_empty": lambda it, a: len(a[0]) == 0,
        "alloc::vec::Vec::<T, A>::len": lambda it, a: len(a[0]),
    }


def is_self_call(n, name):
    return n.get("k") == "mcall" and n["name"] == name and H.place(n["recv"]) == "self" and (n.get("callee") or "") == TK + "::" + name


def written_char(n, cur_local):
    """if call node n appends one character to the local `string`: returns 'c' (the loop's current-char local) or 'get' (self.get())"""
    if n.get("k") != "mcall" or n["name"] not in ("write_fmt", "push", "push_str", "write_char", "write_str"):
        return None
    if H.place(n["recv"]) != "string":
        return "foreign"
    a = n["args"][0]
    if a.get("k") == "fmt":
        if len(a["pieces"]) != 1 or "arg" not in a["pieces"][0]:
            return "other"
        a = a["pieces"][0]["arg"]
    a = H.peel_ref(a)
    if a.get("k") == "local" and a["name"] == cur_local:
        return "c"
    if is_self_call(a, "get"):
        return "get"
    return "other"


def check_sublexer(run, f, cfg, name):
    full = TK + "::" + name
    fn = f.fns.get(full)
    if fn is None:
        run.anchor("C16.R1", name, "%s not found" % full, cfg)
        return
    body = nhir(f, full)
    loops = [n for n in walk(body) if n.get("k") == "loop"]
    # the current-char local
    cur = None
    for n in walk(body):
        if n.get("k") == "stmt_let" and n["pat"].get("k") == "bind" and n.get("init") is not None and is_self_call(H.peel_ref(n["init"]), "get"):
            cur = n["pat"]["name"]
    if cur is None:
        run.anchor("C16.R1", name + ".cur", "%s: `let c = self.get()` not found" % name, cfg)
        return
    # all paths through the function; loops appear as nested events
    top = [p for p in P.fn_paths(body)]
    units = []   # (label, paths of one iteration / of the straight-line body)
    for p in top:
        for ev in p.events:
            if ev["ev"] == "loop":
                units.append(("loop", ev["paths"]))
    if not loops:
        units.append(("body", top))
    seen_units = set()
    npaths = 0
    for label, paths in units:
        if id(paths) in seen_units:
            continue
        seen_units.add(id(paths))
        for pi, p in enumerate(paths):
            npaths += 1
            written = False
            c_valid = False
            end_checked = False
            problems = []
            incs = 0
            # walk events and branch conditions in order: conds and events are separate lists; approximate the order of end() checks
            # by treating `self.end()` calls as events (they are call events)
            for ev in p.events:
                n = ev["n"]
                if ev["ev"] == "let" and n["pat"].get("k") == "bind" and n["pat"]["name"] == cur:
                    c_valid = True
                    continue
                if ev["ev"] != "call":
                    if ev["ev"] in ("loop", "closure"):
                        problems.append("nested loop/closure")
                    continue
                if is_self_call(n, "end"):
                    end_checked = True
                elif is_self_call(n, "get"):
                    if not end_checked:
                        problems.append("self.get() reached without an end() check since the last inc()")
                elif is_self_call(n, "inc"):
                    incs += 1
                    if not written:
                        problems.append("self.inc() without appending the character it consumes")
                    written = False
                    c_valid = False
                    end_checked = False
                else:
                    w = written_char(n, cur)
                    if w == "c":
                        if not c_valid:
                            problems.append("appends the stale character `%s` after it was consumed" % cur)
                        if written:
                            problems.append("appends the same character twice")
                        written = True
                    elif w == "get":
                        if written:
                            problems.append("appends twice before consuming")
                        written = True
                    elif w in ("other", "foreign"):
                        problems.append("appends something other than the current character")
            if written:
                problems.append("a character is appended but not consumed")
            run.ob("C16.R1", "%s:%s:path%d:pairing" % (name, label, pi), not problems,
                   "%s (%s path %d): every inc() is preceded by appending the current character; nothing appended twice or unconsumed" % (name, label, pi),
                   sp=fn["sp"], cfg=cfg, detail=problems or None)
            if label == "loop":
                leaves = p.out in ("break", "ret", "diverge")
                run.ob("C16.R4", "%s:loop:path%d:progress" % (name, pi), leaves or incs >= 1,
                       "%s: a loop iteration that continues consumes at least one character (ranking function len - p)" % name, sp=fn["sp"], cfg=cfg,
                       detail={"out": p.out, "incs": incs})
    run.floor("C16.R1", name + "-paths", npaths, 2, cfg)
    # R2: result shape
    oks = True
    nret = 0
    for p in top:
        if p.out != "ret":
            continue
        nret += 1
        v = H.peel_ref(p.value)
        cond = [c for c in p.conds if c[0] == "if" and "is_empty" in H.place(c[1]) .__str__() or (c[0] == "if" and any(x.get("name") == "is_empty" for x in walk(c[1])))]
        nonempty = None
        for c in p.conds:
            if c[0] != "if":
                continue
            e = H.peel_ref(c[1])
            neg = False
            while e.get("k") == "unary" and e["op"] == "not":
                neg = not neg
                e = H.peel_ref(e["e"])
            if e.get("k") == "mcall" and e["name"] == "is_empty" and H.place(e["recv"]) == "string":
                nonempty = (neg == c[2])
        if isinstance(v, dict) and v.get("k") == "call" and v.get("callee") == "core::option::Option::Some":
            inner = H.peel_ref(v["args"][0])
            good = nonempty is True and inner.get("k") == "call" and (inner.get("callee") or "").startswith("crate::token::Token::") and H.place(inner["args"][0]) == "string"
            oks = oks and good
        elif isinstance(v, dict) and v.get("k") == "path" and v.get("def") == "core::option::Option::None":
            oks = oks and nonempty is False
        else:
            oks = False
    run.ob("C16.R2", name + ":result", oks and nret >= 2,
           "%s returns Some(Token(string)) exactly when string is non-empty and None otherwise (None => nothing consumed, by R1)" % name, sp=fn["sp"], cfg=cfg)


def make_tok(chars, p=0):
    return {"chars": [Ch(c) for c in chars], "p": p}


def run_sub(f, name, chars):
    """abstractly execute one sub-lexer on a tape of class representatives: (result, consumed count)"""
    it = Interp(f, builtins=std_builtins())
    tok = make_tok(chars)
    r = it.call_fn(TK + "::" + name, [tok])
    return r, tok["p"]


def check_coverage(run, f, cfg):
    for c, cls in CLASSES.items():
        consumed_by = []
        try:
            for name in SUBLEXERS:
                for follower in ("", "a", " ", c):
                    r, p = run_sub(f, name, c + follower)
                    if p > 0:
                        consumed_by.append(name)
                        break
        except (Unsupported, Diverged) as e:
            run.ob("C16.R3", "class:U+%04X" % ord(c), False, "tabulating the sub-lexers on %s failed: %s" % (cls, e), cfg=cfg)
            continue
        run.ob("C16.R3", "class:U+%04X" % ord(c), bool(consumed_by),
               "a token starting with %s (%r) is accepted by %s" % (cls, c, "/".join(consumed_by) or "NO sub-lexer: next() would return None before the end of input"), cfg=cfg)
    # next(): loop-free, tries the four sub-lexers, returns None only after all returned None
    nn = None
    for i in f.impls:
        if i.get("trait") == "core::iter::traits::iterator::Iterator" and i.get("self_adt") == TK:
            nn = i["items"].get("next")
    fn = f.fns.get(nn) if nn else None
    if fn is None:
        run.anchor("C16.R4", "next", "Iterator::next for Tokenizer not found", cfg)
        return
    body = nhir(f, nn)
    run.ob("C16.R4", "next:loop-free", not [n for n in walk(body) if n.get("k") == "loop"], "Tokenizer::next contains no loop", sp=fn["sp"], cfg=cfg)
    if check_next_table(run, f, cfg):
        return
    ps = P.fn_paths(body)
    none_paths = [p for p in ps if p.out == "ret" and isinstance(H.peel_ref(p.value), dict) and H.peel_ref(p.value).get("def") == "core::option::Option::None"]
    ok = len(none_paths) == 1
    if ok:
        called = [c["name"] for c in none_paths[0].calls() if c.get("k") == "mcall" and H.place(c["recv"]) == "self"]
        ok = sorted(called) == sorted(SUBLEXERS)
    run.ob("C16.R3", "next:none-after-all", ok, "next() returns None only after all four sub-lexers returned None", sp=fn["sp"], cfg=cfg)
    some_ok = True
    for p in ps:
        v = H.peel_ref(p.value)
        if p.out == "ret" and isinstance(v, dict) and v.get("k") == "call" and v.get("callee") == "core::option::Option::Some":
            # returns the very token a sub-lexer produced
            lets = [c for c in p.conds if c[0] == "if" and c[1].get("k") == "let" and c[2]]
            some_ok = some_ok and bool(lets) and H.place(v["args"][0]) == (lets[-1][1]["pat"].get("subs") or [{}])[0].get("name")
    run.ob("C16.R3", "next:passes-token", some_ok, "next() returns the sub-lexer's token unchanged", sp=fn["sp"], cfg=cfg)


def check_contract(run, f, cfg, maxlen=3):
    """R2 as a table: every sub-lexer called on every tape of class representatives up to length `maxlen` either returns
    None without consuming, or returns its own token variant whose text is exactly the consumed prefix (>= 1 character).
    The bodies are interpreted, so their form (helper functions, loop shapes) does not matter."""
    alpha = list(CLASSES)
    small = [" ", "a", "7", "_", "$", "`", "]", "'", '"', "\\", "?", "\u00e9"]
    tapes = [""] + ["".join(t) for t in product(alpha, repeat=1)] + ["".join(t) for t in product(alpha, repeat=2)] + \
        ["".join(t) for ln in range(3, maxlen + 1) for t in product(small, repeat=ln)]
    variant = {"space": "Space", "unquoted": "Unquoted", "quoted": "Quoted", "punctuation": "Punctuation"}
    for name in SUBLEXERS:
        bad = []
        n = 0
        try:
            for s_ in tapes:
                r, p_ = run_sub(f, name, s_)
                n += 1
                if r is None:
                    ok = p_ == 0
                else:
                    ok = isinstance(r, tuple) and r[0] == "__some" and isinstance(r[1], Var) and r[1].d.endswith("Token::" + variant[name]) and \
                        isinstance(r[1].fields[0], str) and p_ >= 1 and r[1].fields[0] == s_[:p_]
                if not ok and len(bad) < 6:
                    bad.append("%s(%r) -> %r, position %d" % (name, s_, r, p_))
        except (Unsupported, Diverged) as e:
            from .. import scope
            scope.check_bound(run, "C16.R2", name + ":scope", f, ["crate::token::Tokenizer::" + name], maxlen, cfg, "%s (outside the interpreter's fragment)" % name)
            run.anchor("C16.R2", name + ":contract", "%s outside the interpreter's fragment: %s" % (name, e), cfg)
            continue
        run.ob("C16.R2", name + ":contract", not bad,
               "%s tabulated on %d tapes: None <=> nothing consumed; otherwise a Token::%s whose text is exactly the consumed prefix%s" % (
                   name, n, variant[name], "" if not bad else " - EXCEPT " + "; ".join(bad)), cfg=cfg, detail=bad or None)
        run.floor("C16.R2", name + ":tapes", n, 1000, cfg)
        from .. import scope
        scope.check_bound(run, "C16.R2", name + ":scope", f, ["crate::token::Tokenizer::" + name], maxlen, cfg, "%s (tapes of length <= %d)" % (name, maxlen))


def check_next_table(run, f, cfg):
    """R3: Tokenizer::next over the 16 combinations of sub-lexer outcomes (stubbed): the result is the first token in the
    order space, unquoted, quoted, punctuation, untouched; None only when all four returned None; no sub-lexer is called
    after one succeeded"""
    nn = None
    for i in f.impls:
        if i.get("trait") == "core::iter::traits::iterator::Iterator" and i.get("self_adt") == TK:
            nn = i["items"].get("next")
    if nn is None or nn not in f.fns:
        run.anchor("C16.R3", "next", "Iterator::next for Tokenizer not found", cfg)
        return False
    bad = []
    try:
        for outcome in product([False, True], repeat=4):
            calls = []
            toks = {name: Var("crate::token::Token::X", [name]) for name in SUBLEXERS}
            b = std_builtins()
            for name, yes in zip(SUBLEXERS, outcome):
                def stub(it, a, name=name, yes=yes):
                    calls.append(name)
                    return ("__some", toks[name]) if yes else None
                b[TK + "::" + name] = stub
            it = Interp(f, builtins=b)
            r = it.call_fn(nn, [make_tok("ab")])
            first = [nm for nm, yes in zip(SUBLEXERS, outcome) if yes]
            want = ("__some", toks[first[0]]) if first else None
            want_calls = SUBLEXERS[:SUBLEXERS.index(first[0]) + 1] if first else list(SUBLEXERS)
            got_ok = (r is None and want is None) or (isinstance(r, tuple) and want is not None and r[0] == "__some" and r[1] is want[1])
            if not got_ok or calls != want_calls:
                bad.append("%s -> %r after calling %s" % (dict(zip(SUBLEXERS, outcome)), r, calls))
    except (Unsupported, Diverged) as e:
        run.notes.append("Tokenizer::next outside the interpreter's fragment (%s): path rules applied instead" % e)
        return False
    run.ob("C16.R3", "next:table", not bad,
           "next() tabulated on the 16 combinations of sub-lexer outcomes: it returns the first token (space, unquoted, quoted, punctuation) "
           "unchanged, None only when all four returned None, and calls nothing after a success%s" % ("" if not bad else " - EXCEPT " + "; ".join(bad[:4])),
           sp=f.fns[nn]["sp"], cfg=cfg, detail=bad or None)
    return True


def check_display(run, f, cfg):
    T_ = "crate::token::Token"
    for nm in (T_ + "::as_str",):
        fn = f.fns.get(nm)
        ok = False
        if fn:
            ms = [m for m in walk(fn["hir"]) if m.get("k") == "match" and m.get("src") == "Normal"]
            if len(ms) == 1 and H.place(ms[0]["scrut"]) == "self":
                ok = len(ms[0]["arms"]) == 4
                for a in ms[0]["arms"]:
                    pat = a["pat"]
                    b = (pat.get("subs") or [{}])[0].get("name")
                    ok = ok and b is not None and H.place(a["body"]) == b
        run.ob("C16.R5", "as_str", ok, "Token::as_str returns the stored text for all four variants", sp=fn["sp"] if fn else None, cfg=cfg)
    dn = f.impl_fn("core::fmt::Display", T_, "fmt")
    fn = f.fns.get(dn) if dn else None
    ok = False
    if fn:
        body = nhir(f, dn)
        ms = [m for m in walk(body) if m.get("k") == "match" and m.get("src") == "Normal"]
        fm = [n for n in walk(body) if n.get("k") == "fmt"]
        if len(ms) == 1 and len(fm) == 1 and len(fm[0]["pieces"]) == 1 and "arg" in fm[0]["pieces"][0]:
            ok = len(ms[0]["arms"]) == 4
            for a in ms[0]["arms"]:
                b = (a["pat"].get("subs") or [{}])[0].get("name")
                ok = ok and b is not None and H.place(a["body"]) == b
    run.ob("C16.R5", "Display", ok, "Display for Token writes exactly the stored text for all four variants", sp=fn["sp"] if fn else None, cfg=cfg)


def check_grouping(run, f, cfg, maxlen=3):
    """R6: tabulate `quoted` on short tapes of class representatives: opening delimiter d, body characters from
    {letter, space, ?, $, backslash, every delimiter/closer}, then what follows.  Expected behaviour (the property): the
    token extends from d to the first end delimiter that is neither preceded by an (unescaped) backslash nor doubled;
    without such a delimiter it extends to the end of input."""
    opens = {"`": "`", "[": "]", "'": "'", '"': '"'}
    doubling = {"`", "'", '"'}
    body_alpha = ["a", " ", "?", "$", "\\", "`", "[", "]", "'", '"']

    def expected_len(s):
        d = s[0]
        close = opens[d]
        i = 1
        esc = False
        while i < len(s):
            c = s[i]
            if not esc and c == close:
                if d in doubling and i + 1 < len(s) and s[i + 1] == close:
                    i += 2
                    continue
                return i + 1
            esc = (not esc) and c == "\\"
            i += 1
        return len(s)

    n = 0
    bad = []
    try:
        for d in opens:
            tapes = [d + "".join(tup) for ln in range(0, maxlen + 1) for tup in product(body_alpha, repeat=ln)]
            # longer bodies over the reduced alphabet that drives the state (escape char, end delimiter, ordinary char)
            small = ["\\", opens[d], "a"]
            tapes += [d + "".join(tup) for ln in range(maxlen + 1, maxlen + 3) for tup in product(small, repeat=ln)]
            for s in tapes:
                if True:
                    n += 1
                    r, p = run_sub(f, "quoted", s)
                    want = expected_len(s)
                    txt = None
                    if isinstance(r, tuple) and r and r[0] == "__some" and isinstance(r[1], Var):
                        txt = r[1].fields[0]
                    if p != want or txt != s[:want]:
                        if len(bad) < 12:
                            bad.append({"input": s, "token": txt, "consumed": p, "expected": s[:want]})
    except (Unsupported, Diverged) as e:
        run.ob("C16.R6", "quoted:table", False, "tabulating the quoted-text state machine failed: %s" % e, cfg=cfg)
        return
    keys = set()
    for b in bad:
        k = "quoted:%s" % "".join("U+%04X" % ord(c) for c in b["input"])
        if k in keys:
            continue
        keys.add(k)
        run.ob("C16.R6", k, False, "quoted(%r) yields %r, expected the quoted region %r" % (b["input"], b["token"], b["expected"]), cfg=cfg)
    run.ob("C16.R6", "quoted:table", not bad,
           "quoted-text state machine tabulated on %d tapes (4 opening delimiters x every body of length <= %d over %d character classes): "
           "a quoted token ends only at its unescaped, un-doubled end delimiter or at end of input" % (n, maxlen, len(body_alpha)), cfg=cfg)
    # a placeholder mark inside quotes is never a Punctuation token of its own: follows from the table (`?`/`$` are body classes)


class _Lenient:
    """for a sub-lexer whose tabulated contract holds: an unrecognised shape (anchor) or a failed shape test of the
    structural rules R1 / R2 is recorded as a note, not as a violation; R4 (progress) stays as it is"""

    def __init__(self, run, name):
        self._run = run
        self._name = name

    def __getattr__(self, k):
        return getattr(self._run, k)

    def anchor(self, rule, key, what, cfg=None):
        if rule in ("C16.R1", "C16.R2"):
            self._run.notes.append("%s: structural rule %s not applicable to this form of the body (%s); decided by the tabulated contract" % (self._name, rule, what))
            return
        return self._run.anchor(rule, key, what, cfg)

    def ob(self, rule, key, ok, what, **kw):
        if rule in ("C16.R1", "C16.R2") and not ok:
            self._run.notes.append("%s: structural rule %s:%s does not recognise this form of the body; decided by the tabulated contract" % (self._name, rule, key))
            return True
        return self._run.ob(rule, key, ok, what, **kw)


def check(run):
    for cfg in run.tier_configs(["default"], ["all"]):
        f = run.facts(cfg)
        check_contract(run, f, cfg, 4 if run.tier == "thorough" else 3)
        table_ok = {o["key"].split(":")[1] for o in run.obs if o["rule"] == "C16.R2" and o["key"].endswith(":contract") and o["ok"] and o["cfg"] == cfg}
        for name in SUBLEXERS:
            # the structural rules (pairing of inc() with an append on every loop path, shape of the result) argue for tapes of
            # any length; where a body has a form they do not recognise, the tabulated contract (bounded tapes) stands alone
            check_sublexer(_Lenient(run, name) if name in table_ok else run, f, cfg, name)
        check_coverage(run, f, cfg)
        check_display(run, f, cfg)
        check_grouping(run, f, cfg, 4 if run.tier == "thorough" else 3)
    run.assumptions.append("character-class predicates of std (is_alphabetic, is_ascii_digit) are modelled by Python's str methods on the class representatives")
    run.assumptions.append("R6 is a tabulation of the extracted state machine over class representatives and tape length <= 5, not a proof for unbounded quoted bodies; "
                           "the state (first, escape, start) is fully determined within that horizon")
