"""C12  Rust values survive the trip through Value unchanged.  DESIGN.md section 4, C12.  Config `all`."""
import re

from .. import hir as H
from .. import paths as P
from ..facts import walk

META = ("other",
        "By symbolic interpretation (the shape rules below decide what lies outside the interpreter's fragment): per supported "
        "type T, From<T>::from on a symbolic atom x gives a Value variant holding Some(x), Nullable::null the None of the same "
        "variant, ValueType::try_from gives back Ok(x) and refuses the NULL and the Some of every other variant (2 probes per "
        "variant); conversions between owned/borrowed forms (COPY_CONVERSIONS), reviewed foreign adapters (TRUSTED) and the "
        "per-element conversions of a generic T are the identity, any other call on the payload is outside the fragment; "
        "Option<T>, tuples of arity 1..12 (with refusal of other arities) and ValueTuple::into_iter likewise.  "
        "C12.R1 variant pairing per supported type T: From<T> constructs variant V with Some(payload), Nullable::null is V(None), "
        "ValueType::try_from has exactly one Ok arm on V(Some(x)) and Err otherwise, array_type names the ArrayType of the same "
        "name; R2 payload identity: only identity-preserving steps (move, Box::new, deref, owned-copy conversions) or a reviewed "
        "foreign conversion between the argument and the payload and back; R3 Option<T> maps None to T::null() and extracts None "
        "exactly for T::null(); R4 tuples of arity 1..12 are built and extracted component-wise in index order, ValueTuple "
        "iterates in order; R5 as_null/dummy_value are diagonal over all variants; R6 Vec<T> <-> Array(T::array_type(), ..) with "
        "the array_type guard",
        "one obligation per (type, impl item), per tuple arity, per Value variant")

V = "crate::value::Value"
NULLABLE = "crate::value::Nullable"
VALUETYPE = "crate::value::ValueType"

# identity-preserving steps (resolved callee def paths)
IDENTITY_CALLS = {
    "alloc::boxed::Box::<T>::new": "Box::new moves the value to the heap",
    "core::option::Option::Some": "Some wraps",
    "core::result::Result::Ok": "Ok wraps",
}
# owned-copy conversions: the result has the same contents as the argument
COPY_CONVERSIONS = {
    ("&str", "alloc::string::String"): "String from &str copies the text",
    ("&alloc::string::String", "alloc::string::String"): "String from &String clones the text",
    ("&[u8]", "alloc::vec::Vec<u8>"): "Vec<u8> from &[u8] copies the bytes",
    ("alloc::string::String", "alloc::borrow::Cow<'_, str>"): "Cow::Owned(String)",
}
# reviewed foreign conversions, one line of reason each
TRUSTED = {
    "uuid::fmt::Braced::into_uuid": "uuid adapter -> the Uuid it wraps",
    "uuid::fmt::Hyphenated::into_uuid": "uuid adapter -> the Uuid it wraps",
    "uuid::fmt::Simple::into_uuid": "uuid adapter -> the Uuid it wraps",
    "uuid::fmt::Urn::into_uuid": "uuid adapter -> the Uuid it wraps",
    "uuid::fmt::<impl uuid::Uuid>::braced": "Uuid -> formatting adapter of the same Uuid",
    "uuid::fmt::<impl uuid::Uuid>::hyphenated": "Uuid -> formatting adapter of the same Uuid",
    "uuid::fmt::<impl uuid::Uuid>::simple": "Uuid -> formatting adapter of the same Uuid",
    "uuid::fmt::<impl uuid::Uuid>::urn": "Uuid -> formatting adapter of the same Uuid",
    "chrono::datetime::DateTime::<Tz>::from_naive_utc_and_offset": "rebuilds the same instant with the fixed offset",
    "chrono::datetime::DateTime::<Tz>::naive_utc": "the instant of the DateTime",
    "chrono::datetime::DateTime::<Tz>::offset": "the offset of the DateTime",
    "chrono::offset::Offset::fix": "FixedOffset of an offset",
    "alloc::borrow::Cow::<'_, B>::into_owned": "owned copy of the same text",
}


UNWRAPS = (V + "::unwrap", VALUETYPE + "::unwrap")


def check_unwrap_helpers(run, f, cfg):
    """Value::unwrap::<T>(self) is T::unwrap(self); ValueType::unwrap(v) is Self::try_from(v).unwrap()"""
    fn = f.fns.get(V + "::unwrap")
    ok = False
    if fn:
        v, ps = single_value(fn)
        ok = isinstance(v, dict) and v.get("k") == "call" and v.get("callee") == VALUETYPE + "::unwrap" and [H.place(a) for a in v["args"]] == ["self"]
    run.ob("C12.R4", "Value::unwrap", ok, "Value::unwrap::<T>(self) is exactly T::unwrap(self)", sp=fn["sp"] if fn else None, cfg=cfg)
    fn = f.fns.get(VALUETYPE + "::unwrap")
    ok = False
    if fn:
        v, ps = single_value(fn)
        p0 = fn["params"][0]["pat"].get("name")
        if isinstance(v, dict) and v.get("k") == "mcall" and v["name"] == "unwrap" and (v.get("callee") or "").startswith("core::result::Result"):
            r = H.peel_ref(v["recv"])
            ok = r.get("k") == "call" and r.get("callee") == VALUETYPE + "::try_from" and [H.place(a) for a in r["args"]] == [p0]
    run.ob("C12.R4", "ValueType::unwrap", ok, "ValueType::unwrap(v) is exactly Self::try_from(v).unwrap()", sp=fn["sp"] if fn else None, cfg=cfg)


def single_value(fn):
    ps = [p for p in P.fn_paths(fn["hir"]) if p.out != "diverge"]
    if len(ps) != 1:
        return None, ps
    return H.peel_ref(ps[0].value), ps


def ctor_of(e):
    """(variant def, args) when e is `Value::V(args..)`"""
    e = H.peel_ref(e)
    if isinstance(e, dict) and e.get("k") == "call" and (e.get("dk") or "").startswith("Ctor") and (e.get("callee") or "").startswith(V + "::"):
        return e["callee"], e["args"]
    return None, None


def is_none(e):
    e = H.peel_ref(e)
    return isinstance(e, dict) and e.get("k") == "path" and e.get("def") == "core::option::Option::None"


def some_arg(e):
    e = H.peel_ref(e)
    if isinstance(e, dict) and e.get("k") == "call" and e.get("callee") == "core::option::Option::Some":
        return e["args"][0]
    return None


def pat_value_some(pat):
    """for pattern `Value::V(Some(x))` return (variant def, binding name)"""
    if pat.get("k") != "variant" or not (pat["path"].get("def") or "").startswith(V + "::"):
        return None, None
    subs = pat.get("subs") or []
    if len(subs) != 1:
        return pat["path"]["def"], None
    s = subs[0]
    if s.get("k") == "variant" and s["path"].get("def") == "core::option::Option::Some" and len(s.get("subs") or []) == 1 and s["subs"][0].get("k") == "bind":
        return pat["path"]["def"], s["subs"][0]["name"]
    return pat["path"]["def"], None


def payload_steps(f, e, root_name, allow_types=True):
    """walk from payload expression e down to the root binding; return (ok, [steps], problems)"""
    steps = []
    problems = []
    cur = e
    for _ in range(12):
        cur = H.peel_ref(cur)
        if not isinstance(cur, dict):
            problems.append("not an expression")
            break
        k = cur.get("k")
        if k == "local":
            if cur["name"] != root_name:
                problems.append("payload comes from `%s`, not from `%s`" % (cur["name"], root_name))
            return (not problems, steps, problems)
        if k == "cast":
            problems.append("`as` cast on the payload (%s)" % f.ty(cur.get("from")))
            cur = cur["e"]
            continue
        if k == "call":
            c = H.callee(cur) or ""
            if c in IDENTITY_CALLS or c in TRUSTED:
                steps.append(c)
                # follow the first argument that leads to the root
                cur = cur["args"][0] if cur["args"] else None
                continue
            if c == "alloc::boxed::Box::<T>::new" or c.startswith("alloc::boxed::Box::<"):
                steps.append(c)
                cur = cur["args"][0]
                continue
            problems.append("call %s on the payload path" % c)
            return (False, steps, problems)
        if k == "mcall":
            c = H.callee(cur) or ""
            name = cur["name"]
            if c in TRUSTED:
                steps.append(c)
                cur = cur["recv"]
                continue
            if name in ("into", "to_owned", "to_string", "into_owned", "clone", "to_vec"):
                src = f.ty(cur.get("recv_ty")) or ""
                dst = f.ty(cur.get("ty")) or ""
                key = (src, dst)
                if key in COPY_CONVERSIONS or src == dst or (c in TRUSTED):
                    steps.append("%s: %s -> %s" % (name, src, dst))
                    cur = cur["recv"]
                    continue
                if name == "clone" and src.lstrip("&") == dst:
                    steps.append("clone")
                    cur = cur["recv"]
                    continue
                problems.append("conversion %s: %s -> %s is not in the identity-preserving table" % (name, src, dst))
                return (False, steps, problems)
            problems.append("method %s (%s) on the payload path" % (name, c))
            return (False, steps, problems)
        if k == "unary" and cur.get("op") in ("neg", "not"):
            problems.append("arithmetic/logic on the payload")
            return (False, steps, problems)
        if k == "binary":
            problems.append("arithmetic on the payload")
            return (False, steps, problems)
        if k == "block":
            # let string: String = x.into(); ... -> follow single let chains
            lets = [s for s in cur.get("stmts") or [] if s.get("k") == "stmt_let"]
            tail = cur.get("expr")
            if tail is None:
                problems.append("block without value")
                return (False, steps, problems)
            cur = tail
            continue
        problems.append("unsupported payload expression kind %s" % k)
        return (False, steps, problems)
    return (False, steps, problems or ["payload path too long"])


def resolve_local_lets(fn_hir):
    """name -> init expr for simple `let name = init;` statements (used to look through one renaming)"""
    out = {}
    for n in walk(fn_hir):
        if n.get("k") == "stmt_let" and n["pat"].get("k") == "bind" and n.get("init") is not None:
            out[n["pat"]["name"]] = n["init"]
    return out


def follow(f, e, lets, root, depth=0):
    """payload_steps, looking through local lets"""
    ok, steps, problems = payload_steps(f, e, root)
    if ok or depth > 3:
        return ok, steps, problems
    # did we stop at a local that is let-bound?
    m = re.match(r"payload comes from `(\w+)`", problems[0]) if problems else None
    if m and m.group(1) in lets:
        ok2, s2, p2 = follow(f, lets[m.group(1)], lets, root, depth + 1)
        return ok2, steps + s2, p2
    return ok, steps, problems


FROMS = {}
DELEGATED = {}


def check_type(run, f, cfg, tname, from_fn, null_fn, vt_impl):
    short = tname
    key = re.sub(r"[^A-Za-z0-9_<>&\[\]:]", "", tname)
    vfrom = None
    # From<T>
    if from_fn:
        fn = f.fns[from_fn]
        v, ps = single_value(fn)
        var, args = ctor_of(v) if v is not None else (None, None)
        param = fn["params"][0]["pat"].get("name")
        ok = var is not None
        payload = None
        if not ok and isinstance(v, dict) and v.get("k") == "mcall" and v["name"] == "into" and f.ty(v.get("ty")) == V:
            # delegation: `<owned copy of x>.into()` through another From<U> for Value of this table
            u = (f.ty(v.get("recv_ty")) or "")
            good, steps, problems = follow(f, v["recv"], {}, param)
            run.ob("C12.R1", "from:%s" % key, u in FROMS.get(id(f), {}) and good,
                   "From<%s> delegates to From<%s> for Value with an owned copy of its argument" % (short, u), sp=fn["sp"], cfg=cfg, detail=problems or None)
            vfrom = DELEGATED.setdefault(id(f), {}).get(u)
            from_fn = None
            ok = False
        elif tname == "alloc::vec::Vec<T>" and ok:
            # Value::Array(T::array_type(), Some(Box::new(x.into_iter().map(|e| e.into()).collect())))
            a0 = H.peel_ref(args[0])
            inner = some_arg(args[-1])
            names = [c.get("name") or (c.get("callee") or "").rsplit("::", 1)[-1] for c in H.calls(inner)] if inner is not None else []
            root = [H.place(c["recv"]) for c in H.calls(inner) if c.get("name") == "into_iter"] if inner is not None else []
            run.ob("C12.R6", "vec:from", a0.get("callee") == VALUETYPE + "::array_type" and sorted(names) == sorted(["into_iter", "map", "into", "collect", "new"]) and root == [param],
                   "From<Vec<T>> builds Array(T::array_type(), Some(Box::new(<every element, in order>.into())))", sp=fn["sp"], cfg=cfg, detail=names)
            vfrom = var
            ok = False
        elif ok:
            # Value::V(Some(payload)) or Value::Array(ty, Some(payload))
            payload = some_arg(args[-1])
            ok = payload is not None
        if from_fn and tname != "alloc::vec::Vec<T>":
            run.ob("C12.R1", "from:%s" % key, ok, "From<%s> for Value constructs one variant with Some(payload)" % short, sp=fn["sp"], cfg=cfg, detail=var)
        if ok:
            vfrom = var
            DELEGATED.setdefault(id(f), {})[tname] = var
            lets = resolve_local_lets(fn["hir"])
            good, steps, problems = follow(f, payload, lets, param)
            run.ob("C12.R2", "from-payload:%s" % key, good,
                   "From<%s>: the payload is the argument itself up to identity-preserving steps (%s)" % (short, ", ".join(s.rsplit("::", 1)[-1] for s in steps) or "move"),
                   sp=fn["sp"], cfg=cfg, detail=problems or None)
    # Nullable
    if null_fn:
        fn = f.fns[null_fn]
        v, ps = single_value(fn)
        var, args = ctor_of(v) if v is not None else (None, None)
        ok = var is not None and is_none(args[-1])
        run.ob("C12.R1", "null:%s" % key, ok and (vfrom is None or var == vfrom),
               "Nullable for %s is the None of the same variant as From<%s> (%s)" % (short, short, (var or "?").rsplit("::", 1)[-1]), sp=fn["sp"], cfg=cfg,
               detail={"null": var, "from": vfrom})
        if vfrom is None:
            vfrom = var
    # ValueType
    if vt_impl:
        tf = vt_impl["items"].get("try_from")
        fn = f.fns.get(tf)
        if fn is None:
            run.anchor("C12.R1", "try_from:%s" % key, "ValueType::try_from for %s not found" % short, cfg)
            return
        ms = [n for n in walk(fn["hir"]) if n.get("k") == "match" and n.get("src") == "Normal"]
        param = fn["params"][0]["pat"].get("name")
        if len(ms) != 1 or H.place(ms[0]["scrut"]) != param:
            run.anchor("C12.R1", "try_from:%s" % key, "ValueType::try_from for %s is not a single match on its argument" % short, cfg)
            return
        oks = []
        errs = 0
        bad = []
        for arm in ms[0]["arms"]:
            b = H.peel_ref(arm["body"])
            if isinstance(b, dict) and b.get("k") == "call" and b.get("callee") == "core::result::Result::Ok":
                oks.append(arm)
            elif isinstance(b, dict) and b.get("k") == "call" and b.get("callee") == "core::result::Result::Err":
                errs += 1
            else:
                bad.append(arm)
        ok = len(oks) == 1 and errs >= 1 and not bad
        var = bind = None
        if ok:
            pat = oks[0]["pat"]
            if pat.get("k") == "variant" and len(pat.get("subs") or []) == 2:
                # Value::Array(ty, Some(v)) if T::array_type() == ty
                var = pat["path"].get("def")
                s = pat["subs"][1]
                if s.get("k") == "variant" and s["path"].get("def") == "core::option::Option::Some" and s["subs"][0].get("k") == "bind":
                    bind = s["subs"][0]["name"]
            else:
                var, bind = pat_value_some(pat)
            ok = var is not None and bind is not None
        run.ob("C12.R1", "try_from:%s" % key, ok and (vfrom is None or var == vfrom),
               "ValueType::try_from for %s accepts exactly the variant %s with Some(..) and fails otherwise" % (short, (vfrom or var or "?").rsplit("::", 1)[-1]),
               sp=fn["sp"], cfg=cfg, detail={"accepts": var, "from": vfrom, "ok_arms": len(oks), "err_arms": errs})
        if ok:
            okv = H.peel_ref(oks[0]["body"])["args"][0]
            if tname == "alloc::vec::Vec<T>":
                # v.into_iter().map(|e| e.unwrap()).collect() -- element-wise through ValueType::unwrap, guarded by array_type
                g = oks[0].get("guard")
                gok = isinstance(g, dict) and g.get("k") == "binary" and g["op"] == "==" and \
                    any((H.peel_ref(x).get("callee") or "").endswith("ValueType::array_type") for x in (g["l"], g["r"]))
                run.ob("C12.R6", "vec:guard", gok, "Vec<T>::try_from accepts an Array only when its element type equals T::array_type()", sp=oks[0]["sp"], cfg=cfg)
                names = [c.get("name") or (c.get("callee") or "").rsplit("::", 1)[-1] for c in H.calls(okv)]
                run.ob("C12.R6", "vec:elements", sorted(names) == ["collect", "into_iter", "map", "unwrap"],
                       "Vec<T>::try_from extracts every element in order through ValueType::unwrap", sp=oks[0]["sp"], cfg=cfg, detail=names)
            else:
                good, steps, problems = follow(f, okv, {}, bind)
                run.ob("C12.R2", "try_from-payload:%s" % key, good,
                       "try_from for %s returns the stored payload up to identity-preserving steps (%s)" % (short, ", ".join(s.rsplit("::", 1)[-1] for s in steps) or "move/deref"),
                       sp=fn["sp"], cfg=cfg, detail=problems or None)
        check_array_type(run, f, cfg, tname, vt_impl, vfrom)


def check_array_type(run, f, cfg, tname, vt_impl, vfrom):
    short = tname
    key = re.sub(r"[^A-Za-z0-9_<>&\[\]:]", "", tname)
    if vt_impl:
        at = vt_impl["items"].get("array_type")
        afn = f.fns.get(at)
        if afn is not None and vfrom is not None:
            v, ps = single_value(afn)
            if v is None and not ps:
                run.ob("C12.R1", "array_type:%s" % key, True, "array_type for %s diverges (no array form)" % short, sp=afn["sp"], cfg=cfg, trivial=True)
            elif isinstance(v, dict) and v.get("k") == "path" and (v.get("def") or "").startswith("crate::value::ArrayType::"):
                run.ob("C12.R1", "array_type:%s" % key, v["def"].rsplit("::", 1)[-1] == vfrom.rsplit("::", 1)[-1],
                       "array_type for %s is ArrayType::%s (same name as the Value variant)" % (short, vfrom.rsplit("::", 1)[-1]), sp=afn["sp"], cfg=cfg, detail=v["def"])
            elif isinstance(v, dict) and v.get("k") == "call" and (v.get("callee") or "").endswith("ValueType::array_type"):
                run.ob("C12.R1", "array_type:%s" % key, True, "array_type for %s delegates to the element type" % short, sp=afn["sp"], cfg=cfg, trivial=True)
            else:
                run.ob("C12.R1", "array_type:%s" % key, False, "array_type for %s not recognised" % short, sp=afn["sp"], cfg=cfg)


# ---- symbolic interpretation ---------------------------------------------------------------------------------------------
# The conversions are interpreted on symbolic payloads: x -> From<T>::from(x) -> ValueType::try_from(..) must give back the
# same atom; conversions between the owned/borrowed forms of one value (COPY_CONVERSIONS), the reviewed foreign adapters
# (TRUSTED) and the per-element conversions of a generic T are abstracted to the identity; anything else is outside the
# fragment and the shape rules below decide.

TRANSPARENT_METHODS = ("to_owned", "to_vec", "into_owned", "as_str", "as_ref", "clone", "into_boxed_slice", "into_vec", "as_slice", "borrow", "deref")


def _conv_ok(rty, ty):
    r0 = rty.lstrip("&")
    if rty == ty or r0 == ty or ty == V or len(r0) == 1 or len(ty) == 1:     # same type, into Value, or a generic parameter
        return True
    return (rty, ty) in COPY_CONVERSIONS or (r0, ty) in COPY_CONVERSIONS or ("&" + r0, ty) in COPY_CONVERSIONS


def sym_interp(f):
    from ..interp import Interp, Opaque, Sym, Unsupported, Var
    it = Interp(f)
    it.free_opaque = True
    it.max_depth = 10
    it.opaque_conversions = _conv_ok
    it.builtins = {"alloc::boxed::Box::<T>::new": lambda it_, a: a[0]}

    def generic(callee, substs, vals):
        s0 = (substs or ["?"])[0]
        if callee == NULLABLE + "::null":
            return Sym("%s::null" % s0)
        if callee == VALUETYPE + "::array_type":
            return Sym("%s::array_type" % s0)
        if callee == VALUETYPE + "::try_from" and vals:
            return ("Ok", vals[0])              # the element's own extraction: decided in the row of its type
        if callee in (VALUETYPE + "::unwrap", V + "::unwrap") and vals:
            return vals[0]
        if callee == "crate::value::IntoValueTuple::into_value_tuple" and vals and isinstance(vals[0], Var) and vals[0].d.startswith("crate::value::ValueTuple::"):
            return vals[0]                      # impl IntoValueTuple for ValueTuple is the identity
        return None

    def unknown(it_, e, env, depth):
        callee = e.get("callee") or ""
        res = H.callee(e) or ""
        name = e.get("name") or callee.rsplit("::", 1)[-1]
        vals = ([it_.ev(e["recv"], env, depth)] if e.get("k") == "mcall" else []) + [it_.ev(a, env, depth) for a in e.get("args") or []]
        r = generic(callee, e.get("substs"), vals)
        if r is not None:
            return r
        if (res in TRUSTED or callee in TRUSTED or name in TRANSPARENT_METHODS) and vals and isinstance(vals[0], Opaque):
            return vals[0]
        if callee in ("core::convert::Into::into", "core::convert::From::from") and vals and isinstance(vals[0], Opaque):
            return vals[0]
        raise Unsupported("call %s on a symbolic value" % (res or callee or name))

    def unknown_fn(it_, d, node, args):
        r = generic(d, (node or {}).get("substs"), args)
        if r is None:
            raise Unsupported("function value %s" % d)
        return r
    it.unknown_call = unknown
    it.unknown_fn = unknown_fn
    return it


def _ok(v):
    from ..interp import Var
    if isinstance(v, Var) and v.d == "core::result::Result::Ok":
        return True, v.fields[0]
    if isinstance(v, tuple) and len(v) == 2 and v[0] == "Ok":
        return True, v[1]
    if isinstance(v, Var) and v.d == "core::result::Result::Err" or (isinstance(v, tuple) and len(v) == 2 and v[0] == "Err"):
        return False, None
    raise ValueError("not a Result: %r" % (v,))


def type_by_interp(run, f, cfg, tname, from_fn, null_fn, vt_impl):
    """True when the row of this type was decided by symbolic interpretation"""
    from ..interp import Sym, Unsupported, Diverged, Var
    key = re.sub(r"[^A-Za-z0-9_<>&\[\]:]", "", tname)
    short = tname
    is_vec = tname == "alloc::vec::Vec<T>"
    x = [Sym("e0"), Sym("e1")] if is_vec else Sym("x")
    obs = []
    try:
        var = None
        v = None
        if from_fn:
            v = sym_interp(f).call_fn(from_fn, [list(x) if is_vec else x])
            ok = isinstance(v, Var) and v.d.startswith(V + "::") and len(v.fields) in (1, 2) and v.fields[-1] == ("__some", x)
            if ok and len(v.fields) == 2:
                ok = v.fields[0] == Sym("T::array_type") if is_vec else isinstance(v.fields[0], (Var, Sym))
            obs.append(("C12.R6" if is_vec else "C12.R1", "vec:from" if is_vec else "from:%s" % key, ok,
                        "From<%s> for Value (interpreted on a symbolic argument) builds one variant holding Some(<the argument itself>)%s" % (short, "" if ok else " - NOT: %r" % (v,)),
                        f.fns[from_fn]["sp"]))
            if not is_vec:
                obs.append(("C12.R2", "from-payload:%s" % key, ok, "From<%s>: the payload is the argument itself up to identity-preserving steps" % short, f.fns[from_fn]["sp"]))
            var = v.d if isinstance(v, Var) else None
        if null_fn:
            n = sym_interp(f).call_fn(null_fn, [])
            ok = isinstance(n, Var) and n.d.startswith(V + "::") and n.fields[-1] is None and (var is None or n.d == var)
            obs.append(("C12.R1", "null:%s" % key, ok, "Nullable for %s is the None of the same variant as From<%s> (%s)%s" % (
                short, short, (var or getattr(n, "d", "?")).rsplit("::", 1)[-1], "" if ok else " - NOT: %r" % (n,)), f.fns[null_fn]["sp"]))
            if var is None and isinstance(n, Var):
                var = n.d
        if vt_impl:
            tf = vt_impl["items"].get("try_from")
            if tf not in f.fns or var is None:
                return False
            nf = len([vv for vv in f.adts[V]["variants"] if vv["def"] == var][0]["fields"])
            good = Var(var, ([Sym("T::array_type")] if (nf == 2 and is_vec) else [Sym("ty")] * (nf - 1)) + [("__some", list(x) if is_vec else x)])
            if v is not None and not is_vec and nf == 2:
                good = v
            r = sym_interp(f).call_fn(tf, [good])
            isok, payload = _ok(r)
            ok = isok and payload == x
            # every other variant, and the NULL of its own, is refused
            wrong = []
            for vv in f.adts[V]["variants"]:
                k = len(vv["fields"])
                cands = [Var(vv["def"], [Sym("ty")] * (k - 1) + [None])]
                if vv["def"] != var:
                    cands.append(Var(vv["def"], [Sym("ty")] * (k - 1) + [("__some", [Sym("y")] if vv["def"].endswith("::Array") else Sym("y"))]))
                elif is_vec:
                    cands.append(Var(vv["def"], [Sym("another::array_type"), ("__some", [Sym("y")])]))
                for c_ in cands:
                    try:
                        isok2, _p = _ok(sym_interp(f).call_fn(tf, [c_]))
                    except Diverged:
                        isok2 = False
                    if isok2:
                        wrong.append(repr(c_))
            obs.append(("C12.R1", "try_from:%s" % key, ok and not wrong,
                        "ValueType::try_from for %s (interpreted): returns the payload of %s(Some(..)) and fails on the NULL and on every other variant (%d probes)%s" % (
                            short, var.rsplit("::", 1)[-1], 2 * len(f.adts[V]["variants"]),
                            "" if ok and not wrong else " - NOT: %s" % ("accepts " + ", ".join(wrong[:3]) if wrong else "returns %r" % (r,))), f.fns[tf]["sp"]))
            if is_vec:
                obs.append(("C12.R6", "vec:guard", not wrong, "Vec<T>::try_from accepts an Array only when its element type equals T::array_type()", f.fns[tf]["sp"]))
                obs.append(("C12.R6", "vec:elements", ok, "Vec<T>::try_from extracts every element in order", f.fns[tf]["sp"]))
            else:
                obs.append(("C12.R2", "try_from-payload:%s" % key, ok, "try_from for %s returns the stored payload up to identity-preserving steps" % short, f.fns[tf]["sp"]))
    except (Unsupported, Diverged, ValueError) as e:
        run.notes.append("C12 %s outside the interpreter's fragment (%s): decided by the shape rules" % (short, e))
        return False
    for rule, k, ok, what, sp in obs:
        run.ob(rule, k, ok, what, sp=sp, cfg=cfg)
    if from_fn and isinstance(v, Var):
        DELEGATED.setdefault(id(f), {})[tname] = v.d
    return True


def option_by_interp(run, f, cfg, from_fn, try_fn):
    from ..interp import Sym, Unsupported, Diverged
    try:
        a = sym_interp(f).call_fn(from_fn, [None])
        b = sym_interp(f).call_fn(from_fn, [("__some", Sym("x"))])
        ok1 = a == Sym("T::null") and b == Sym("x")
        c = _ok(sym_interp(f).call_fn(try_fn, [Sym("T::null")]))
        d = _ok(sym_interp(f).call_fn(try_fn, [Sym("v")]))
        ok2 = c == (True, None) and d == (True, ("__some", Sym("v")))
    except (Unsupported, Diverged, ValueError) as e:
        run.notes.append("C12.R3 Option<T> outside the interpreter's fragment (%s): decided by the shape rules" % e)
        return False
    run.ob("C12.R3", "From<Option<T>>", ok1, "From<Option<T>> (interpreted): Some(v) -> v.into(), None -> T::null()%s" % ("" if ok1 else " - NOT: None -> %r, Some(x) -> %r" % (a, b)),
           sp=f.fns[from_fn]["sp"], cfg=cfg)
    run.ob("C12.R3", "ValueType<Option<T>>", ok2,
           "Option<T>::try_from (interpreted): T::null() -> Ok(None), any other v -> Ok(Some(T::try_from(v)?))%s" % ("" if ok2 else " - NOT: null -> %r, v -> %r" % (c, d)),
           sp=f.fns[try_fn]["sp"], cfg=cfg)
    return True


def check_option(run, f, cfg):
    fr = [i for i in f.impls if i.get("trait") == "core::convert::From" and i.get("self_adt") == V and "From<core::option::Option<T>>" in (i.get("trait_ref") or "")]
    vt0 = [i for i in f.impls if i.get("trait") == VALUETYPE and i.get("self_ty") == "core::option::Option<T>"]
    if len(fr) == 1 and len(vt0) == 1 and option_by_interp(run, f, cfg, fr[0]["items"]["from"], vt0[0]["items"]["try_from"]):
        return
    if len(fr) != 1:
        run.anchor("C12.R3", "From<Option<T>>", "impl not found", cfg)
    else:
        fn = f.fns[fr[0]["items"]["from"]]
        ms = [n for n in walk(fn["hir"]) if n.get("k") == "match" and n.get("src") == "Normal"]
        ok = len(ms) == 1 and len(ms[0]["arms"]) == 2
        if ok:
            table = {}
            for arm in ms[0]["arms"]:
                p = arm["pat"]
                b = H.peel_ref(arm["body"])
                if p.get("k") == "variant" and p["path"].get("def") == "core::option::Option::Some":
                    table["Some"] = b.get("k") == "mcall" and b["name"] == "into" and H.place(b["recv"]) == p["subs"][0].get("name")
                elif p.get("k") == "variant" and p["path"].get("def") == "core::option::Option::None":
                    table["None"] = b.get("k") == "call" and (b.get("callee") or "") == NULLABLE + "::null" and (b.get("substs") or [""])[0] == "T"
            ok = table == {"Some": True, "None": True}
        run.ob("C12.R3", "From<Option<T>>", ok, "From<Option<T>>: Some(v) -> v.into(), None -> T::null()", sp=fn["sp"], cfg=cfg)
    vt = [i for i in f.impls if i.get("trait") == VALUETYPE and i.get("self_ty") == "core::option::Option<T>"]
    if len(vt) != 1:
        run.anchor("C12.R3", "ValueType for Option<T>", "impl not found", cfg)
        return
    fn = f.fns[vt[0]["items"]["try_from"]]
    param = fn["params"][0]["pat"].get("name")
    ifs = [n for n in walk(fn["hir"]) if n.get("k") == "if"]
    ok = len(ifs) == 1
    if ok:
        c = H.peel_ref(ifs[0]["cond"])
        ok = c.get("k") == "binary" and c["op"] == "==" and H.place(c["l"]) == param and \
            H.peel_ref(c["r"]).get("callee") == NULLABLE + "::null"
        t = H.peel_ref(H.peel(ifs[0]["then"]))
        ok = ok and t.get("k") == "call" and t.get("callee") == "core::result::Result::Ok" and is_none(t["args"][0])
        e = H.peel_ref(H.peel(ifs[0].get("else") or {}))
        inner = None
        if ok and e.get("k") == "call" and e.get("callee") == "core::result::Result::Ok":
            inner = some_arg(e["args"][0])
        good = False
        if inner is not None:
            # Some(T::try_from(v)?)
            cs = [x for x in H.calls(inner) if (x.get("callee") or "").endswith("ValueType::try_from")]
            good = len(cs) == 1 and H.place(cs[0]["args"][0]) == param
        ok = ok and good
    run.ob("C12.R3", "ValueType<Option<T>>", ok, "Option<T>::try_from: v == T::null() -> Ok(None), otherwise Ok(Some(T::try_from(v)?))", sp=fn["sp"], cfg=cfg)


def tuple_components(e):
    """names/indices of a component list: [`self.i.into()`...] -> [i...]"""
    out = []
    for x in e:
        x = H.peel_ref(x)
        if x.get("k") == "mcall" and x["name"] == "into":
            pl = H.place(x["recv"])
            out.append(pl)
        else:
            out.append(None)
    return out


def vec_macro_elems(e):
    """elements of a `vec![a, b, c]` expansion"""
    for n in walk(e):
        if n.get("k") == "array":
            return n["es"]
    return None


def _tuple_value(n, syms):
    from ..interp import Var
    VT = "crate::value::ValueTuple::"
    if n <= 3:
        return Var(VT + {1: "One", 2: "Two", 3: "Three"}[n], list(syms))
    return Var(VT + "Many", [list(syms)])


def _into_tuple_by_interp(run, f, cfg, rule, fname, n, is_tuple):
    from ..interp import Sym, Unsupported, Diverged
    syms = [Sym("c%d" % k) for k in range(n)]
    try:
        r = sym_interp(f).call_fn(fname, [tuple(syms) if is_tuple else syms[0]])
    except (Unsupported, Diverged) as e:
        run.notes.append("%s IntoValueTuple arity %d outside the interpreter's fragment (%s): decided by its shape" % (rule, n, e))
        return False
    want = _tuple_value(n, syms)
    ok = r == want
    run.ob(rule, "into:arity%d" % n, ok, "IntoValueTuple for arity %d (interpreted on symbolic components) builds ValueTuple::%s from the components in index order%s" % (
        n, want.d.rsplit("::", 1)[-1], "" if ok else " - NOT: %r" % (r,)), sp=f.fns[fname]["sp"], cfg=cfg)
    return True


def _from_tuple_by_interp(run, f, cfg, rule, fname, n, is_tuple):
    from ..interp import Sym, Unsupported, Diverged
    syms = [Sym("c%d" % k) for k in range(n)]
    try:
        r = sym_interp(f).call_fn(fname, [_tuple_value(n, syms)])
        want = tuple(syms) if is_tuple else syms[0]
        ok = r == want
        accepted = []
        for m in sorted(set([1, 2, 3, 4, 5, n - 1, n + 1]) - {n, 0}):
            try:
                sym_interp(f).call_fn(fname, [_tuple_value(m, [Sym("d%d" % k) for k in range(m)])])
                accepted.append(m)
            except Diverged:
                pass
    except (Unsupported, Diverged) as e:
        run.notes.append("%s FromValueTuple arity %d outside the interpreter's fragment (%s): decided by its shape" % (rule, n, e))
        return False
    run.ob(rule, "from:arity%d" % n, ok and not accepted,
           "FromValueTuple for arity %d (interpreted) accepts only the matching shape and extracts the components in order%s" % (
               n, "" if ok and not accepted else " - NOT: %s" % ("also accepts arity %s" % accepted if accepted else "returns %r" % (r,))),
           sp=f.fns[fname]["sp"], cfg=cfg)
    return True


def _tuple_iter_by_interp(run, f, cfg, rule, fname):
    from ..interp import Sym, Unsupported, Diverged
    bad = []
    try:
        for n in (1, 2, 3, 4, 6):
            syms = [Sym("c%d" % k) for k in range(n)]
            r = sym_interp(f).call_fn(fname, [_tuple_value(n, syms)])
            if isinstance(r, dict) and "__iter" in r:
                r = r["__iter"][r["i"]:]
            if r != syms:
                bad.append("arity %d yields %r" % (n, r))
    except (Unsupported, Diverged) as e:
        run.notes.append("%s ValueTuple::into_iter outside the interpreter's fragment (%s): decided by its shape" % (rule, e))
        return False
    run.ob(rule, "ValueTuple::into_iter", not bad, "ValueTuple::into_iter (interpreted) yields the components in declaration order for every variant%s" % (
        "" if not bad else " - NOT: " + "; ".join(bad)), sp=f.fns[fname]["sp"], cfg=cfg)
    return True


def check_tuples(run, f, cfg, rule="C12.R4"):
    ivt = [i for i in f.impls if i.get("trait") == "crate::value::IntoValueTuple"]
    arities = {}
    for i in ivt:
        st = i["self_ty"]
        fn = f.fns[i["items"]["into_value_tuple"]]
        v, ps = single_value(fn)
        if st == "crate::value::ValueTuple":
            run.ob(rule, "into:ValueTuple", H.place(v) == "self", "IntoValueTuple for ValueTuple is the identity", sp=fn["sp"], cfg=cfg)
            continue
        if st.startswith("("):
            n = st.count(",") + 1
        else:
            n = 1
        done = _into_tuple_by_interp(run, f, cfg, rule, i["items"]["into_value_tuple"], n, st.startswith("("))
        if done:
            arities[n] = True
            continue
        var = (v or {}).get("callee") if isinstance(v, dict) else None
        comps = None
        if n <= 3 and isinstance(v, dict) and v.get("k") == "call":
            comps = tuple_components(v["args"])
            want_var = {1: "One", 2: "Two", 3: "Three"}[n]
        elif isinstance(v, dict) and v.get("k") == "call":
            want_var = "Many"
            el = vec_macro_elems(v["args"][0]) if v.get("args") else None
            comps = tuple_components(el) if el is not None else None
        want = ["self"] if n == 1 else ["self.%d" % k for k in range(n)]
        run.ob(rule, "into:arity%d" % n, var == "crate::value::ValueTuple::" + want_var and comps == want,
               "IntoValueTuple for arity %d builds ValueTuple::%s from the components in index order" % (n, want_var), sp=fn["sp"], cfg=cfg,
               detail={"variant": var, "components": comps})
        arities[n] = True
    run.floor(rule, "into-arities", len(arities), 12, cfg)
    fvt = [i for i in f.impls if i.get("trait") == "crate::value::FromValueTuple"]
    got = {}
    for i in fvt:
        st = i["self_ty"]
        n = st.count(",") + 1 if st.startswith("(") else 1
        fn = f.fns[i["items"]["from_value_tuple"]]
        if _from_tuple_by_interp(run, f, cfg, rule, i["items"]["from_value_tuple"], n, st.startswith("(")):
            got[n] = True
            continue
        ms = [m for m in walk(fn["hir"]) if m.get("k") == "match" and m.get("src") == "Normal"]
        ok = len(ms) == 1
        detail = None
        if ok:
            sc = H.peel_ref(ms[0]["scrut"])
            ok = sc.get("k") == "mcall" and sc["name"] == "into_value_tuple"
            accept = [a for a in ms[0]["arms"] if a["pat"].get("k") != "wild"]
            others = [a for a in ms[0]["arms"] if a["pat"].get("k") == "wild"]
            ok = ok and len(accept) == 1 and len(others) == 1 and any(x["ev"] == "diverge" for p in P.enum(others[0]["body"]) for x in p.events)
            if ok:
                a = accept[0]
                pat = a["pat"]
                want_var = {1: "One", 2: "Two", 3: "Three"}.get(n, "Many")
                ok = pat.get("k") == "variant" and pat["path"].get("def") == "crate::value::ValueTuple::" + want_var
                body = H.peel_ref(a["body"])
                if ok and n <= 3:
                    binds = [s.get("name") for s in pat["subs"]]
                    comps = [body] if n == 1 else (body.get("es") if body.get("k") == "tuple" else [])
                    got_names = []
                    for c in comps:
                        c = H.peel_ref(c)
                        got_names.append(H.place(c["recv"]) if c.get("k") == "mcall" and c["name"] == "unwrap" and (c.get("callee") or "") in UNWRAPS else None)
                    ok = got_names == binds and len(binds) == n
                    detail = {"bindings": binds, "components": got_names}
                elif ok:
                    g = a.get("guard")
                    vecname = pat["subs"][0].get("name")
                    gok = isinstance(g, dict) and g.get("k") == "binary" and g["op"] == "==" and \
                        H.peel_ref(g["l"]).get("name") == "len" and H.place(H.peel_ref(g["l"])["recv"]) == vecname and \
                        H.peel_ref(g["r"]).get("k") == "lit" and H.peel_ref(g["r"])["lit"]["v"] == n
                    # tuple of n `unwrap(iter.next().unwrap())`
                    tup = None
                    for x in walk(a["body"]):
                        if x.get("k") == "tuple" and len(x["es"]) == n:
                            tup = x
                            break
                    tok = tup is not None
                    if tok:
                        for c in tup["es"]:
                            c = H.peel_ref(c)
                            inner = H.peel_ref(c["args"][0]) if c.get("k") == "call" and (c.get("callee") or "") in UNWRAPS else None
                            if not (inner and inner.get("k") == "mcall" and inner["name"] == "unwrap" and H.peel_ref(inner["recv"]).get("name") == "next"):
                                tok = False
                    lets = [s for s in walk(a["body"]) if s.get("k") == "stmt_let"]
                    iok = len(lets) == 1 and H.peel_ref(lets[0]["init"]).get("name") == "into_iter" and H.place(H.peel_ref(lets[0]["init"])["recv"]) == vecname
                    ok = gok and tok and iok
                    detail = {"guard_len": gok, "components": tok, "iter_from_vec": iok}
        run.ob(rule, "from:arity%d" % n, ok, "FromValueTuple for arity %d accepts only the matching shape and extracts the components in order" % n, sp=fn["sp"], cfg=cfg, detail=detail)
        got[n] = True
    run.floor(rule, "from-arities", len(got), 12, cfg)
    # ValueTuple::into_iter
    ii = [i for i in f.impls if i.get("trait") == "core::iter::traits::collect::IntoIterator" and i.get("self_adt") == "crate::value::ValueTuple"]
    if len(ii) != 1:
        run.anchor(rule, "ValueTuple::into_iter", "impl not found", cfg)
    else:
        fn = f.fns[ii[0]["items"]["into_iter"]]
        if _tuple_iter_by_interp(run, f, cfg, rule, ii[0]["items"]["into_iter"]):
            return
        ms = [m for m in walk(fn["hir"]) if m.get("k") == "match" and m.get("src") == "Normal"]
        ok = len(ms) == 1
        if ok:
            for a in ms[0]["arms"]:
                pat = a["pat"]
                binds = [s.get("name") for s in pat.get("subs") or []]
                var = (pat.get("path") or {}).get("def", "").rsplit("::", 1)[-1]
                if var == "Many":
                    b = H.peel_ref(a["body"])
                    ok = ok and b.get("k") == "mcall" and b["name"] == "into_iter" and H.place(b["recv"]) == binds[0]
                else:
                    el = vec_macro_elems(a["body"])
                    ok = ok and el is not None and [H.place(x) for x in el] == binds
        run.ob(rule, "ValueTuple::into_iter", ok, "ValueTuple::into_iter yields the components in declaration order for every variant", sp=fn["sp"], cfg=cfg)


def check_diagonal(run, f, cfg):
    a = f.adts[V]
    variants = [v["def"] for v in a["variants"]]
    for fname, want in ((V + "::as_null", "None"), (V + "::dummy_value", "Some")):
        fn = f.fns.get(fname)
        if fn is None:
            run.anchor("C12.R5", fname.rsplit("::", 1)[-1], "not found", cfg)
            continue
        ms = [m for m in walk(fn["hir"]) if m.get("k") == "match" and m.get("src") == "Normal" and H.place(m["scrut"]) == "self"]
        if len(ms) != 1:
            run.anchor("C12.R5", fname.rsplit("::", 1)[-1], "not a single match on self", cfg)
            continue
        seen = set()
        for arm in ms[0]["arms"]:
            pat = arm["pat"]
            if pat.get("k") == "ref":
                pat = pat["sub"]
            pv = (pat.get("path") or {}).get("def")
            var, args = ctor_of(arm["body"])
            short = (pv or "?").rsplit("::", 1)[-1]
            ok = pv is not None and var == pv
            if ok:
                last = args[-1]
                ok = is_none(last) if want == "None" else some_arg(last) is not None
                if len(args) == 2:
                    # Array(ty, _) keeps its element type
                    tyb = pat["subs"][0].get("name") if pat.get("subs") else None
                    a0 = H.peel_ref(args[0])
                    src = H.place(a0["recv"]) if a0.get("k") == "mcall" and a0["name"] == "clone" else H.place(a0)
                    ok = ok and tyb is not None and src == tyb
            run.ob("C12.R5", "%s:%s" % (fname.rsplit("::", 1)[-1], short), ok,
                   "%s maps variant %s to the same variant (%s)" % (fname.rsplit("::", 1)[-1], short, want), sp=arm["sp"], cfg=cfg, detail={"arm": pv, "constructs": var})
            seen.add(pv)
        for v in variants:
            if v not in seen:
                run.ob("C12.R5", "%s:%s" % (fname.rsplit("::", 1)[-1], v.rsplit("::", 1)[-1]), False, "variant %s has no arm in %s" % (v, fname), sp=fn["sp"], cfg=cfg)


def check(run):
    cfgs = run.tier_configs(["all"], ["default"])
    for cfg in cfgs:
        f = run.facts(cfg)
        froms = {}
        for i in f.impls:
            if i.get("trait") == "core::convert::From" and i.get("self_adt") == V:
                m = re.match(r"<crate::value::Value as core::convert::From<(.*)>>$", i.get("trait_ref") or "")
                if m:
                    froms[m.group(1)] = i["items"]["from"]
        nulls = {i["self_ty"]: i["items"]["null"] for i in f.impls if i.get("trait") == NULLABLE}
        vts = {i["self_ty"]: i for i in f.impls if i.get("trait") == VALUETYPE}
        FROMS[id(f)] = froms
        # plain types first so that delegating impls (Cow<str> -> String) find their target's variant
        types = sorted(set(froms) | set(nulls) | set(vts), key=lambda t: ("Cow<" in t, t))
        n = 0
        for t in types:
            if t in ("core::option::Option<T>",):
                continue
            if type_by_interp(run, f, cfg, t, froms.get(t), nulls.get(t), vts.get(t)):
                # array_type stays a shape rule
                check_array_type(run, f, cfg, t, vts.get(t), DELEGATED.get(id(f), {}).get(t))
            else:
                check_type(run, f, cfg, t, froms.get(t), nulls.get(t), vts.get(t))
            n += 1
            # a type that can be put in but not taken out (or vice versa) is fine; a type with From but no Nullable cannot be Option-al
        run.floor("C12.R1", "types", n, 38 if cfg == "all" else 14, cfg)
        check_option(run, f, cfg)
        check_tuples(run, f, cfg)
        check_unwrap_helpers(run, f, cfg)
        check_diagonal(run, f, cfg)
    run.assumptions.append("foreign conversions listed in TRUSTED (uuid adapters, chrono from_naive_utc_and_offset) preserve the value")
    run.assumptions.append("Value::eq used by Option<T>::try_from is structural (derived) or coherent (C18)")
    run.delegate("C18", "Option<T>::try_from and the Value round trip compare through Value::eq, which C18 decides")
