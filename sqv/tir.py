"""Template IR: abstract interpretation of renderer functions into regular-expression-like trees over what is
appended to each text sink (DESIGN.md section 2.2).

Tagged effect tree (what evaluating an expression does to the sinks):
  ("w", sink, S)                 append string-TIR S to sink
  ("seq", [E...])
  ("alt", [(guard, E)...])       if / match; guard = {"text":..., "e": cond expr, "taken": bool} or {"text": arm pattern...}
  ("loop", E, info)              body of one iteration; info = {"kind": "for"|"fold"|"for_each"|"while"|..., "over": text}
  ("ret",) ("break",) ("continue",) ("diverge", text)

String-TIR (a set of strings):
  ("lit", text)
  ("hole", kind, desc, sp)       run-time text of a given kind (see KINDS)
  ("seq", [S...]) ("alt", [(guard, S)...]) ("star", S)
  ("call", callee, args, sp)     another renderer is given this sink: callee def path (declared), dispatch info
  ("buf", name)                  contents of a local String buffer (resolved by projection)
"""
from . import hir as H
from .core import Anchor
from .facts import nhir, walk

WRITER_TYPES = ("dyn crate::prepare::SqlWriter", "dyn core::fmt::Write")
APPEND_METHODS = {"write_fmt", "write_str", "push_str", "push", "write_char"}
NUM_TYPES = ("u8", "u16", "u32", "u64", "usize", "i8", "i16", "i32", "i64", "isize", "u128", "i128")
FLOAT_TYPES = ("f32", "f64")
STRINGY = ("alloc::string::String", "&str", "&alloc::string::String", "&mut alloc::string::String", "str",
           "alloc::borrow::Cow<'_, str>", "&&str", "&'static str")


def strip_ref(t):
    t = t or ""
    while t.startswith("&"):
        t = t[1:]
        if t.startswith("mut "):
            t = t[4:]
        if t.startswith("'"):
            t = t.split(" ", 1)[1] if " " in t else t
    return t


def is_stringy(t):
    s = strip_ref(t)
    return s in ("alloc::string::String", "str") or s.startswith("alloc::borrow::Cow<") and "str>" in s


def text(e, depth=0):
    """short pretty-printer for guards / descriptions"""
    if e is None:
        return ""
    if depth > 6:
        return "…"
    k = e.get("k")
    if k == "lit":
        return repr(e["lit"].get("v"))
    if k == "local":
        return e["name"]
    if k == "path":
        return (e.get("def") or "?").replace("crate::", "").rsplit("::", 2)[-2] + "::" + (e.get("def") or "?").rsplit("::", 1)[-1] if "::" in (e.get("def") or "") else (e.get("def") or "?")
    if k == "field":
        return text(e["base"], depth + 1) + "." + e["name"]
    if k == "addr":
        return text(e["e"], depth + 1)
    if k == "unary":
        return {"deref": "*", "not": "!", "neg": "-"}[e["op"]] + text(e["e"], depth + 1)
    if k == "binary":
        return "%s %s %s" % (text(e["l"], depth + 1), e["op"], text(e["r"], depth + 1))
    if k == "mcall":
        return "%s.%s(%s)" % (text(e["recv"], depth + 1), e["name"], ", ".join(text(a, depth + 1) for a in e["args"]))
    if k == "call":
        return "%s(%s)" % ((e.get("callee") or "?").rsplit("::", 1)[-1], ", ".join(text(a, depth + 1) for a in e["args"]))
    if k == "let":
        return "let %s = %s" % (pat_text(e["pat"]), text(e["init"], depth + 1))
    if k == "block":
        return text(e.get("expr"), depth + 1) if e.get("expr") is not None else "{..}"
    if k == "cast":
        return text(e["e"], depth + 1)
    if k == "tuple":
        return "(%s)" % ", ".join(text(x, depth + 1) for x in e["es"])
    if k == "match":
        return "match %s {..}" % text(e["scrut"], depth + 1)
    if k == "index":
        return "%s[%s]" % (text(e["base"], depth + 1), text(e["idx"], depth + 1))
    if k == "fmt":
        return "format_args!(..)"
    return k or "?"


def pat_text(p):
    k = p.get("k")
    if k == "wild":
        return "_"
    if k == "bind":
        return p["name"]
    if k in ("ref", "deref"):
        return pat_text(p["sub"])
    if k == "lit":
        return repr(p["lit"].get("v"))
    if k == "or":
        return " | ".join(pat_text(a) for a in p["alts"])
    if k == "tuple":
        return "(%s)" % ", ".join(pat_text(s) for s in p["subs"])
    if k == "variant":
        d = (p["path"].get("def") or "?")
        short = "::".join(d.split("::")[-2:]) if d.count("::") >= 1 else d
        if p.get("subs") is not None:
            return "%s(%s)" % (short, ", ".join(pat_text(s) for s in p["subs"]))
        if p.get("fields"):
            return "%s{%s}" % (short, ", ".join("%s: %s" % (x["name"], pat_text(x["pat"])) for x in p["fields"]))
        return short
    if k == "range":
        return "range"
    return k or "?"


def pat_variants(p):
    """variant def paths named at the top of a pattern (through or/ref)"""
    k = p.get("k")
    if k in ("ref", "deref"):
        return pat_variants(p["sub"])
    if k == "or":
        out = []
        for a in p["alts"]:
            out += pat_variants(a)
        return out
    if k == "variant":
        return [p["path"].get("def")]
    if k == "bind" and p.get("sub") is not None:
        return pat_variants(p["sub"])
    return []


class FnTir:
    """TIR of one function body."""

    def __init__(self, f, name):
        self.f = f
        self.name = name
        self.fn = f.fn(name)
        self.body = nhir(f, name)
        self.sinks = {}        # local name -> "writer" | "buffer"
        self.env = {}          # local name -> string-TIR of its initialiser, evaluated at the let (scoping/shadowing respected)
        self.env_expr = {}     # local name -> initialiser expression (latest binding; for guards that mention a local)
        self.env_closures = {}  # local name -> closure expression bound by `let f = |..| {..}`
        self.env_tuple = {}     # local name -> tuple expression (a row of a lookup table bound to a closure parameter)
        self.env_bool = {}      # local name -> True / False: known boolean literal (per arm of a tuple let)
        self.env_opt = {}       # local name -> ("none", None) | ("some", payload expr): known Option constructor (per arm of a tuple let)
        self.params = []
        self.unknown = []      # constructs outside the supported fragment (reported by rules that depend on them)
        for p in self.fn.get("params") or []:
            pat = p["pat"]
            t = f.ty(p["ty"])
            nm = pat.get("name") if pat.get("k") == "bind" else None
            self.params.append((nm, t))
            if nm and (any(w in t for w in WRITER_TYPES) or t == "&mut alloc::string::String"):
                self.sinks[nm] = "writer"
        self.effects = self.W(self.body)
        # value returned (for string-returning functions)
        self.ret_ty = f.ty(self.fn.get("ret")) if self.fn.get("ret") is not None else ""

    # ---- helpers -------------------------------------------------------------------------------
    def ty(self, e):
        return self.f.ty(e.get("ty")) if isinstance(e, dict) and e.get("ty") is not None else ""

    def sink_of(self, e):
        """if expression e denotes one of the sinks (possibly through &mut, as_writer(), deref): its name"""
        e = H.peel_ref(e)
        while isinstance(e, dict):
            k = e.get("k")
            if k == "local":
                return e["name"] if e["name"] in self.sinks else None
            if k == "mcall" and e["name"] in ("as_writer", "by_ref", "as_mut", "deref_mut", "borrow_mut"):
                e = H.peel_ref(e["recv"])
                continue
            if k == "cast":
                e = H.peel_ref(e["e"])
                continue
            return None
        return None

    def guard(self, cond, taken):
        return {"text": text(cond), "e": cond, "taken": taken}

    def tuple_let_arms(self, s):
        """[(guard, [(name, component expr), ..]), ..] for `let (a, b, ..) = match / if ..` whose arms are all tuple literals of
        the pattern's arity (at least two arms, no mutable bindings); None otherwise"""
        if not (isinstance(s, dict) and s.get("k") == "stmt_let" and isinstance(s.get("init"), dict) and s.get("els") is None):
            return None
        pat = s["pat"]
        single = pat.get("k") == "bind" and not pat.get("mut")
        if not single and (pat.get("k") != "tuple" or not all(x.get("k") in ("bind", "wild") and not x.get("mut") for x in pat["subs"])):
            return None
        init = H.peel_ref(H.peel(s["init"]))
        n = 1 if single else len(pat["subs"])
        subs = [pat] if single else pat["subs"]

        def is_opt(x):
            return isinstance(x, dict) and ((x.get("k") == "path" and x.get("def") == "core::option::Option::None") or
                                            (x.get("k") == "call" and x.get("callee") == "core::option::Option::Some"))

        known = [0]

        def tup(x):
            x = H.peel_ref(H.peel(x))
            while isinstance(x, dict) and x.get("k") == "block" and not x.get("stmts") and x.get("expr") is not None:
                x = H.peel_ref(H.peel(x["expr"]))
            if single:
                # `let prefix = match .. { A => Some("KW "), B => None };` - an Option chosen per arm
                # (an arm that computes the Option some other way leaves the name unknown under that arm's guard)
                if is_opt(x):
                    known[0] += 1
                    return {"k": "tuple", "es": [x]}
                if isinstance(x, dict) and (self.ty(x) or "").lstrip("&").startswith("core::option::Option<") and not has_effects(self.W(x)):
                    return {"k": "tuple", "es": [x]}
                return None
            return x if isinstance(x, dict) and x.get("k") == "tuple" and len(x.get("es") or []) == n else None
        arms = []
        if init.get("k") == "match" and init.get("src") == "Normal":
            for arm in init["arms"]:
                if H.diverges(H.peel(arm["body"])) or self.is_diverging(arm["body"]):
                    continue
                t_ = tup(arm["body"])
                if t_ is None:
                    return None
                g = {"text": pat_text(arm["pat"]) + ((" if " + text(arm["guard"])) if arm.get("guard") is not None else ""),
                     "pat": arm["pat"], "scrut": init["scrut"], "arm_guard": arm.get("guard"), "sp": arm.get("sp")}
                arms.append((g, t_))
        elif init.get("k") == "if" and init.get("else") is not None:
            for br, taken in ((init["then"], True), (init["else"], False)):
                t_ = tup(br)
                if t_ is None:
                    return None
                arms.append((self.guard(init["cond"], taken), t_))
        else:
            return None
        if len(arms) < 2 or (single and not known[0]):
            return None
        return [(g, [(p["name"], x) for p, x in zip(subs, t_["es"]) if p.get("k") == "bind"]) for g, t_ in arms]

    # ---- effects -------------------------------------------------------------------------------
    def W(self, e):
        if e is None:
            return ("seq", [])
        if isinstance(e, list):
            return ("seq", [self.W(x) for x in e])
        k = e.get("k")
        if k in ("lit", "local", "path", "continue_"):
            return ("seq", [])
        if k == "block":
            stmts = list(e.get("stmts") or [])
            items = []
            for si, s in enumerate(stmts):
                arms = self.tuple_let_arms(s)
                if arms is not None and getattr(self, "_split", 0) < 3:
                    # `let (a, b) = match x { A => (a1, b1), B => (a2, b2) };`: the components are correlated - the rest of
                    # the block is taken once per arm with the names bound to that arm's components
                    self._split = getattr(self, "_split", 0) + 1
                    # the arms are told apart only as far as the names are used: what follows their last use is written once,
                    # after the alternatives have joined again (it does not depend on which arm was taken)
                    bound = set(nm for _, bs in arms for nm, _ in bs)
                    tail_ = stmts[si + 1:] + ([e["expr"]] if e.get("expr") is not None else [])
                    last = -1
                    while True:
                        # names bound by the statements already inside are in scope after them too: a later use keeps the
                        # statements together (`let paren = n > 1 && both; if paren {"("} ..; if paren {")"}`)
                        scope_ = set(bound)
                        for ts_ in tail_[:last + 1]:
                            if isinstance(ts_, dict) and ts_.get("k") == "stmt_let":
                                scope_ |= set(b_["name"] for b_ in walk(ts_["pat"]) if b_.get("k") == "bind")
                        new_last = last
                        for ti, ts_ in enumerate(tail_):
                            if ti > new_last and any(n_.get("k") == "local" and n_.get("name") in scope_ for n_ in walk(ts_)):
                                new_last = ti
                        if new_last == last:
                            break
                        last = new_last
                    after = None
                    if last + 1 < len(tail_):
                        n_in = last + 1
                        has_expr = e.get("expr") is not None
                        in_stmts = stmts[si + 1: si + 1 + n_in]
                        out_stmts = stmts[si + 1 + n_in:]
                        after = {"k": "block", "stmts": out_stmts, "expr": e.get("expr")}
                        rest = {"k": "block", "stmts": in_stmts, "expr": None}
                    else:
                        rest = {"k": "block", "stmts": stmts[si + 1:], "expr": e.get("expr")}
                    pre = self.W_nonsink_args(H.peel_ref(s["init"]).get("scrut") or H.peel_ref(s["init"]).get("cond"))
                    alts = []
                    for g, binds in arms:
                        saved = (dict(self.env), dict(self.env_expr), dict(self.env_opt), dict(self.env_bool))
                        for nm, x in binds:
                            self.env[nm] = self.S(x)
                            self.env_expr[nm] = x
                            px = H.peel_ref(x)
                            if px.get("k") == "lit" and px["lit"]["t"] == "bool":
                                self.env_bool[nm] = bool(px["lit"]["v"])
                            else:
                                self.env_bool.pop(nm, None)
                            if px.get("k") == "path" and px.get("def") == "core::option::Option::None":
                                self.env_opt[nm] = ("none", None)
                            elif px.get("k") == "call" and px.get("callee") == "core::option::Option::Some" and len(px.get("args") or []) == 1:
                                self.env_opt[nm] = ("some", px["args"][0])
                            else:
                                self.env_opt.pop(nm, None)
                        alts.append((g, self.W(rest)))
                        self.env, self.env_expr, self.env_opt, self.env_bool = saved
                    self._split -= 1
                    items.append(pre)
                    items.append(("alt", alts))
                    if after is not None:
                        items.append(self.W(after))
                    return ("seq", items)
                items.append(self.W(s))
            if e.get("expr") is not None:
                items.append(self.W(e["expr"]))
            return ("seq", items)
        if k == "semi":
            return self.W(e["e"])
        if k == "stmt_let":
            items = []
            init = e.get("init")
            pat = e["pat"]
            if init is not None:
                pi = H.peel_ref(init)
                if pat.get("k") == "bind" and pi.get("k") == "call" and pi.get("callee") in (
                        "alloc::string::String::new", "alloc::string::String::with_capacity"):
                    self.sinks[pat["name"]] = "buffer"
                    return ("seq", [])
                if pat.get("k") == "bind" and pat.get("mut") and is_stringy(self.ty(init)) and self.ty(init).lstrip("&") .startswith("alloc::string::String"):
                    # let mut typ = "interval".to_string();  -> a buffer with initial contents
                    self.sinks[pat["name"]] = "buffer"
                    return ("w", pat["name"], self.S(init))
                if pat.get("k") == "bind" and pi.get("k") == "closure":
                    self.env_closures[pat["name"]] = pi
                    return ("seq", [])
                items.append(self.W(init))
                if pat.get("k") == "bind" and pat.get("mut"):
                    # a mutable local (counter, flag): its value at a use site is not its initialiser; a string literal
                    # is remembered as an explicit `set` effect
                    if pi.get("k") == "lit" and pi["lit"]["t"] == "str":
                        items.append(("set", pat["name"], pi["lit"]["v"]))
                elif pat.get("k") == "bind":
                    self.env[pat["name"]] = self.S(init)
                    self.env_expr[pat["name"]] = init
                elif pat.get("k") == "tuple" and pi.get("k") == "tuple" and len(pi["es"]) == len(pat["subs"]):
                    for s, x in zip(pat["subs"], pi["es"]):
                        if s.get("k") == "bind":
                            self.env[s["name"]] = self.S(x)
                            self.env_expr[s["name"]] = x
                elif pat.get("k") == "tuple":
                    for i, s in enumerate(pat["subs"]):
                        if s.get("k") == "bind":
                            self.env[s["name"]] = self.component(init, i)
            if e.get("els") is not None and init is not None:
                iv0 = H.peel_ref(init)
                if iv0.get("k") == "local" and iv0.get("name") in self.env_opt and pat.get("k") == "variant" and \
                        (pat.get("path") or {}).get("def") == "core::option::Option::Some":
                    # `let Some(x) = opt else {..}` where `opt` is known (per arm of an enclosing expansion) to be None / Some(y)
                    kind, payload = self.env_opt[iv0["name"]]
                    if kind == "none":
                        items.append(self.W(e["els"]))
                        return ("seq", items)
                    subs = pat.get("subs") or []
                    if len(subs) == 1 and subs[0].get("k") == "bind" and payload is not None:
                        self.env[subs[0]["name"]] = self.S(payload)
                        self.env_expr[subs[0]["name"]] = payload
                    return ("seq", items)
            if e.get("els") is not None:
                items.append(("alt", [({"text": "let-else matched", "e": e, "taken": True}, ("seq", [])),
                                      ({"text": "let-else failed", "e": e, "taken": False}, self.W(e["els"]))]))
            return ("seq", items)
        if k == "if":
            c0 = e["cond"]
            if isinstance(c0, dict) and c0.get("k") == "let" and isinstance(c0.get("init"), dict):
                iv = H.peel_ref(c0["init"])
                pt = c0.get("pat") or {}
                if iv.get("k") == "local" and iv.get("name") in self.env_opt and pt.get("k") == "variant" and \
                        (pt.get("path") or {}).get("def") in ("core::option::Option::Some", "core::option::Option::None"):
                    # `if let Some(v) = offset` where `offset` is known (per arm of a tuple let) to be None / Some(x)
                    kind, payload = self.env_opt[iv["name"]]
                    want_some = pt["path"]["def"].endswith("Some")
                    if (kind == "some") == want_some:
                        subs = pt.get("subs") or []
                        if want_some and len(subs) == 1 and subs[0].get("k") == "bind" and payload is not None:
                            saved = (self.env.get(subs[0]["name"]), self.env_expr.get(subs[0]["name"]))
                            self.env[subs[0]["name"]] = self.S(payload)
                            self.env_expr[subs[0]["name"]] = payload
                            r = self.W(e["then"])
                            for d_, v_ in ((self.env, saved[0]), (self.env_expr, saved[1])):
                                if v_ is None:
                                    d_.pop(subs[0]["name"], None)
                                else:
                                    d_[subs[0]["name"]] = v_
                            return r
                        return self.W(e["then"])
                    return self.W(e["else"]) if e.get("else") is not None else ("seq", [])
            # `if flag {..}` where `flag` is known (per arm of a tuple let) to be a boolean literal
            cneg, cb = False, H.peel_ref(c0) if isinstance(c0, dict) else None
            while isinstance(cb, dict) and cb.get("k") == "unary" and cb.get("op") == "not":
                cneg, cb = not cneg, H.peel_ref(cb["e"])
            if isinstance(cb, dict) and cb.get("k") == "local" and cb.get("name") in self.env_bool:
                val = self.env_bool[cb["name"]] != cneg
                return self.W(e["then"]) if val else (self.W(e["else"]) if e.get("else") is not None else ("seq", []))
            # `if let Some((kw, v)) = anchor` where `anchor = opt.map(|x| match x { A(v) => (" BEFORE ", v), .. })`: the names are
            # the components of what the closure yields
            if isinstance(c0, dict) and c0.get("k") == "let" and isinstance(c0.get("init"), dict):
                iv = H.peel_ref(c0["init"])
                pt = c0.get("pat") or {}
                src = self.env_expr.get(iv.get("name")) if iv.get("k") == "local" else None
                src = H.peel_ref(src) if isinstance(src, dict) else None
                if src is not None and src.get("k") == "mcall" and src.get("name") == "map" and len(src.get("args") or []) == 1 and \
                        src["args"][0].get("k") == "closure" and (pt.get("path") or {}).get("def") == "core::option::Option::Some" and \
                        len(pt.get("subs") or []) == 1 and pt["subs"][0].get("k") == "tuple":
                    for i_, sb in enumerate(pt["subs"][0]["subs"]):
                        if sb.get("k") == "bind":
                            self.env[sb["name"]] = self.component(src["args"][0]["body"], i_)
            # `if let Some((_, kw)) = TABLE.iter().find(..) { .. }` (or a local holding that): the body once per row
            if isinstance(c0, dict) and c0.get("k") == "let" and isinstance(c0.get("init"), dict):
                pt = c0.get("pat") or {}
                lk = self.lookup_rows(c0["init"]) if (pt.get("path") or {}).get("def") == "core::option::Option::Some" and len(pt.get("subs") or []) == 1 else None
                if lk is not None:
                    tname, rows = lk["table"], lk["rows"]
                    alts = [(self.row_guard(lk, ri), self.with_row(pt["subs"][0], row, lambda: self.W(e["then"]))) for ri, row in enumerate(rows)]
                    if not lk["total"]:
                        alts.append((self.row_guard(lk, None), self.W(e["else"]) if e.get("else") is not None else ("seq", [])))
                    return ("seq", [self.W(c0["init"]), ("alt", alts)])
            pre = self.W(e["cond"])
            th = self.W(e["then"])
            el = self.W(e["else"]) if e.get("else") is not None else ("seq", [])
            if not has_effects(th) and not has_effects(el):
                return pre
            return ("seq", [pre, ("alt", [(self.guard(e["cond"], True), th), (self.guard(e["cond"], False), el)])])
        if k == "let":
            return self.W(e["init"])
        if k == "match":
            src = e.get("src", "")
            if "ForLoop" in src:
                # match into_iter(X) { mut iter => loop { match next(&mut iter) { None => break, Some(pat) => BODY } } }
                over = e["scrut"]
                if over.get("k") == "call" and over["args"]:
                    over = over["args"][0]
                body = None
                for lp in walk(e["arms"][0]["body"]):
                    if lp.get("k") == "loop":
                        for m in walk(lp["body"]):
                            if m.get("k") == "match" and "ForLoop" in m.get("src", ""):
                                for arm in m["arms"]:
                                    if "Some" in (arm["pat"].get("path") or {}).get("def", ""):
                                        body = arm
                                break
                        break
                if body is None:
                    self.unknown.append(("for-loop shape", e.get("sp")))
                    return ("seq", [])
                return ("seq", [self.W_nonsink_args(over), ("loop", self.W(body["body"]), {"kind": "for", "over": text(over), "e": over, "pat": body["pat"], "body": body["body"], "sp": e.get("sp")})])
            pre = self.W(e["scrut"])
            arms = []
            for arm in e["arms"]:
                g = {"text": pat_text(arm["pat"]) + ((" if " + text(arm["guard"])) if arm.get("guard") is not None else ""),
                     "pat": arm["pat"], "scrut": e["scrut"], "arm_guard": arm.get("guard"), "sp": arm.get("sp")}
                arms.append((g, self.W(arm["body"])))
            if "TryDesugar" in src:
                # `x?` : continue arm has no effect; break arm returns
                return pre
            if not any(has_effects(a) for _, a in arms):
                return pre
            return ("seq", [pre, ("alt", arms)])
        if k == "loop" and "While" in e.get("src", ""):
            # `while let Some(x) = it.next() { BODY }` over an iterator local is a `for x in it` loop
            b0 = e.get("body") or {}
            inner = b0.get("expr") if b0.get("k") == "block" and not b0.get("stmts") else None
            if isinstance(inner, dict) and inner.get("k") == "if" and isinstance(inner.get("cond"), dict) and inner["cond"].get("k") == "let":
                c_ = inner["cond"]
                iv = H.peel_ref(c_.get("init") or {})
                pt = c_.get("pat") or {}
                els = inner.get("else") or {}
                only_break = els.get("k") == "block" and len(els.get("stmts") or []) == 1 and els["stmts"][0].get("k") == "break" and els.get("expr") is None
                if iv.get("k") == "mcall" and iv.get("name") == "next" and not iv.get("args") and H.peel_ref(iv["recv"]).get("k") == "local" and \
                        (pt.get("path") or {}).get("def") == "core::option::Option::Some" and only_break:
                    itl = H.peel_ref(iv["recv"])
                    return ("loop", self.W(inner["then"]), {"kind": "for", "over": itl["name"], "e": itl, "pat": pt, "body": inner["then"], "sp": e.get("sp"),
                                                           "while_let": True})
        if k == "loop":
            return ("loop", self.W(e["body"]), {"kind": "while" if "While" in e.get("src", "") else "loop", "over": "", "sp": e.get("sp")})
        if k == "ret":
            return ("seq", [self.W(e.get("e")), ("ret",)])
        if k == "break":
            return ("break",)
        if k == "continue":
            return ("continue",)
        if k == "closure":
            return ("seq", [])
        if k in ("call", "mcall"):
            return self.W_call(e)
        if k in ("assign", "assignop"):
            l = H.peel_ref(e["l"])
            if l.get("k") == "local" and l["name"] in self.sinks and self.sinks[l["name"]] == "buffer":
                # buffer = <string>  (re-initialisation): treated as an append of the new contents after a reset marker
                return ("seq", [("w", l["name"], ("reset",)), ("w", l["name"], self.S(e["r"]))])
            r_ = H.peel_ref(e["r"])
            if k == "assign" and l.get("k") == "local" and isinstance(r_, dict) and r_.get("k") == "lit" and r_["lit"]["t"] == "str":
                return ("set", l["name"], r_["lit"]["v"])        # a literal-valued mutable local (separator variables)
            return self.W(e["r"])
        if k == "fmt":
            return ("seq", [self.W(p["arg"]) for p in e["pieces"] if "arg" in p])
        if k == "format":
            return self.W(e["fmt"])
        # generic: effects of sub-expressions in order
        subs = []
        for key in ("base", "e", "l", "r", "idx", "recv"):
            if isinstance(e.get(key), dict):
                subs.append(self.W(e[key]))
        for key in ("es", "args"):
            if isinstance(e.get(key), list):
                subs += [self.W(x) for x in e[key]]
        if k == "struct":
            subs = [self.W(x["e"]) for x in e["fields"]]
        return ("seq", subs)

    def W_nonsink_args(self, e):
        return self.W(e)

    def W_call(self, e):
        k = e["k"]
        name = e.get("name") or (e.get("callee") or "").rsplit("::", 1)[-1]
        callee = e.get("callee") or ""
        args = list(e.get("args") or [])
        recv = e.get("recv") if k == "mcall" else None
        if H.diverges(e):
            return ("diverge", text(e))
        # result adaptors on writes: .unwrap()/.expect()/.ok()/?
        if k == "mcall" and name in ("unwrap", "expect", "ok", "unwrap_or_default") and callee.startswith("core::result::Result"):
            return self.W(recv)
        # appends
        if k == "mcall" and name in APPEND_METHODS:
            s = self.sink_of(recv)
            if s is not None:
                return ("seq", [self.W(args[0]), ("w", s, self.S(args[0]))])
        if k == "mcall" and name == "clear":
            s = self.sink_of(recv)
            if s is not None:
                return ("w", s, ("reset",))
        if k == "mcall" and name in ("reserve", "reserve_exact", "shrink_to_fit", "capacity", "len", "is_empty") and self.sink_of(recv) is not None:
            return ("seq", [self.W(a) for a in args])        # no text is written
        # identifier writes
        if callee in ("crate::types::Iden::prepare", "crate::types::Iden::unquoted") and k == "mcall":
            s = self.sink_of(args[0]) if args else None
            if s is not None:
                kind = "IDEN_QUOTED" if name == "prepare" else "IDEN_RAW"
                return ("w", s, ("hole", kind, {"what": text(recv), "quote": text(args[1]) if len(args) > 1 else None, "callee": H.callee(e)}, e.get("sp")))
        # parameter push
        if callee == "crate::prepare::SqlWriter::push_param" and k == "mcall":
            s = self.sink_of(recv)
            if s is not None:
                return ("w", s, ("hole", "VALUE_PARAM", {"what": text(args[0])}, e.get("sp")))
        # iterator adaptors with closures that write
        clos = [a for a in args if isinstance(a, dict) and a.get("k") == "closure"]
        if clos and name in ("fold", "for_each", "map", "try_for_each", "any", "all", "position", "filter", "filter_map", "find", "inspect", "try_fold"):
            items = [self.W(recv)] if recv is not None else []
            for a in args:
                if a.get("k") != "closure":
                    items.append(self.W(a))
            c = clos[0]
            body = self.W(c["body"])
            params = c.get("params") or []
            info = {"kind": name, "over": text(recv) if recv is not None else "", "e": recv, "params": params, "init": args[0] if name in ("fold", "try_fold") else None,
                    "closure": c, "sp": e.get("sp")}
            if has_writes(body):
                items.append(("loop", body, info))
            return ("seq", items)
        # a local closure called directly (`let write_bound = |b| {..}; write_bound(lo)`): its body runs here.  Closures that
        # are only handed to another renderer stay as they are (the closure-arg blocks below).
        if k == "call" and "fn_expr" in e:
            fe = H.peel_ref(e["fn_expr"])
            if isinstance(fe, dict) and fe.get("k") == "local" and fe.get("name") in self.env_closures and getattr(self, "_inl", 0) < 3:
                c = self.env_closures[fe["name"]]
                self._inl = getattr(self, "_inl", 0) + 1
                items = [self.W(a) for a in args]
                saved = dict(self.sinks)
                renames = []
                for cp, a in zip(c.get("params") or [], args):
                    sk = self.sink_of(a)
                    if sk is not None and cp["pat"].get("k") == "bind":
                        self.sinks[cp["pat"]["name"]] = self.sinks.get(sk, "writer")
                        renames.append((cp["pat"]["name"], sk))
                body = self.W(c["body"])
                for old_, new_ in renames:
                    body = rename_sink(body, old_, new_)
                self.sinks = saved
                self._inl -= 1
                items.append(body)
                return ("seq", items)
        # a call that is handed a sink: another renderer writes into it
        all_args = ([recv] if recv is not None else []) + args
        sink_args = [(i, self.sink_of(a)) for i, a in enumerate(all_args)]
        sink_args = [(i, s) for i, s in sink_args if s is not None]
        if sink_args:
            i, s = sink_args[0]
            items = []
            for j, a in enumerate(all_args):
                if j != i and a.get("k") != "closure":
                    items.append(self.W(a))
            closures = {}
            for j, a in enumerate(all_args):
                if a.get("k") == "closure":
                    closures[j] = a
                elif H.peel_ref(a).get("k") == "local" and H.peel_ref(a).get("name") in self.env_closures:
                    closures[j] = self.env_closures[H.peel_ref(a)["name"]]
            for j, c in closures.items():
                # a closure handed to another renderer (it is called back with the sink): its writes happen somewhere
                # inside the callee - kept as an optional, repeatable block right after the call
                saved = dict(self.sinks)
                for cp in c.get("params") or []:
                    pt = self.f.ty(cp.get("ty")) or ""
                    if cp["pat"].get("k") == "bind" and any(w in pt for w in WRITER_TYPES):
                        self.sinks[cp["pat"]["name"]] = "writer"
                        cb = self.W(c["body"])
                        # writes to the closure's own writer parameter are writes to the sink that was handed over
                        cb = rename_sink(cb, cp["pat"]["name"], s)
                        if has_writes(cb):
                            items.append(("loop", cb, {"kind": "closure-arg", "over": "", "sp": c.get("sp")}))
                self.sinks = saved
            items.append(("w", s, ("call", callee, {"resolved": e.get("resolved"), "recv": text(recv) if recv is not None else None,
                                                      "recv_ty": self.f.ty(e.get("recv_ty")) if e.get("recv_ty") is not None else None,
                                                      "args": [text(a) for a in args], "arg_nodes": all_args, "sink_index": i, "is_method": k == "mcall",
                                                      "closures": closures, "node": e}, e.get("sp"))))
            return ("seq", items)
        # calling a closure parameter:  f(column_def, sql)
        if k == "call" and "fn_expr" in e:
            return ("seq", [self.W(a) for a in args])
        items = []
        if recv is not None:
            items.append(self.W(recv))
        for a in args:
            items.append(self.W(a))
        return ("seq", items)

    # ---- string values --------------------------------------------------------------------------
    def S(self, e, depth=0):
        if e is None or depth > 30:
            return ("hole", "UNKNOWN", {"what": "depth"}, None)
        e0 = e
        e = H.peel_ref(e)
        k = e.get("k")
        t = self.ty(e)
        if k == "lit":
            if e["lit"]["t"] in ("str", "char"):
                return ("lit", e["lit"]["v"])
            if e["lit"]["t"] in ("int", "float"):
                return ("lit", str(e["lit"]["v"]))
        if k == "fmt":
            out = []
            for p in e["pieces"]:
                if "lit" in p:
                    out.append(("lit", p["lit"]))
                else:
                    a = p["arg"]
                    at = strip_ref(self.ty(a))
                    if p["trait"] in ("upper_hex", "lower_hex") and at == "u8" and p.get("width") == 2:
                        out.append(("hole", "HEX2", {"what": text(a), "trait": p["trait"], "flags": p.get("flags")}, a.get("sp")))
                    elif p["trait"] != "display" or p.get("width") is not None or p.get("precision") is not None:
                        out.append(("hole", "FORMATTED", {"what": text(a), "trait": p["trait"], "width": p.get("width"), "ty": at}, a.get("sp")))
                    else:
                        out.append(self.S(a, depth + 1))
            return ("seq", out)
        if k == "format":
            return self.S(e["fmt"], depth + 1)
        if k == "local":
            nm = e["name"]
            if nm in self.sinks and self.sinks[nm] == "buffer":
                return ("buf", nm)
            if nm in self.env:
                return self.env[nm]
            return self.hole_for(e, "local " + nm)
        if k == "path" and ("Const" in (e.get("dk") or "") or "Static" in (e.get("dk") or "")) and e.get("def") in self.f.fns and depth < 8:
            # a named text constant (`const AND_SEPARATOR: &str = " AND ";`): its initialiser
            cb = self.f.fns[e["def"]].get("hir")
            cb = H.peel_ref(H.peel(cb)) if isinstance(cb, dict) else None
            while isinstance(cb, dict) and cb.get("k") == "block" and not cb.get("stmts") and cb.get("expr") is not None:
                cb = H.peel_ref(H.peel(cb["expr"]))
            if isinstance(cb, dict) and cb.get("k") == "lit" and cb["lit"]["t"] in ("str", "char"):
                return ("lit", cb["lit"]["v"])
        if k == "tuple_field":
            b_ = H.peel_ref(e["base"])
            if b_.get("k") == "local" and b_.get("name") in self.env_tuple and e["idx"] < len(self.env_tuple[b_["name"]].get("es") or []):
                return self.S(self.env_tuple[b_["name"]]["es"][e["idx"]], depth + 1)
            return ("hole", "UNKNOWN", {"what": "%s.%d" % (text(e["base"]), e["idx"]), "of": e["base"], "idx": e["idx"]}, e.get("sp"))
        if k == "field":
            return self.hole_for(e, text(e))
        if k == "block":
            tail = H.peel_ref(e["expr"]) if isinstance(e.get("expr"), dict) else None
            stmts = e.get("stmts") or []
            if tail is not None and tail.get("k") == "local" and any(
                    s.get("k") == "stmt_let" and s["pat"].get("k") == "bind" and s["pat"].get("mut") and s["pat"].get("name") == tail["name"] for s in stmts):
                # `{ let mut buf = String::from(".."); ..push_str..; buf }`: the value is what the block writes into the buffer
                eff = ("seq", [self.W(s) for s in stmts])
                if self.sinks.get(tail["name"]) == "buffer":
                    return project(eff, tail["name"])
            for s in stmts:
                if s.get("k") == "stmt_let" and s["pat"].get("k") == "bind" and s.get("init") is not None and not s["pat"].get("mut"):
                    self.env[s["pat"]["name"]] = self.S(s["init"], depth + 1)
                    self.env_expr[s["pat"]["name"]] = s["init"]
            if e.get("expr") is not None:
                return self.S(e["expr"], depth + 1)
        if k == "if":
            alts = [(self.guard(e["cond"], True), self.S(e["then"], depth + 1))]
            if e.get("else") is not None:
                alts.append((self.guard(e["cond"], False), self.S(e["else"], depth + 1)))
            return ("alt", alts)
        if k == "match":
            alts = []
            for arm in e["arms"]:
                g = {"text": pat_text(arm["pat"]) + ((" if " + text(arm["guard"])) if arm.get("guard") is not None else ""),
                     "pat": arm["pat"], "scrut": e["scrut"], "arm_guard": arm.get("guard"), "sp": arm.get("sp")}
                b = arm["body"]
                pb = H.peel(b)
                while isinstance(pb, dict) and pb.get("k") == "block" and not pb.get("stmts") and pb.get("expr") is not None:
                    pb = H.peel(pb["expr"])
                if isinstance(pb, dict) and pb.get("k") in ("ret", "break", "continue"):
                    # `let x = match y { .. , V => return };`: control left the function where the value was computed (the
                    # effect tree has that exit); where the value is *used* this arm cannot have been taken
                    continue
                if any(True for p in [b] if H.diverges(H.peel(b))) or self.is_diverging(b):
                    alts.append((g, ("diverge", text(H.peel(b)))))
                else:
                    alts.append((g, self.S(b, depth + 1)))
            return ("alt", alts)
        if k == "binary" and e["op"] == "+" and is_stringy(self.ty(e)):
            return ("seq", [self.S(e["l"], depth + 1), self.S(e["r"], depth + 1)])
        if k == "cast":
            return self.S(e["e"], depth + 1)
        if k == "unary" and e["op"] == "deref":
            return self.S(e["e"], depth + 1)
        if k == "mcall" and e.get("name") in ("map_or", "unwrap_or", "unwrap_or_default", "unwrap", "expect") and (is_stringy(strip_ref(t or "")) or strip_ref(t or "") == "char"):
            # text looked up in a constant table: `TABLE.iter().find(..).map_or("", |(_, kw)| kw)` and
            # `.. .map(|(_, kw)| *kw).unwrap_or("")`: one alternative per row, one for "not found"
            nm_, a_ = e["name"], e.get("args") or []
            src_, proj, dflt = e["recv"], None, None
            if nm_ == "map_or" and len(a_) == 2 and H.peel_ref(a_[1]).get("k") == "closure":
                proj, dflt = H.peel_ref(a_[1]), a_[0]
            else:
                if nm_ == "unwrap_or" and len(a_) == 1:
                    dflt = a_[0]
                elif nm_ == "unwrap_or_default":
                    dflt = {"k": "lit", "lit": {"t": "str", "v": ""}}
                r_ = H.peel_ref(src_)
                if r_.get("k") == "mcall" and r_.get("name") == "map" and len(r_.get("args") or []) == 1 and H.peel_ref(r_["args"][0]).get("k") == "closure":
                    proj, src_ = H.peel_ref(r_["args"][0]), r_["recv"]
            lk = self.lookup_rows(src_) if proj is not None else None
            if lk is not None and len(proj.get("params") or []) == 1:
                tname, rows = lk["table"], lk["rows"]
                alts = []
                for ri, row in enumerate(rows):
                    alts.append((self.row_guard(lk, ri), self.with_row(proj["params"][0], row, lambda: self.S(proj["body"], depth + 1))))
                if dflt is not None and not lk["total"]:
                    alts.append((self.row_guard(lk, None), self.S(dflt, depth + 1)))
                return ("alt", alts)
        if k == "call" and "fn_expr" in e:
            # a local closure that computes text, called directly (`let label = |v| self.escape_string(&v.to_string()); .. label(x)`):
            # the text of its body with the parameters standing for the arguments
            fe = H.peel_ref(e["fn_expr"])
            if isinstance(fe, dict) and fe.get("k") == "local" and fe.get("name") in self.env_closures and getattr(self, "_sinl", 0) < 3:
                c = self.env_closures[fe["name"]]
                cps = c.get("params") or []
                if len(cps) == len(e.get("args") or []) and all((cp.get("pat") or {}).get("k") == "bind" for cp in cps):
                    saved = (dict(self.env), dict(self.env_expr))
                    self._sinl = getattr(self, "_sinl", 0) + 1
                    try:
                        for cp, a in zip(cps, e.get("args") or []):
                            self.env[cp["pat"]["name"]] = self.S(a, depth + 1)
                            self.env_expr[cp["pat"]["name"]] = a
                        return self.S(c["body"], depth + 1)
                    finally:
                        self._sinl -= 1
                        self.env, self.env_expr = saved
        if k in ("mcall", "call"):
            name = e.get("name") or (e.get("callee") or "").rsplit("::", 1)[-1]
            callee = e.get("callee") or ""
            recv = e.get("recv")
            args = e.get("args") or []
            if k == "mcall" and name in ("to_string", "to_owned", "into", "as_str", "as_ref", "clone", "deref", "borrow", "to_uppercase_",
                                         "as_mut_str", "into_owned", "unwrap", "to_str_") and not args:
                rt = strip_ref(self.f.ty(e.get("recv_ty")))
                if is_stringy(rt) or rt in ("char",) or H.peel_ref(recv).get("k") in ("lit",):
                    return self.S(recv, depth + 1)
                if name == "to_string":
                    if rt in NUM_TYPES or rt in FLOAT_TYPES:
                        return ("hole", "NUM", {"what": text(recv), "ty": rt}, e.get("sp"))
                    if "dyn crate::types::Iden" in rt or rt.startswith("crate::types::SeaRc<") or callee == "crate::types::Iden::to_string":
                        return ("hole", "IDEN_RAW", {"what": text(recv), "via": "to_string"}, e.get("sp"))
                    return ("hole", "DISPLAY", {"what": text(recv), "ty": rt}, e.get("sp"))
                if name in ("unwrap", "as_ref", "clone", "deref", "borrow", "into"):
                    return self.S(recv, depth + 1)
            if k == "call" and name in ("from", "to_string", "to_owned", "into") and len(args) == 1 and recv is None and \
                    callee in ("core::convert::From::from", "core::convert::Into::into", "alloc::string::ToString::to_string", "alloc::borrow::ToOwned::to_owned") and \
                    is_stringy(strip_ref(self.ty(args[0]))) and is_stringy(strip_ref(self.ty(e))):
                return self.S(args[0], depth + 1)        # String::from("lit") and friends: the same text
            if callee == "crate::backend::EscapeBuilder::escape_string":
                return ("hole", "ESCAPED_STR", {"what": text(args[0]) if args else "", "inner": self.S(args[0], depth + 1) if args else None, "node": e}, e.get("sp"))
            if callee == "crate::types::Iden::quoted":
                return ("hole", "IDEN_QUOTED_BODY", {"what": text(recv), "quote": text(args[0]) if args else None}, e.get("sp"))
            if callee == "crate::types::Iden::to_string":
                return ("hole", "IDEN_RAW", {"what": text(recv), "via": "to_string"}, e.get("sp"))
            if callee in ("crate::types::Quote::left", "crate::types::Quote::right"):
                return ("hole", "QUOTE_L" if name == "left" else "QUOTE_R", {"what": text(recv)}, e.get("sp"))
            if k == "mcall" and name == "join" and args:
                inner = self.S(recv, depth + 1)
                return ("sepby", inner, self.S(args[0], depth + 1))
            if k == "mcall" and name in ("collect",):
                return self.S(recv, depth + 1)
            if k == "mcall" and name == "map" and args and args[0].get("k") == "closure":
                return ("star1", self.S(args[0]["body"], depth + 1), {"over": text(recv)})
            if k == "mcall" and name in ("format",) and "chrono" in callee or callee.startswith("time::"):
                return ("hole", "FMT_SAFE", {"what": text(e), "callee": H.callee(e)}, e.get("sp"))
            # a function that returns text
            rt = strip_ref(self.ty(e))
            if (is_stringy(rt)) and depth < 6 and getattr(self, "_vinl", 0) < 2:
                # a private helper of the crate that only computes text (no writer parameter): its text is the text of its body
                for d_ in (H.callee(e), callee):
                    cf = self.f.fns.get(d_ or "")
                    if cf is not None and cf.get("hir") is not None and (d_ or "").startswith("crate::") and d_ != self.name and \
                            not (cf.get("owner") or {}).get("trait") and "::tests" not in d_:
                        try:
                            ct = fn_tir(self.f, d_)
                            if ct.sinks and any(k_ == "writer" for k_ in ct.sinks.values()):
                                break
                            ct._vinl = getattr(self, "_vinl", 0) + 1
                            r = ct.S(ct.body, depth + 1)
                        except Exception:
                            break
                        bad = [a for a in atoms(r) if a[0] in ("callv", "buf") or (a[0] == "hole" and a[1] in ("UNKNOWN", "DISPLAY"))]
                        if not bad:
                            return r
                        break
            if is_stringy(rt) or rt == "char":
                return ("callv", callee, {"resolved": e.get("resolved"), "recv": text(recv) if recv is not None else None,
                                          "recv_ty": self.f.ty(e.get("recv_ty")) if e.get("recv_ty") is not None else None,
                                          "args": [text(a) for a in args], "arg_nodes": ([recv] if recv is not None else []) + list(args), "node": e}, e.get("sp"))
            return self.hole_for(e, text(e))
        return self.hole_for(e, text(e))

    def lookup_rows(self, e, depth=0):
        """`TABLE.iter().find(|row| ..)` over a constant array of tuples (also behind `.copied()`, a local, or
        `opt.and_then(|x| TABLE.iter().find(..))`): {"table", "rows": [tuple expressions], "find", "total"}, or None.
        Which row is found depends on run-time data: every row is a possible outcome, and so is "none" unless the table is
        total (the closure compares one component with `==` and the rows list every variant of that enum) and no outer
        Option is involved."""
        e = H.peel_ref(H.peel(e)) if isinstance(e, dict) else None
        if not isinstance(e, dict) or depth > 4:
            return None
        k = e.get("k")
        if k == "local":
            src = self.env_expr.get(e["name"])
            return self.lookup_rows(src, depth + 1) if isinstance(src, dict) else None
        if k == "block" and not e.get("stmts") and e.get("expr") is not None:
            return self.lookup_rows(e["expr"], depth + 1)
        if k != "mcall":
            return None
        nm, args = e.get("name"), e.get("args") or []
        if nm in ("copied", "cloned", "as_ref") and not args:
            return self.lookup_rows(e["recv"], depth + 1)
        if nm == "and_then" and len(args) == 1 and H.peel_ref(args[0]).get("k") == "closure":
            clo_ = H.peel_ref(args[0])
            r = self.lookup_rows(clo_["body"], depth + 1)
            if r is not None:
                ps_ = clo_.get("params") or []
                p0 = (ps_[0].get("pat") if isinstance(ps_[0], dict) and ps_[0].get("k") is None and "pat" in ps_[0] else ps_[0]) if len(ps_) == 1 else None
                # the outer Option may be None
                r = dict(r, total=False, find=e, outer=(e["recv"], p0.get("name")) if isinstance(p0, dict) and p0.get("k") == "bind" and r.get("outer") is None else None)
            return r
        if nm == "find" and len(args) == 1 and H.peel_ref(args[0]).get("k") == "closure":
            r = H.peel_ref(e["recv"])
            while r.get("k") == "mcall" and r.get("name") in ("iter", "into_iter", "copied", "cloned", "as_slice") and not r.get("args"):
                r = H.peel_ref(r["recv"])
            if r.get("k") == "path" and ("Const" in (r.get("dk") or "") or "Static" in (r.get("dk") or "")) and r.get("def") in self.f.fns:
                body = self.f.fns[r["def"]].get("hir")
                body = H.peel_ref(H.peel(body)) if isinstance(body, dict) else None
                while isinstance(body, dict) and body.get("k") == "block" and not body.get("stmts") and body.get("expr") is not None:
                    body = H.peel_ref(H.peel(body["expr"]))
                if isinstance(body, dict) and body.get("k") == "array":
                    rows = [H.peel_ref(H.peel(x)) for x in body.get("es") or []]
                    if rows and all(isinstance(x, dict) and x.get("k") == "tuple" for x in rows):
                        total, key = self._lookup_total(H.peel_ref(args[0]), rows)
                        return {"table": r["def"], "rows": rows, "find": e, "total": total, "key": key, "outer": None}
        return None

    def _lookup_total(self, clo, rows):
        ps = clo.get("params") or []
        if len(ps) != 1:
            return (False, None)
        pat = ps[0].get("pat") if isinstance(ps[0], dict) and ps[0].get("k") is None and "pat" in ps[0] else ps[0]
        while isinstance(pat, dict) and pat.get("k") in ("ref", "deref") and isinstance(pat.get("pat"), dict):
            pat = pat["pat"]
        if not isinstance(pat, dict) or pat.get("k") != "tuple":
            return (False, None)
        names = {}
        for i_, sb in enumerate(pat.get("subs") or []):
            while isinstance(sb, dict) and sb.get("k") in ("ref", "deref") and isinstance(sb.get("pat"), dict):
                sb = sb["pat"]
            if isinstance(sb, dict) and sb.get("k") == "bind":
                names[sb["name"]] = i_
        b = H.peel_ref(H.peel(clo["body"]))
        while isinstance(b, dict) and b.get("k") == "block" and not b.get("stmts") and b.get("expr") is not None:
            b = H.peel_ref(H.peel(b["expr"]))
        if not isinstance(b, dict) or b.get("k") != "binary" or b.get("op") != "==":
            return (False, None)

        def comp(x):
            x = H.peel_ref(x)
            while isinstance(x, dict) and x.get("k") == "unary" and x.get("op") == "deref":
                x = H.peel_ref(x["e"])
            return names.get(x.get("name")) if isinstance(x, dict) and x.get("k") == "local" else None
        j, other = comp(b["l"]), b["r"]
        if j is None:
            j, other = comp(b["r"]), b["l"]
        if j is None:
            return (False, None)
        defs = []
        for row in rows:
            c = H.peel_ref(row["es"][j]) if j < len(row.get("es") or []) else {}
            if c.get("k") != "path" or not c.get("def"):
                return (False, None)
            defs.append(c["def"])
        enum = defs[0].rsplit("::", 1)[0]
        adt = self.f.adts.get(enum)
        if not adt or adt.get("kind") != "enum":
            return (False, None)
        allv = [v["def"] for v in adt["variants"]]
        return (all(not v.get("fields") for v in adt["variants"]) and set(defs) == set(allv), {"j": j, "other": other, "defs": defs})

    def row_guard(self, lk, ri):
        """the guard of one outcome of a table lookup (ri = None: not found). When the lookup compares an enum component
        with `==`, the outcome is the match arm `<compared expression> is <that variant>` (so that what callers already
        know about the expression carries over); otherwise only the lookup expression is recorded"""
        tname = lk["table"].rsplit("::", 1)[-1]
        g = {"text": ("%s[%d]" % (tname, ri)) if ri is not None else "not in %s" % tname, "table": lk["table"], "row": ri, "scrut": lk["find"]}
        key = lk.get("key")
        if key:
            other = H.peel_ref(key["other"])
            while isinstance(other, dict) and other.get("k") == "unary" and other.get("op") == "deref":
                other = H.peel_ref(other["e"])
            vp = {"k": "variant", "path": {"def": key["defs"][ri]}, "subs": []} if ri is not None else {"k": "wild"}
            outer = lk.get("outer")
            if outer is not None and isinstance(other, dict) and other.get("k") == "local" and other.get("name") == outer[1]:
                g["scrut"] = outer[0]
                g["pat"] = {"k": "variant", "path": {"def": "core::option::Option::Some"}, "subs": [vp]} if ri is not None else {"k": "wild"}
            elif outer is None:
                g["scrut"] = other
                g["pat"] = vp
        return g


    def with_row(self, pat, row, fn):
        """evaluate fn() with the names of a closure parameter / pattern bound to the components of a table row"""
        saved = (dict(self.env), dict(self.env_tuple))
        try:
            pat = pat.get("pat") if isinstance(pat, dict) and "pat" in pat and pat.get("k") is None else pat
            while isinstance(pat, dict) and pat.get("k") in ("ref", "deref") and isinstance(pat.get("pat"), dict):
                pat = pat["pat"]
            if isinstance(pat, dict) and pat.get("k") == "tuple":
                for i_, sb in enumerate(pat.get("subs") or []):
                    while isinstance(sb, dict) and sb.get("k") in ("ref", "deref") and isinstance(sb.get("pat"), dict):
                        sb = sb["pat"]
                    if isinstance(sb, dict) and sb.get("k") == "bind" and i_ < len(row.get("es") or []):
                        self.env[sb["name"]] = self.S(row["es"][i_])
            elif isinstance(pat, dict) and pat.get("k") == "bind":
                self.env_tuple[pat["name"]] = row
            return fn()
        finally:
            self.env, self.env_tuple = saved

    def component(self, e, i, depth=0):
        """string-TIR of the i-th component of a tuple-valued expression: through `if` / `match` / blocks down to the tuple
        literals; whatever is not a tuple literal stays an UNKNOWN hole that remembers the expression"""
        e0 = e
        e = H.peel_ref(H.peel(e)) if isinstance(e, dict) else e
        if isinstance(e, dict) and depth < 6:
            k = e.get("k")
            if k == "tuple" and i < len(e.get("es") or []):
                return self.S(e["es"][i], depth + 1)
            if k == "block" and e.get("expr") is not None and not e.get("stmts"):
                return self.component(e["expr"], i, depth + 1)
            if k == "if" and e.get("else") is not None:
                return ("alt", [(self.guard(e["cond"], True), self.component(e["then"], i, depth + 1)),
                                (self.guard(e["cond"], False), self.component(e["else"], i, depth + 1))])
            if k == "match":
                alts = []
                for arm in e["arms"]:
                    g = {"text": pat_text(arm["pat"]) + ((" if " + text(arm["guard"])) if arm.get("guard") is not None else ""),
                         "pat": arm["pat"], "scrut": e["scrut"], "arm_guard": arm.get("guard"), "sp": arm.get("sp")}
                    if H.diverges(H.peel(arm["body"])) or self.is_diverging(arm["body"]):
                        continue
                    alts.append((g, self.component(arm["body"], i, depth + 1)))
                return ("alt", alts)
            if k in ("call", "mcall") and depth < 3:
                # a crate helper that returns the tuple (`fn split(..) -> (&str, &'static str)`): the component of its result
                for d in (H.callee(e), e.get("callee")):
                    cf = self.f.fns.get(d or "")
                    if cf is not None and cf.get("hir") is not None and (d or "").startswith("crate::") and d != self.name:
                        try:
                            ct = fn_tir(self.f, d)
                            r = ct.component(ct.body, i, depth + 1)
                        except Exception:
                            r = None
                        if r is not None and not (r[0] == "hole" and r[1] == "UNKNOWN"):
                            # run-time parts of the helper's result depend on what the caller handed in: their provenance is
                            # the call expression here, not the helper's own locals
                            def reroot(x):
                                if not isinstance(x, tuple) or not x:
                                    return x
                                if x[0] == "hole" and x[1] in ("UNKNOWN", "STR", "DISPLAY"):
                                    d_ = dict(x[2] or {})
                                    d_["of"] = e0
                                    d_["node"] = e0
                                    d_["what"] = "%s.%d" % (text(e0), i)
                                    return ("hole", x[1], d_) + tuple(x[3:])
                                if x[0] == "seq":
                                    return ("seq", [reroot(y) for y in x[1]])
                                if x[0] == "alt":
                                    return ("alt", [(g_, reroot(y)) for g_, y in x[1]])
                                return x
                            return reroot(r)
                        break
        e = e0 if isinstance(e0, dict) else {}
        return ("hole", "UNKNOWN", {"what": "%s.%d" % (text(e), i), "of": e, "idx": i}, e.get("sp"))

    def is_diverging(self, b):
        b = H.peel(b)
        if isinstance(b, dict) and b.get("k") == "block":
            for s in b.get("stmts") or []:
                x = s.get("e") if s.get("k") == "semi" else s
                if isinstance(x, dict) and H.diverges(x):
                    return True
        return False

    def hole_for(self, e, what):
        t = strip_ref(self.ty(e))
        sp = e.get("sp")
        if t in NUM_TYPES:
            return ("hole", "NUM", {"what": what, "ty": t}, sp)
        if t in FLOAT_TYPES:
            return ("hole", "FLOAT", {"what": what, "ty": t}, sp)
        if t == "char":
            return ("hole", "CHAR", {"what": what}, sp)
        if t == "bool":
            return ("hole", "BOOL", {"what": what}, sp)
        if is_stringy(t):
            return ("hole", "STR", {"what": what, "ty": t, "node": e}, sp)
        if "dyn crate::types::Iden" in t or t.startswith("crate::types::SeaRc<"):
            return ("hole", "IDEN_DISPLAY", {"what": what}, sp)
        return ("hole", "DISPLAY", {"what": what, "ty": t}, sp)


def rename_sink(E, old, new):
    k = E[0]
    if k == "w":
        return ("w", new if E[1] == old else E[1], E[2])
    if k == "seq":
        return ("seq", [rename_sink(x, old, new) for x in E[1]])
    if k == "alt":
        return ("alt", [(g, rename_sink(x, old, new)) for g, x in E[1]])
    if k == "loop":
        return ("loop", rename_sink(E[1], old, new), E[2])
    return E


def has_effects(E):
    """writes or control transfers (ret/break/continue); pure `diverge` in value position is kept by S()"""
    k = E[0]
    if k in ("w", "ret", "break", "continue"):
        return True
    if k == "seq":
        return any(has_effects(x) for x in E[1])
    if k == "alt":
        return any(has_effects(x) for _, x in E[1])
    if k == "loop":
        return has_effects(E[1])
    return False


def has_writes(E):
    k = E[0]
    if k == "w":
        return True
    if k == "seq":
        return any(has_writes(x) for x in E[1])
    if k == "alt":
        return any(has_writes(x) for _, x in E[1])
    if k == "loop":
        return has_writes(E[1])
    return False


def project(E, sink, bufs=None, keep_sets=False):
    """string-TIR of everything `E` appends to `sink` (control flow kept). Returns an S tree.  With keep_sets the
    assignments of string literals to mutable locals are kept as ("set", name, value) atoms."""
    k = E[0]
    if k == "w":
        return E[2] if E[1] == sink else ("seq", [])
    if k == "set":
        return E if keep_sets else ("seq", [])
    if k == "seq":
        out = []
        for x in E[1]:
            p = project(x, sink, bufs, keep_sets)
            if p == ("seq", []):
                continue
            out.append(p)
        return ("seq", out) if len(out) != 1 else out[0]
    if k == "alt":
        alts = [(g, project(x, sink, bufs, keep_sets)) for g, x in E[1]]
        if all(a == ("seq", []) for _, a in alts):
            return ("seq", [])
        return ("alt", alts)
    if k == "loop":
        b = project(E[1], sink, bufs, keep_sets)
        if b == ("seq", []):
            return ("seq", [])
        return ("loop", b, E[2])
    if k in ("ret", "break", "continue"):
        return ("ctl", k)
    if k == "diverge":
        return ("diverge", E[1])
    return ("seq", [])


_cache = {}


def fn_tir(f, name):
    key = (id(f), name)
    if key not in _cache:
        _cache[key] = FnTir(f, name)
    return _cache[key]


def flat(S):
    """flatten nested seqs"""
    if S[0] != "seq":
        return [S]
    out = []
    for x in S[1]:
        out += flat(x)
    return out


def show(S, depth=0):
    """compact rendering of a string-TIR for reports"""
    k = S[0]
    if depth > 8:
        return "…"
    if k == "lit":
        return repr(S[1])
    if k == "hole":
        d = S[2] or {}
        return "<%s %s%s>" % (S[1], d.get("what", ""), (":" + d["ty"]) if S[1] in ("DISPLAY", "NUM") and d.get("ty") else "")
    if k == "seq":
        return " ".join(show(x, depth + 1) for x in S[1])
    if k == "alt":
        return "(" + " | ".join("%s" % show(x, depth + 1) for g, x in S[1]) + ")"
    if k == "loop":
        return "{%s}*" % show(S[1], depth + 1)
    if k in ("star", "star1"):
        return "{%s}*" % show(S[1], depth + 1)
    if k == "sepby":
        return "{%s / %s}" % (show(S[1], depth + 1), show(S[2], depth + 1))
    if k == "call":
        return "@%s" % S[1].rsplit("::", 1)[-1]
    if k == "callv":
        return "$%s(%s)" % (S[1].rsplit("::", 1)[-1], ", ".join(S[2].get("args") or []))
    if k == "buf":
        return "buf:" + S[1]
    if k == "ctl":
        return "^" + S[1]
    if k == "diverge":
        return "!diverge"
    if k == "reset":
        return "^reset"
    return str(k)


def flow(S, states, atom_fn, depth=0):
    """Forward dataflow over a string-TIR: `states` is a frozenset of abstract states; atom_fn(state, atom) returns an
    iterable of successor states (it may record findings).  alt = union of branches, loop = least fixpoint (0+ iterations).
    Control atoms (ctl/diverge) end the flow of the current branch (over-approximated: states are dropped)."""
    k = S[0]
    if k == "seq":
        for x in S[1]:
            states = flow(x, states, atom_fn, depth + 1)
            if not states:
                break
        return states
    if k == "alt":
        out = set()
        for g, x in S[1]:
            out |= flow(x, states, atom_fn, depth + 1)
        return frozenset(out)
    if k in ("loop", "star", "star1"):
        cur = set(states)
        for _ in range(50):
            nxt = set(flow(S[1], frozenset(cur), atom_fn, depth + 1)) | cur
            if nxt == cur:
                break
            cur = nxt
        return frozenset(cur)
    if k == "sepby":
        cur = set(states)
        for _ in range(50):
            a = flow(S[1], frozenset(cur), atom_fn, depth + 1)
            b = flow(S[2], a, atom_fn, depth + 1)
            nxt = set(a) | set(b) | cur
            if nxt == cur:
                break
            cur = nxt
        return frozenset(cur)
    if k in ("ctl", "diverge"):
        return frozenset()
    out = set()
    for st in states:
        out |= set(atom_fn(st, S))
    return frozenset(out)


def atoms(S):
    """every atom (lit/hole/call/callv/buf) of a string-TIR, in syntactic order"""
    k = S[0]
    if k == "seq":
        for x in S[1]:
            yield from atoms(x)
    elif k == "alt":
        for _, x in S[1]:
            yield from atoms(x)
    elif k in ("loop", "star", "star1"):
        yield from atoms(S[1])
    elif k == "sepby":
        yield from atoms(S[1])
        yield from atoms(S[2])
    elif k in ("ctl", "diverge", "reset"):
        return
    else:
        yield S


def sink_fns(f, include_tests=False):
    """names of all functions that have at least one text sink (writer parameter or local buffer written to)"""
    out = []
    for name, fn in f.fns.items():
        if fn.get("kind") != "fn" or fn.get("hir") is None:
            continue
        if not include_tests and ("::tests::" in name or "::test::" in name or "::tests_" in name):
            continue
        try:
            t = fn_tir(f, name)
        except Exception as e:   # extraction error: reported by the caller
            out.append((name, None, e))
            continue
        if t.sinks and has_writes(t.effects):
            out.append((name, t, None))
    return out


def expand_paths(S, limit=4096):
    """all linear paths of a loop-free string-TIR: [(guards, [atoms])]; raises Anchor on loops or explosion"""
    k = S[0]
    if k == "seq":
        paths = [([], [])]
        for x in S[1]:
            sub = expand_paths(x, limit)
            paths = [(g + g2, a + a2) for g, a in paths for g2, a2 in sub]
            if len(paths) > limit:
                raise Anchor("path explosion in TIR")
        return paths
    if k == "alt":
        out = []
        for g, x in S[1]:
            for g2, a2 in expand_paths(x, limit):
                out.append(([g] + g2, a2))
        return out
    if k in ("loop", "star", "star1", "sepby"):
        raise Anchor("loop in a TIR expected to be loop-free")
    if k in ("ctl", "diverge"):
        return [([], [S])]
    return [([], [S])]


def inline_calls(f, S, depth=2):
    """replace calls to crate functions that are handed the sink by what those functions write (parameter names of the
    callee are replaced by the caller's argument text in loop headers and hole descriptions)"""
    if depth <= 0:
        return S
    k = S[0]
    if k == "seq":
        return ("seq", [inline_calls(f, x, depth) for x in S[1]])
    if k == "alt":
        return ("alt", [(g, inline_calls(f, x, depth)) for g, x in S[1]])
    if k in ("loop", "star", "star1"):
        return (k, inline_calls(f, S[1], depth)) + tuple(S[2:])
    if k == "sepby":
        return ("sepby", inline_calls(f, S[1], depth), inline_calls(f, S[2], depth)) + tuple(S[3:])
    if k == "call":
        info = S[2]
        target = info.get("resolved") if info.get("resolved") not in (None, "=") else S[1]
        if target in f.fns and f.fns[target].get("hir") is not None:
            try:
                t = fn_tir(f, target)
            except Exception:
                return S
            idx = info.get("sink_index")
            if idx is not None and idx < len(t.params) and t.params[idx][0] in t.sinks:
                body = expand_bufs(t, project(t.effects, t.params[idx][0]))
                ren = {}
                for i, a in enumerate(info.get("args") or []):
                    if i < len(t.params) and t.params[i][0]:
                        ren[t.params[i][0]] = a.lstrip("&")
                return inline_calls(f, _rename_params(body, ren), depth - 1)
    return S


def _rename_params(S, ren):
    k = S[0]
    if k == "seq":
        return ("seq", [_rename_params(x, ren) for x in S[1]])
    if k == "alt":
        return ("alt", [(g, _rename_params(x, ren)) for g, x in S[1]])
    if k in ("loop", "star", "star1"):
        info = S[2] if len(S) > 2 and isinstance(S[2], dict) else None
        if info is not None and (info.get("over") or "") in ren:
            info = dict(info, over=ren[info["over"]])
        return (k, _rename_params(S[1], ren)) + ((info,) if info is not None else tuple(S[2:])) + tuple(S[3:])
    if k == "sepby":
        return ("sepby", _rename_params(S[1], ren), _rename_params(S[2], ren)) + tuple(S[3:])
    if k == "hole" and isinstance(S[2], dict) and (S[2].get("what") or "") in ren:
        return ("hole", S[1], dict(S[2], what=ren[S[2]["what"]]), S[3] if len(S) > 3 else None)
    return S


def expand_bufs(t, S, seen=()):
    """replace the use of a local string buffer by what the function writes into that buffer"""
    k = S[0]
    if k == "seq":
        return ("seq", [expand_bufs(t, x, seen) for x in S[1]])
    if k == "alt":
        return ("alt", [(g, expand_bufs(t, x, seen)) for g, x in S[1]])
    if k in ("loop", "star", "star1"):
        return (k, expand_bufs(t, S[1], seen)) + tuple(S[2:])
    if k == "sepby":
        return ("sepby", expand_bufs(t, S[1], seen), expand_bufs(t, S[2], seen)) + tuple(S[3:])
    if k == "buf" and S[1] in t.sinks and t.sinks[S[1]] == "buffer" and S[1] not in seen:
        return expand_bufs(t, project(t.effects, S[1]), seen + (S[1],))
    return S
