//! sqfacts: a rustc_private driver that dumps resolved facts (items, HIR bodies with typeck
//! results, MIR bodies, trait-solver answers) about the crate being compiled as one JSON file.
//!
//! Used as RUSTC_WORKSPACE_WRAPPER under `cargo +nightly check`; behaves exactly like rustc
//! (the compilation continues normally) and additionally writes
//! `$SQF_OUT/<crate-name>[.test].json` for every crate whose name is listed in `$SQF_CRATES`
//! (comma separated).
#![feature(rustc_private)]
#![allow(clippy::all)]

extern crate rustc_abi;
extern crate rustc_ast;
extern crate rustc_data_structures;
extern crate rustc_driver;
extern crate rustc_hir;
extern crate rustc_infer;
extern crate rustc_interface;
extern crate rustc_middle;
extern crate rustc_session;
extern crate rustc_span;
extern crate rustc_trait_selection;

mod hirdump;
mod items;
mod json;
mod mirdump;

use json::J;
use rustc_driver::Compilation;
use rustc_interface::interface::Compiler;
use rustc_middle::ty::TyCtxt;
use std::collections::HashMap;

pub struct Ctx<'tcx> {
    pub tcx: TyCtxt<'tcx>,
    pub types: Vec<String>,
    pub type_ix: HashMap<String, usize>,
}

impl<'tcx> Ctx<'tcx> {
    pub fn ty_str(&self, ty: rustc_middle::ty::Ty<'tcx>) -> String {
        use rustc_middle::ty::print::{
            with_crate_prefix, with_no_trimmed_paths, with_no_visible_paths,
        };
        with_crate_prefix!(with_no_visible_paths!(with_no_trimmed_paths!(ty.to_string())))
    }
    pub fn ty(&mut self, ty: rustc_middle::ty::Ty<'tcx>) -> J {
        let s = self.ty_str(ty);
        if let Some(i) = self.type_ix.get(&s) {
            return J::Int(*i as i128);
        }
        let i = self.types.len();
        self.types.push(s.clone());
        self.type_ix.insert(s, i);
        J::Int(i as i128)
    }
    pub fn def(&self, did: rustc_hir::def_id::DefId) -> String {
        use rustc_middle::ty::print::{
            with_crate_prefix, with_no_trimmed_paths, with_no_visible_paths,
        };
        with_crate_prefix!(with_no_visible_paths!(with_no_trimmed_paths!(
            self.tcx.def_path_str(did)
        )))
    }
    /// "file:line:col" of the outermost call site of `span` plus the macro chain
    /// (innermost first) if the span comes from an expansion.
    pub fn sp(&self, span: rustc_span::Span) -> (String, Vec<String>) {
        let mut macs = Vec::new();
        let mut s = span;
        let mut n = 0;
        while s.from_expansion() && n < 32 {
            let ed = s.ctxt().outer_expn_data();
            let name = match ed.kind {
                rustc_span::ExpnKind::Macro(_, name) => name.to_string(),
                rustc_span::ExpnKind::Desugaring(k) => format!("desugar:{:?}", k),
                rustc_span::ExpnKind::AstPass(k) => format!("astpass:{:?}", k),
                rustc_span::ExpnKind::Root => "root".to_string(),
            };
            macs.push(name);
            s = ed.call_site;
            n += 1;
        }
        let sm = self.tcx.sess.source_map();
        let lo = sm.lookup_char_pos(s.lo());
        let file = match &lo.file.name {
            rustc_span::FileName::Real(r) => match r.local_path() {
                Some(p) => p.to_string_lossy().to_string(),
                None => format!("{:?}", r),
            },
            other => format!("{:?}", other),
        };
        (format!("{}:{}:{}", file, lo.line, lo.col.0 + 1), macs)
    }
    pub fn sp_j(&self, span: rustc_span::Span) -> (J, J) {
        let (s, m) = self.sp(span);
        let mj = if m.is_empty() {
            J::Null
        } else {
            J::Arr(m.into_iter().map(J::Str).collect())
        };
        (J::Str(s), mj)
    }
    pub fn snippet(&self, span: rustc_span::Span, max: usize) -> J {
        let mut s = span;
        let mut n = 0;
        while s.from_expansion() && n < 32 {
            s = s.ctxt().outer_expn_data().call_site;
            n += 1;
        }
        match self.tcx.sess.source_map().span_to_snippet(s) {
            Ok(t) => {
                let t: String = t.split_whitespace().collect::<Vec<_>>().join(" ");
                if t.len() > max {
                    let mut cut = max;
                    while !t.is_char_boundary(cut) {
                        cut -= 1;
                    }
                    J::Str(format!("{}…", &t[..cut]))
                } else {
                    J::Str(t)
                }
            }
            Err(_) => J::Null,
        }
    }
}

struct Cb {
    out: Option<String>,
}

impl rustc_driver::Callbacks for Cb {
    fn after_analysis<'tcx>(&mut self, _c: &Compiler, tcx: TyCtxt<'tcx>) -> Compilation {
        if let Some(out) = &self.out {
            let mut cx = Ctx { tcx, types: Vec::new(), type_ix: HashMap::new() };
            let items = items::dump_items(&mut cx);
            let fns = hirdump::dump_fns(&mut cx);
            let crate_name = tcx.crate_name(rustc_hir::def_id::LOCAL_CRATE).to_string();
            let types = std::mem::take(&mut cx.types);
            let root = obj! {
                "crate": J::Str(crate_name),
                "items": items,
                "fns": fns,
                "types": J::Arr(types.into_iter().map(J::Str).collect()),
            };
            let mut s = String::with_capacity(1 << 24);
            root.write(&mut s);
            let tmp = format!("{}.tmp.{}", out, std::process::id());
            std::fs::write(&tmp, s).expect("sqfacts: cannot write fact file");
            std::fs::rename(&tmp, out).expect("sqfacts: cannot rename fact file");
        }
        Compilation::Continue
    }
}

fn main() {
    let mut args: Vec<String> = std::env::args().collect();
    // As RUSTC_WORKSPACE_WRAPPER we are invoked as `sqfacts /path/to/rustc <args>`.
    if args.len() > 1 && (args[1].ends_with("rustc") || args[1].ends_with("rustc.exe")) {
        args.remove(1);
    }
    let mut crate_name = None;
    let mut is_test = false;
    let mut i = 0;
    while i < args.len() {
        if args[i] == "--crate-name" && i + 1 < args.len() {
            crate_name = Some(args[i + 1].clone());
        }
        if args[i] == "--test" {
            is_test = true;
        }
        i += 1;
    }
    let wanted: Vec<String> = std::env::var("SQF_CRATES")
        .unwrap_or_default()
        .split(',')
        .map(|s| s.trim().to_string())
        .filter(|s| !s.is_empty())
        .collect();
    let out_dir = std::env::var("SQF_OUT").ok();
    let out = match (&crate_name, &out_dir) {
        (Some(n), Some(d)) if wanted.iter().any(|w| w == n) => {
            let _ = std::fs::create_dir_all(d);
            Some(format!("{}/{}{}.json", d, n, if is_test { ".test" } else { "" }))
        }
        _ => None,
    };
    let mut cb = Cb { out };
    rustc_driver::run_compiler(&args, &mut cb);
}
