"""C08  MySQL/Postgres statements carry every clause given, in grammar order.  DESIGN.md section 4, C08."""
from ._structure import run_structure

META = ("other",
        "C08.R1 grammar refinement - the token language each statement renderer can write (NFA built from the linked template "
        "IR: guards free, but correlated boolean flags, shared first-flags, loop-index guards, constant enum arguments, "
        "variants excluded by a calling match and fold decision tables tracked) is included in the dialect grammar skeleton "
        "specs/<dialect>.ebnf; a counterexample is a shortest token string with the emission that leaves the grammar; C08.R6 "
        "hook discipline - inner renderers of overridable backend hooks (specs/hooks.json) are called only from implementations "
        "of the hook;  "
        "Structural conditions of the MySQL and PostgreSQL query renderers over the linked template IR: C08.R2 parentheses, "
        "token adjacency, separator discipline; C08.R3 field consumption per backend (nothing the builder was given is dropped; a "
        "clause is guarded only by its own emptiness; reviewed dialect exceptions), no partial rendering of a clause vector; "
        "C08.R5 keyword / function / operator tables per backend; order preservation",
        "one obligation per (backend, struct field), per separated list, per function with parentheses, per keyword-table row")


def check(run):
    run_structure(run, "C08", "query", ["mysql", "postgres"], run.tier_configs(["default", "all"], ["mysql", "postgres"]))
    run.assumptions.append("NOT decided: acceptance by a full MySQL / PostgreSQL parser; semantics of the parsed statement")
