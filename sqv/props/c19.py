"""C19  Derived identifiers spell the documented names.  DESIGN.md section 4, C19.
The derive is a program transformer: its guards and name sources are analysed in sea-query-derive (same driver), and
its output is cross-checked on every expansion the driver can see in the workspace (tests/derive)."""
import re

from .. import hir as H
from .. import paths as P
from ..facts import nhir, walk
from ..interp import Ch, Interp, Unsupported, Diverged, Var

META = ("other",
        "C19.R1 decision table of must_be_valid_iden over character classes: a name it accepts consists only of [A-Za-z0-9_] "
        "(so it contains no quote character and the generated fast path equals the general quoting); table of "
        "IdenVariant::must_be_valid_iden over (attribute kind x valid/invalid variant name x valid/invalid container name): it "
        "validates exactly the name the variant renders; R2 the `fn prepare` fast path is generated only on paths where a validity condition holds - "
        "that predicate, or the flag is_all_valid, directly or handed to a helper as the bool it branches on - the flag starts true and is only updated by `&= variant.must_be_valid_iden()` for every "
        "variant; R3 name sources: snake_case of the identifier, the `Table` variant takes the container name, rename/method "
        "attributes; enum_def: PascalCase variants, stringify!(field), table_name or snake_case of the struct, prefix+ident+suffix; "
        "R4 witness expansions in tests/derive: literal of every arm = snake_case(variant) or its rename, fast path present iff "
        "all names valid",
        "one obligation per table row, per guard site, per name source, per derive expansion arm")

VALID = set("abcdefghijklmnopqrstuvwxyzABCDEFGHIJKLMNOPQRSTUVWXYZ0123456789_")
CLASS_CHARS = ["a", "Z", "_", "0", "9", '"', "`", "'", "[", "]", " ", "-", ".", "é", "$", "\\", "/", "\n"]


def snake_case(name):
    """independent implementation of heck's ToSnakeCase for Rust identifiers (word boundaries: non-alphanumerics,
    lower->upper, and upper->upper+lower 'acronym' boundary; digits stay attached)"""
    words = []
    for part in re.split(r"[^A-Za-z0-9]+", name):
        if not part:
            continue
        cur = ""
        chars = list(part)
        for i, c in enumerate(chars):
            if cur:
                prev = chars[i - 1]
                nxt = chars[i + 1] if i + 1 < len(chars) else ""
                if c.isupper() and (prev.islower() or prev.isdigit() and False):
                    words.append(cur)
                    cur = ""
                elif c.isupper() and prev.isupper() and nxt.islower():
                    words.append(cur)
                    cur = ""
            cur += c
        if cur:
            words.append(cur)
    return "_".join(w.lower() for w in words)


def builtins():
    return {
        "core::char::methods::<impl char>::is_ascii_alphabetic": lambda it, a: a[0].c.isascii() and a[0].c.isalpha(),
        "core::char::methods::<impl char>::is_ascii_alphanumeric": lambda it, a: a[0].c.isascii() and a[0].c.isalnum(),
        "core::char::methods::<impl char>::is_ascii_digit": lambda it, a: a[0].c in "0123456789",
        "core::char::methods::<impl char>::is_alphanumeric": lambda it, a: a[0].c.isalnum(),
        "core::char::methods::<impl char>::is_alphabetic": lambda it, a: a[0].c.isalpha(),
        "core::char::methods::<impl char>::is_ascii_lowercase": lambda it, a: a[0].c.isascii() and a[0].c.islower(),
        "core::char::methods::<impl char>::is_ascii_uppercase": lambda it, a: a[0].c.isascii() and a[0].c.isupper(),
        "heck::snake::ToSnakeCase::to_snake_case": lambda it, a: snake_case(a[0]),
    }


def check_predicate(run, f, cfg):
    name = "crate::must_be_valid_iden"
    if name not in f.fns:
        run.anchor("C19.R1", "must_be_valid_iden", "fn not found in sea_query_derive", cfg)
        return False
    tests = [""]
    for c in CLASS_CHARS:
        tests += [c, "a" + c, c + "a", "ab" + c + "cd"]
    tests += ["abc", "a1_b", "_x", "1abc", "user", "EMail", "Table"]
    n = 0
    ok_all = True
    for s in tests:
        it = Interp(f, builtins=builtins())
        try:
            r = it.call_fn(name, [s])
        except (Unsupported, Diverged) as e:
            run.ob("C19.R1", "predicate:eval", False, "must_be_valid_iden is outside the tabulated fragment: %s" % e, sp=f.fns[name]["sp"], cfg=cfg)
            return False
        n += 1
        if r is True and not (set(s) <= VALID):
            ok_all = False
            run.ob("C19.R1", "predicate:accepts:%s" % "".join("U+%04X" % ord(c) for c in s), False,
                   "must_be_valid_iden accepts %r, which contains a character outside [A-Za-z0-9_] (the fast path would write it unescaped)" % s,
                   sp=f.fns[name]["sp"], cfg=cfg)
    run.ob("C19.R1", "predicate:table", ok_all, "must_be_valid_iden tabulated on %d strings over %d character classes: every accepted name is [A-Za-z0-9_]* "
           "(no backend quote character, so Iden::quoted is the identity on it)" % (n, len(CLASS_CHARS)), sp=f.fns[name]["sp"], cfg=cfg)
    # it must accept the ordinary names (otherwise the fast path is dead and the rule would be vacuous)
    it = Interp(f, builtins=builtins())
    run.ob("C19.R1", "predicate:accepts-plain", it.call_fn(name, ["first_name"]) is True, "must_be_valid_iden accepts an ordinary snake_case name", sp=f.fns[name]["sp"], cfg=cfg, trivial=True)
    return True


def check_variant_predicate(run, f, cfg):
    """IdenVariant::must_be_valid_iden: tabulated over attribute kinds and names"""
    name = "crate::iden::write_arm::IdenVariant::<'a, T>::must_be_valid_iden"
    if name not in f.fns:
        run.anchor("C19.R1", "IdenVariant::must_be_valid_iden", "method not found", cfg)
        return
    ATTR = "crate::iden::attr::IdenAttr"
    rows = []
    for ident in ("Table", "FirstName", "Id"):
        for table_name in ("user", 'we"ird`tbl', "has space"):
            rows.append((ident, table_name, None, "none"))
            for ren in ("plain_name", 'EM"ail', "Em`ail", "with space"):
                rows.append((ident, table_name, ("__some", Var(ATTR + "::Rename", [ren])), "rename:" + ren))
            rows.append((ident, table_name, ("__some", Var(ATTR + "::Method", ["m"])), "method"))
            rows.append((ident, table_name, ("__some", Var(ATTR + "::Flatten", [])), "flatten"))
    n = 0
    for ident, table_name, attr, label in rows:
        it = Interp(f, builtins=builtins())
        selfv = {"ident": ident, "fields": None, "table_name": table_name, "attr": attr, "_p": None}
        try:
            r = it.call_fn(name, [selfv])
        except (Unsupported, Diverged) as e:
            run.ob("C19.R1", "variant-predicate:eval", False, "IdenVariant::must_be_valid_iden is outside the tabulated fragment: %s" % e, sp=f.fns[name]["sp"], cfg=cfg)
            return
        n += 1
        if label == "none":
            rendered = table_name if ident == "Table" else snake_case(ident)
        elif label.startswith("rename:"):
            rendered = label[7:]
        else:
            rendered = None      # method / flatten: run-time text, never valid
        safe = rendered is not None and set(rendered) <= VALID
        if r is True and not safe:
            run.ob("C19.R1", "variant-predicate:%s:%s:%s" % (ident, "valid-table" if set(table_name) <= VALID else "odd-table", label.split(":")[0]), False,
                   "variant `%s` (container name %r, attribute %s) renders %r but is reported valid: the fast path would write it without escaping"
                   % (ident, table_name, label, rendered if rendered is not None else "<method/flatten text>"), sp=f.fns[name]["sp"], cfg=cfg)
    run.ob("C19.R1", "variant-predicate:table", True, "IdenVariant::must_be_valid_iden tabulated on %d (identifier, container name, attribute) rows" % n, sp=f.fns[name]["sp"], cfg=cfg)


def pushes_prepare(node):
    """does this subtree contain quote!'s push of the identifier `prepare`"""
    for c in H.calls(node):
        if (c.get("callee") or "").startswith("quote::__private::push_ident") or (c.get("callee") or "").endswith("push_ident"):
            for a in c.get("args") or []:
                a = H.peel_ref(a)
                if a.get("k") == "lit" and a["lit"].get("v") == "prepare":
                    return True
    return False


def _is_prepare_push(c):
    return c.get("k") == "call" and ((c.get("callee") or "").startswith("quote::__private::push_ident") or (c.get("callee") or "").endswith("push_ident")) and \
        any(H.peel_ref(a).get("k") == "lit" and H.peel_ref(a)["lit"].get("v") == "prepare" for a in c.get("args") or [])


def _classify_cond(f, cond, taken, fn):
    """what a branch decision says about the validity of the written name:
    ('valid', arg expr) | ('flag', local name) | ('param', index) | None   (only when the decision means `valid`)"""
    cond = H.peel_ref(cond)
    while cond.get("k") == "unary" and cond.get("op") == "not":
        cond = H.peel_ref(cond["e"])
        taken = not taken
    if not taken:
        return None
    if cond.get("k") == "call" and cond.get("callee") == "crate::must_be_valid_iden":
        return ("valid", cond["args"][0])
    if cond.get("k") == "local":
        names = [p_["pat"].get("name") for p_ in fn.get("params") or []]
        if cond["name"] in names:
            return ("param", names.index(cond["name"]))
        return ("flag", cond["name"])
    return None


def push_guards(f, fname):
    """for every path of `fname` that generates the tokens of `fn prepare`: the decision on that path that means `the name is
    plain`.  Returns (number of pushing paths, list of guards, list of problems); (0, [], []) if the function never pushes"""
    fn = f.fns[fname]
    npush, guards, problems = 0, [], []
    for p_ in P.fn_paths(fn["hir"]):
        if not any(_is_prepare_push(c) for c in p_.calls()):
            continue
        npush += 1
        found = None
        for c in p_.conds:
            if c[0] == "if":
                g = _classify_cond(f, c[1], c[2], fn)
                if g is not None:
                    found = g
        if found is None:
            problems.append("a path of %s generates `fn prepare` under no validity condition" % fname.rsplit("::", 1)[-1])
        else:
            guards.append(found)
    return npush, guards, problems


def check_guards(run, f, cfg):
    # helpers that generate the fast path under a bool parameter
    helpers = {}
    for name, fn in f.fns.items():
        if fn.get("kind") != "fn" or fn.get("hir") is None or not name.startswith("crate::") or name in ("crate::impl_iden_for_unit_struct", "crate::impl_iden_for_enum"):
            continue
        if any(_is_prepare_push(c) for c in H.calls(fn["hir"])):
            n_, gs, probs = push_guards(f, name)
            helpers[name] = (n_, gs, probs)
    for fname, kind in (("crate::impl_iden_for_unit_struct", "unit"), ("crate::impl_iden_for_enum", "enum")):
        fn = f.fns.get(fname)
        if fn is None:
            run.anchor("C19.R2", fname, "not found", cfg)
            continue
        body = fn["hir"]
        npush, guards, problems = push_guards(f, fname)
        # calls to a helper: the argument bound to the helper's guarding parameter is the guard
        for c in H.calls(body):
            h = c.get("callee") if c.get("k") == "call" else None
            if h in helpers:
                n_, gs, probs = helpers[h]
                problems += probs
                for g in gs:
                    if g[0] == "param":
                        a = H.peel_ref(c["args"][g[1]])
                        g2 = _classify_cond(f, a, True, fn)
                        if g2 is None or g2[0] == "param":
                            problems.append("%s is called with a condition that is not a validity test: %s" % (h.rsplit("::", 1)[-1], a.get("src")))
                        else:
                            guards.append(g2)
                            npush += 1
                    else:
                        problems.append("%s guards the fast path by something of its own (%s)" % (h.rsplit("::", 1)[-1], g[0]))
        run.ob("C19.R2", "%s:prepare-only-guarded" % kind, npush >= 1 and not problems,
               "%s: the tokens of `fn prepare` are generated only on paths where a validity condition holds (directly or through a helper taking the "
               "condition)%s" % (fname.rsplit("::", 1)[-1], "" if not problems else " - NOT: " + "; ".join(problems)), sp=fn["sp"], cfg=cfg,
               detail={"pushing_paths": npush, "guards": [g[0] for g in guards]})
        if not guards:
            continue
        if kind == "unit":
            ok = all(g[0] == "valid" and H.place(g[1]) == fn["params"][1]["pat"].get("name") for g in guards)
            run.ob("C19.R2", "unit:guard", ok, "unit struct: the fast path is guarded by must_be_valid_iden(table_name) of the very name that is written", sp=fn["sp"], cfg=cfg)
        else:
            flags = set(g[1] for g in guards if g[0] == "flag")
            ok = len(flags) == 1 and all(g[0] == "flag" for g in guards)
            flag = list(flags)[0] if ok else None
            run.ob("C19.R2", "enum:guard", ok, "enum: the fast path is guarded by the flag `%s`" % flag, sp=fn["sp"], cfg=cfg)
            if ok:
                inits = [n for n in walk(body) if n.get("k") == "stmt_let" and n["pat"].get("k") == "bind" and n["pat"]["name"] == flag]
                iok = len(inits) == 1 and H.peel_ref(inits[0]["init"]).get("k") == "lit" and H.peel_ref(inits[0]["init"])["lit"]["v"] is True
                assigns = [n for n in walk(body) if n.get("k") in ("assign", "assignop") and H.place(n["l"]) == flag]
                # the other spelling of the same conjunction: `let flag = variants.iter().all(|v| v.must_be_valid_iden())`
                conj = False
                if len(inits) == 1 and not assigns and not iok:
                    i0 = H.peel_ref(inits[0]["init"])
                    if i0.get("k") == "mcall" and i0.get("name") == "all" and len(i0.get("args") or []) == 1 and H.peel_ref(i0["args"][0]).get("k") == "closure":
                        clo = H.peel_ref(i0["args"][0])
                        cb = H.peel_ref(H.peel(clo["body"]))
                        ps = clo.get("params") or []
                        pn = (ps[0].get("pat") or ps[0]).get("name") if len(ps) == 1 else None
                        rc, chain_ok = H.peel_ref(i0["recv"]), True
                        while rc.get("k") == "mcall":
                            chain_ok = chain_ok and rc.get("name") in ("iter", "into_iter", "as_slice", "as_ref") and not rc.get("args")
                            rc = H.peel_ref(rc["recv"])
                        conj = bool(pn) and cb.get("k") == "mcall" and cb.get("name") == "must_be_valid_iden" and H.place(cb["recv"]) == pn and \
                            (cb.get("callee") or "").endswith("IdenVariant::<'a, T>::must_be_valid_iden") and chain_ok and rc.get("k") == "local"
                if conj:
                    run.ob("C19.R2", "enum:flag-init", True, "the flag is the conjunction `<variants>.iter().all(|v| v.must_be_valid_iden())` (true for no variants)", sp=fn["sp"], cfg=cfg)
                    run.ob("C19.R2", "enum:flag-update", True, "the flag is defined once, as that conjunction over every variant, and never assigned", sp=fn["sp"], cfg=cfg)
                    chain = [c.get("name") for c in H.calls(body) if c.get("k") == "mcall" and c["name"] in ("filter", "take", "skip", "step_by", "filter_map", "take_while", "skip_while")]
                    run.ob("C19.R2", "enum:all-variants", not chain, "every variant passes through the validating closure (`all` over the collection; no filtering adaptor "
                           "anywhere in the function)", sp=fn["sp"], cfg=cfg, detail=chain)
                    continue
                run.ob("C19.R2", "enum:flag-init", iok, "the flag starts as true", sp=fn["sp"], cfg=cfg)
                aok = len(assigns) == 1 and assigns[0].get("k") == "assignop" and assigns[0].get("op") == "&="
                if aok:
                    r = H.peel_ref(assigns[0]["r"])
                    aok = r.get("k") == "mcall" and r["name"] == "must_be_valid_iden" and (r.get("callee") or "").endswith("IdenVariant::<'a, T>::must_be_valid_iden")
                run.ob("C19.R2", "enum:flag-update", aok, "the flag is only ever updated by `&= variant.must_be_valid_iden()`", sp=fn["sp"], cfg=cfg,
                       detail=[n.get("op") for n in assigns])
                # the update happens in the closure mapped over all variants (no filter/take/skip before it)
                chain = [c.get("name") for c in H.calls(body) if c.get("k") == "mcall" and c["name"] in ("map", "filter", "take", "skip", "step_by", "filter_map", "take_while", "skip_while", "collect", "rev")]
                run.ob("C19.R2", "enum:all-variants", not (set(chain) & {"filter", "take", "skip", "step_by", "filter_map", "take_while", "skip_while"}),
                       "every variant passes through the validating closure (no filtering adaptor)", sp=fn["sp"], cfg=cfg, detail=chain)


def find_calls(fn, suffix):
    return [c for c in H.calls(fn["hir"]) if (H.callee(c) or "").endswith(suffix) or (c.get("callee") or "").endswith(suffix)]


def tok_builtins():
    """quote!'s expansion over a token list: `#x` appends ("tok", x), literal tokens append their kind"""
    b = builtins()

    def push(tag):
        def fn(it, a):
            a[0].append((tag,) + tuple(x for x in a[1:] if isinstance(x, (str, list))))
            return ()
        return fn
    b["proc_macro2::TokenStream::new"] = lambda it, a: []
    b["quote::to_tokens::ToTokens::to_tokens"] = lambda it, a: (a[1].append(("tok", a[0])), ())[1]
    for n in ("ident", "dot", "group", "comma", "colon2", "colon", "semi", "pound", "bang", "and", "star", "eq", "fat_arrow", "rarrow", "lt", "gt",
              "underscore", "lifetime", "literal"):
        b["quote::__private::push_" + n] = push(n)
    b["crate::iden::write_arm::WriteArm::variant"] = lambda it, a: Var("variant", [a[0], a[1]])
    return b


IDENT_D = "proc_macro2::Ident"
ATTR_D = "crate::iden::attr::IdenAttr::"


def get_table_name_by_interp(run, f, cfg, g):
    """get_table_name on (type identifier) x (no attribute, rename literal, method, flatten, unparsable attribute)"""
    from ..interp import Opaque
    rows, bad = 0, []
    attrs = [("none", None), ("rename", ("Ok", Var(ATTR_D + "Rename", ["Custom Name"]))), ("rename2", ("Ok", Var(ATTR_D + "Rename", ["x"]))),
             ("method", ("Ok", Var(ATTR_D + "Method", [Var(IDENT_D, ["m"])]))), ("flatten", ("Ok", Var(ATTR_D + "Flatten", []))), ("bad", ("Err", Opaque("syn::Error")))]
    for tname in ("Hello", "UserProfile", "HTTPServer", "Id2", "Table"):
        for an, parsed in attrs:
            b = builtins()
            b["crate::find_attr"] = lambda it_, a, parsed=parsed: None if parsed is None else ("__some", Opaque("attr"))
            b["core::convert::TryInto::try_into"] = lambda it_, a, parsed=parsed: parsed
            b["syn::error::Error::new_spanned"] = lambda it_, a: Opaque("syn::Error")
            it = Interp(f, builtins=b)
            it.display_hook = lambda v: v.fields[0] if isinstance(v, Var) and v.d == IDENT_D else None
            rows += 1
            r = it.call_fn("crate::get_table_name", [Var(IDENT_D, [tname]), Opaque("attrs")])
            if isinstance(r, Var) and r.d in ("core::result::Result::Ok", "core::result::Result::Err") and len(r.fields) == 1:
                r = (r.d.rsplit("::", 1)[-1], r.fields[0])
            if an == "none":
                want = ("Ok", snake_case(tname))
            elif an.startswith("rename"):
                want = ("Ok", parsed[1].fields[0])
            else:
                want = "Err"
            got = r if want != "Err" else (r[0] if isinstance(r, tuple) and r else r)
            if got != want:
                bad.append("type %s, container attribute %s: %r, expected %r" % (tname, an, r, want))
    run.ob("C19.R3", "get_table_name:default", not any("attribute none" in x for x in bad),
           "without a container attribute the table name is snake_case(type identifier) (get_table_name interpreted on %d (type name, attribute) rows)%s"
           % (rows, "" if not bad else " - NOT: " + "; ".join(x for x in bad if "attribute none" in x)[:300]), sp=g["sp"], cfg=cfg)
    rb = [x for x in bad if "attribute none" not in x]
    run.ob("C19.R3", "get_table_name:rename", not rb,
           "a container rename attribute yields its literal unchanged; method / flatten / unparsable container attributes are errors%s"
           % ("" if not rb else " - NOT: " + "; ".join(rb)[:300]), sp=g["sp"], cfg=cfg)


def write_variant_name_by_interp(run, f, cfg, w):
    """write_variant_name on (variant identifier) x (no attribute, rename, method): the tokens handed to WriteArm::variant"""
    from ..interp import Opaque
    ws = "crate::iden::write_arm::IdenVariant::<'a, T>::write_variant_name"
    rows, bad = 0, []
    for ident in ("Table", "FirstName", "HTTPServer", "Id2"):
        for an, attr in (("none", None), ("rename", ("__some", Var(ATTR_D + "Rename", ["Custom Name"]))),
                         ("method", ("__some", Var(ATTR_D + "Method", [Var(IDENT_D, ["my_method"])])))):
            it = Interp(f, builtins=tok_builtins())
            rows += 1
            r = it.call_fn(ws, [{"ident": ident, "table_name": "the_container", "attr": attr, "fields": None, "_p": None}, Opaque("variant")])
            name = r.fields[1] if isinstance(r, Var) and r.d == "variant" and isinstance(r.fields[0], Opaque) else None
            if an == "none":
                want = [("tok", "the_container" if ident == "Table" else snake_case(ident))]
            elif an == "rename":
                want = [("tok", "Custom Name")]
            else:
                want = [("ident", "self"), ("dot",), ("tok", Var(IDENT_D, ["my_method"])), ("group", [])]
            if name != want:
                bad.append("variant %s, attribute %s: the name tokens are %r, expected %r" % (ident, an, name, want))
    run.ob("C19.R3", "write_variant_name:default", not bad,
           "write_variant_name interpreted on %d (variant, attribute) rows: without an attribute the written name is table_or_snake_case(), rename writes its literal, "
           "method writes `self.<method>()`%s" % (rows, "" if not bad else " - NOT: " + "; ".join(bad)[:400]), sp=w["sp"], cfg=cfg)


def check_name_sources(run, f, cfg):
    ts = "crate::iden::write_arm::IdenVariant::<'a, T>::table_or_snake_case"
    fn = f.fns.get(ts)
    if fn is None:
        run.anchor("C19.R3", "table_or_snake_case", "not found", cfg)
    else:
        table = {}
        for ident in ("Table", "table", "FirstName", "ID", "HTTPServer", "Id2", "TABLE"):
            it = Interp(f, builtins=builtins())
            try:
                table[ident] = it.call_fn(ts, [{"ident": ident, "table_name": "the_container_name", "attr": None, "fields": None, "_p": None}])
            except (Unsupported, Diverged) as e:
                run.ob("C19.R3", "table_or_snake_case:eval", False, "outside the tabulated fragment: %s" % e, sp=fn["sp"], cfg=cfg)
                table = None
                break
        if table is not None:
            want = {i: ("the_container_name" if i == "Table" else snake_case(i)) for i in table}
            run.ob("C19.R3", "table_or_snake_case", table == want, "a variant named `Table` takes the container name, every other variant the snake_case of its identifier",
                   sp=fn["sp"], cfg=cfg, detail={"got": table, "want": want})
        run.ob("C19.R3", "table_or_snake_case:heck", len(find_calls(fn, "ToSnakeCase::to_snake_case")) == 1, "the default name comes from heck::ToSnakeCase", sp=fn["sp"], cfg=cfg)
    g = f.fns.get("crate::get_table_name")
    if g is None:
        run.anchor("C19.R3", "get_table_name", "not found", cfg)
    else:
        try:
            get_table_name_by_interp(run, f, cfg, g)
            g = None
        except (Unsupported, Diverged):
            pass
    if g is not None:
        sn = find_calls(g, "ToSnakeCase::to_snake_case")
        ok = len(sn) == 1
        if ok:
            r = H.peel_ref(sn[0]["recv"]) if sn[0].get("k") == "mcall" else {}
            ok = r.get("k") == "mcall" and r["name"] == "to_string" and H.place(r["recv"]) == g["params"][0]["pat"].get("name")
        run.ob("C19.R3", "get_table_name:default", ok, "without a container attribute the table name is snake_case(type identifier)", sp=g["sp"], cfg=cfg)
        # Rename(lit) => lit
        arms = [a for m in walk(g["hir"]) if m.get("k") == "match" for a in m["arms"] if "Rename" in str((a["pat"].get("path") or {}).get("def"))]
        def yielded(b):
            # the value an arm yields, through `Ok(..)`, `return ..` and one-expression blocks
            b = H.peel_ref(H.peel(b))
            while isinstance(b, dict):
                if b.get("k") == "call" and b.get("callee") == "core::result::Result::Ok" and len(b.get("args") or []) == 1:
                    b = H.peel_ref(H.peel(b["args"][0]))
                elif b.get("k") == "ret" and b.get("e") is not None:
                    b = H.peel_ref(H.peel(b["e"]))
                else:
                    break
            return b
        ok = len(arms) == 1 and H.place(yielded(arms[0]["body"])) == (arms[0]["pat"].get("subs") or [{}])[0].get("name")
        run.ob("C19.R3", "get_table_name:rename", ok, "a container rename attribute yields its literal unchanged", sp=g["sp"], cfg=cfg)
    w = f.fns.get("crate::iden::write_arm::IdenVariant::<'a, T>::write_variant_name")
    if w is None:
        run.anchor("C19.R3", "write_variant_name", "not found", cfg)
    else:
        try:
            write_variant_name_by_interp(run, f, cfg, w)
            w = None
        except (Unsupported, Diverged):
            pass
    if w is not None:
        cs = [c.get("name") for c in H.calls(w["hir"]) if c.get("k") == "mcall" and H.place(c["recv"]) == "self"]
        run.ob("C19.R3", "write_variant_name:default", "table_or_snake_case" in cs, "without a variant attribute the written name is table_or_snake_case()", sp=w["sp"], cfg=cfg)
    e = f.fns.get("crate::enum_def")
    if e is None:
        run.anchor("C19.R3", "enum_def", "not found", cfg)
    else:
        pc = find_calls(e, "ToPascalCase::to_pascal_case")
        sc = find_calls(e, "ToSnakeCase::to_snake_case")
        run.ob("C19.R3", "enum_def:pascal", len(pc) == 1, "enum_def variants are the PascalCase of the field identifiers (heck)", sp=e["sp"], cfg=cfg)
        ok = len(sc) == 1
        if ok:
            r = H.peel_ref(sc[0]["recv"])
            ok = r.get("k") == "mcall" and r["name"] == "to_string" and (H.place(r["recv"]) or "").endswith("input.ident")
        if not check_enum_def_table_ident(run, f, cfg):
            # the interpolated identifier could not be interpreted: the syntactic form of its default
            run.ob("C19.R3", "enum_def:table", ok, "enum_def `Table` defaults to snake_case(struct identifier)", sp=e["sp"], cfg=cfg)
        if check_enum_def_table_ident(run, f, cfg, option="prefix"):
            return
        body = nhir(f, "crate::enum_def")
        frags = [T_text(n["scrut"]) for n in walk(body) if n.get("k") == "match" and "quote::format_ident" in (n.get("mac") or [])]
        fm = [n for n in walk(body) if n.get("k") == "fmt" and "quote::format_ident" in (n.get("mac") or [])]
        ok = len(frags) == 3 and "prefix" in frags[0] and "input.ident" in frags[1] and "suffix" in frags[2] and \
            len(fm) == 1 and all("arg" in p for p in fm[0]["pieces"]) and len(fm[0]["pieces"]) == 3
        run.ob("C19.R3", "enum_def:name", ok, "the generated enum is named prefix + struct identifier + suffix", sp=e["sp"], cfg=cfg)


RUST_KEYWORDS = set("as break const continue crate else enum extern false fn for if impl in let loop match mod move mut pub ref return self Self static struct "
                    "super trait true type unsafe use where while async await dyn abstract become box do final macro override priv typeof unsized "
                    "virtual yield try".split())


def check_enum_def_table_ident(run, f, cfg, option="table_name"):
    """the identifier that #[enum_def] interpolates for the `Table` variant: the backward slice of its definition (the lets
    it depends on) is interpreted for type names that are ordinary, multi-word, acronyms and Rust keywords, with and
    without `table_name = ".."`; the spelled identifier must be the option or snake_case(type name), nothing added"""
    from ..interp import Opaque
    e = f.fns.get("crate::enum_def")
    if e is None:
        return False
    body = H.alpha_rename(nhir(f, "crate::enum_def"))
    QUOTE = ("quote::quote", "quote", "quote_spanned", "quote::quote_spanned")
    # the lets the function itself writes (those inside the expansion of quote! are the interpolation machinery)
    lets = [n for n in walk(body) if n.get("k") == "stmt_let" and n.get("init") is not None and
            not (((n.get("init") or {}).get("mac") or [None])[-1] in QUOTE)]
    interp_locals = set()
    for c in H.calls(body):
        if (c.get("callee") or "").endswith("ToTokens::to_tokens"):
            a = c["args"][0] if c.get("k") == "call" else c["recv"]
            if H.place(a):
                interp_locals.add(H.place(a))

    def free_locals(node):
        return set(n["name"] for n in walk(node) if n.get("k") == "local")

    def mentions_option(node):
        return any(n.get("k") == "field" and n.get("name") == option for n in walk(node))
    key = "enum_def:table-ident" if option == "table_name" else "enum_def:name"
    # the slice: lets (in order) that the interpolated local depends on, for the local whose slice reads args.table_name
    target, slice_ = None, None
    for cand in sorted(interp_locals):
        need, chosen = {cand}, []
        for l in reversed(lets):
            bound = set(b["name"] for b in walk(l["pat"]) if b.get("k") == "bind")
            if bound & {"args", "input"}:
                continue            # the parsed macro input: the sources of the slice
            if bound & need:
                chosen.append(l)
                need |= free_locals(l["init"])
        if any(mentions_option(l["init"]) for l in chosen):
            target, slice_ = cand, list(reversed(chosen))
            break
    if target is None:
        if option == "table_name":
            run.anchor("C19.R3", "enum_def:table-ident", "no interpolated identifier of enum_def depends on the table_name option", cfg)
        return False
    IDENT = "proc_macro2::Ident"
    bad, rows = [], 0
    try:
        for tname in ("Hello", "UserProfile", "HTTPServer", "Type", "Match", "Ref"):
            for opt in ((None, "custom_table", "type") if option == "table_name" else ((None, None), ("Pre", None), (None, "Suf"), ("Pre", "Suf"), ("", ""))):
                rows += 1
                b = builtins()
                b.update({
                    IDENT + "::new": lambda it_, a: Var(IDENT, [a[0]]),
                    IDENT + "::new_raw": lambda it_, a: Var(IDENT, ["r#" + a[0]]),
                    IDENT + "::span": lambda it_, a: Opaque("span"),
                    "syn::parse_str": lambda it_, a: (("Ok", Var(IDENT, [a[0]])) if (a[0] not in RUST_KEYWORDS and a[0].isidentifier()) else ("Err", Opaque("syn::Error"))),
                    "quote::__private::mk_ident": lambda it_, a: Var(IDENT, [a[0]]),
                    "quote::__private::IdentFragmentAdapter::<T>::span": lambda it_, a: None,
                })
                it = Interp(f, builtins=b)
                it.free_opaque = True
                def disp(v):
                    # quote's IdentFragmentAdapter displays its payload as an identifier fragment
                    while isinstance(v, Var) and v.d == "quote::__private::IdentFragmentAdapter" and len(v.fields) == 1:
                        v = v.fields[0]
                    return v.fields[0] if isinstance(v, Var) and v.d == IDENT else (v if isinstance(v, str) else None)
                it.display_hook = disp
                some = lambda v: ("__some", v) if v is not None else None
                env = {"args": {"table_name": some(opt), "crate_name": None, "prefix": None, "suffix": None} if option == "table_name" else
                       {"table_name": None, "crate_name": None, "prefix": some(opt[0]), "suffix": some(opt[1])},
                       "input": {"ident": Var(IDENT, [tname]), "attrs": Opaque("attrs"), "vis": Opaque("vis"), "fields": Opaque("fields"), "generics": Opaque("g")}}
                for l in slice_:
                    if any(bn in ("args", "input") for bn in (x["name"] for x in walk(l["pat"]) if x.get("k") == "bind")):
                        continue        # the parsed macro input itself
                    it.ev(l, env)
                got = env.get(target)
                if option == "table_name":
                    want = opt if opt is not None else snake_case(tname)
                else:
                    want = ("" if opt[0] is None else opt[0]) + tname + ("Iden" if opt[1] is None else opt[1])
                if not (isinstance(got, Var) and got.d == IDENT and got.fields[0] == want):
                    bad.append("struct %s, %s = %r: %s is spelled %r, expected %r" % (tname, option if option == "table_name" else "(prefix, suffix)", opt,
                                                                                   "`Table`" if option == "table_name" else "the generated enum",
                                                                                   got.fields[0] if isinstance(got, Var) else got, want))
    except (Unsupported, Diverged) as ex:
        if option == "table_name":
            run.ob("C19.R3", "enum_def:table-ident", False, "the definition of `%s` in enum_def is outside the tabulated fragment: %s" % (target, ex), sp=e["sp"], cfg=cfg)
        return False
    if option == "table_name":
        run.ob("C19.R3", "enum_def:table-ident", not bad,
               "enum_def: the identifier interpolated for `Table` (`%s`, %d lets interpreted on %d (type name, table_name option) rows incl. keyword names) is the option, "
               "else snake_case(type name), with nothing added%s" % (target, len(slice_), rows, "" if not bad else " - NOT: " + "; ".join(bad[:3])), sp=e["sp"], cfg=cfg)
    else:
        run.ob("C19.R3", "enum_def:name", not bad,
               "enum_def: the generated enum's identifier (`%s`, %d lets interpreted on %d (type name, prefix, suffix) rows) is prefix + struct identifier + suffix, "
               "defaults \"\" and \"Iden\"%s" % (target, len(slice_), rows, "" if not bad else " - NOT: " + "; ".join(bad[:3])), sp=e["sp"], cfg=cfg)
    return True


def T_text(e):
    from ..tir import text
    return text(e)


def parse_attrs(src):
    """{variant name: (kind, value)} and container attr from the item's source text"""
    out = {}
    container = None
    if not src:
        return container, out
    pend = None
    for line in src.splitlines():
        line = line.strip()
        m = re.match(r'#\[(iden|method)\s*(?:=\s*"((?:[^"\\]|\\.)*)"|\((.*)\))\s*\]', line)
        if m:
            if m.group(1) == "method":
                pend = ("method", m.group(2))
            elif m.group(2) is not None:
                pend = ("rename", m.group(2))
            else:
                inner = m.group(3)
                mm = re.match(r'\s*(rename|method)\s*=\s*"((?:[^"\\]|\\.)*)"', inner)
                if mm:
                    pend = (mm.group(1), mm.group(2))
                elif "flatten" in inner:
                    pend = ("flatten", None)
                else:
                    pend = ("unknown", inner)
            continue
        mv = re.match(r"(?:pub\s+)?(enum|struct)\s+(\w+)", line)
        if mv:
            container = pend
            pend = None
            continue
        mv = re.match(r"(\w+)\s*(\(|\{|,|$)", line)
        if mv and not line.startswith("//") and not line.startswith("#"):
            out[mv.group(1)] = pend
            pend = None
    return container, out


def fmt_text(fm):
    """constant text of a format_args whose arguments are literals (the compiler inlines `write!(s, "{}", "lit")`)"""
    out = ""
    for p in fm["pieces"]:
        if "lit" in p:
            out += p["lit"]
        else:
            a = H.peel_ref(p["arg"])
            if a.get("k") == "lit" and a["lit"]["t"] == "str":
                out += a["lit"]["v"]
            else:
                return None
    return out


def container_attr(sp):
    """helper attribute written above an item: read the source lines preceding the item (derive helper attributes are not
    kept in HIR).  Only used to know which name the witness is expected to spell."""
    import os
    from ..facts import repo_root
    try:
        file, line = sp.split(":")[0], int(sp.split(":")[1])
        lines = open(os.path.join(repo_root(), file)).read().splitlines()
    except Exception:
        return None
    i = line - 2
    found = None
    while i >= 0:
        t = lines[i].strip()
        if t.startswith("#[") or t.startswith("//") or t == "":
            c, _ = parse_attrs(t + "\nenum X")
            if c is not None:
                found = c
            if t == "":
                break
            i -= 1
            continue
        break
    return found


def check_witnesses(run, f, cfg):
    """expansions visible in the test-derive target of the repository"""
    try:
        t = run.facts(cfg, "test_derive.test")
    except SystemExit:
        run.anchor("C19.R4", "test_derive", "no facts for the test-derive target", cfg)
        return
    n = 0
    for i in t.impls:
        if i.get("trait") != "sea_query::types::Iden" or "Iden" not in (i.get("mac") or []):
            continue
        adt = t.adts.get(i.get("self_adt") or "")
        if adt is None:
            continue
        n += 1
        short = i["self_adt"].rsplit("::", 1)[-1]
        container, vattrs = parse_attrs(adt.get("src"))
        container = container or container_attr(adt.get("sp") or "")
        table_name = container[1] if container and container[0] == "rename" else snake_case(short)
        un = t.fns.get(i["items"].get("unquoted"))
        names = {}
        if un is not None:
            body = H.normalize(un["hir"])
            ms = [m for m in walk(body) if m.get("k") == "match" and m.get("src") == "Normal"]
            if ms:
                for arm in ms[0]["arms"]:
                    vs = (arm["pat"].get("path") or {}).get("def", "").rsplit("::", 1)[-1]
                    fm = [x for x in walk(arm["body"]) if x.get("k") == "fmt"]
                    names[vs] = fmt_text(fm[0]) if len(fm) == 1 else None
            else:
                fm = [x for x in walk(body) if x.get("k") == "fmt"]
                names[short] = fmt_text(fm[0]) if len(fm) == 1 else None
        for vn, lit in sorted(names.items()):
            a = vattrs.get(vn)
            if adt["kind"] == "struct":
                want = table_name
            elif a and a[0] == "rename":
                want = a[1]
            elif a:
                continue
            else:
                want = table_name if vn == "Table" else snake_case(vn)
            run.ob("C19.R4", "witness:%s::%s" % (short, vn), lit == want, "derive(Iden) on %s: `%s` is written as %r (expected %r)" % (short, vn, lit, want), sp=i["sp"], cfg=cfg)
        has_fast = "prepare" in i["items"]
        all_valid = bool(names) and all(v is not None and set(v) <= VALID for v in names.values())
        run.ob("C19.R4", "witness:%s:fast-path" % short, has_fast == all_valid,
               "derive(Iden) on %s: the fast path is %s and all names are %s" % (short, "present" if has_fast else "absent", "plain" if all_valid else "not all plain"),
               sp=i["sp"], cfg=cfg, detail=names)
    run.floor("C19.R4", "expansions", n, 5, cfg)


def check(run):
    cfg = "default"
    f = run.facts(cfg, "sea_query_derive")
    if check_predicate(run, f, cfg):
        check_variant_predicate(run, f, cfg)
    check_guards(run, f, cfg)
    check_name_sources(run, f, cfg)
    check_witnesses(run, f, cfg)
    run.trusted.append("heck's to_snake_case / to_pascal_case implement the documented casing (cross-checked on the expansions of tests/derive against an independent implementation)")
    run.assumptions.append("not decided: the transformation on all possible input programs beyond the guards, name sources and in-repo expansions")
