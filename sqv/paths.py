"""Path-effect summaries over the (normalized) HIR view.

enumerate(body) returns every acyclic control path through an expression as a Path:
  events  - ordered list of event dicts:
              {'ev':'call', 'n': <call/mcall node>}         (after its receiver/arguments)
              {'ev':'assign', 'n': <assign/assignop node>}
              {'ev':'loop', 'n': <loop node>, 'paths': [Path...]}      (one iteration of the body)
              {'ev':'closure', 'n': <closure node>, 'paths': [Path...]}
              {'ev':'ret', 'n': <ret node>} / 'break' / 'continue' / 'diverge'
  conds   - list of (kind, node, taken) for every branch decision on the path:
              ('if', cond_expr, True|False), ('arm', arm_dict, idx), ('letelse', stmt, True|False)
  out     - 'fall' | 'ret' | 'break' | 'continue' | 'diverge'
  value   - expression node that is the value of the path when out == 'fall' (tail), or the returned expr for 'ret'
"""
from .core import Anchor
from .hir import diverges

MAX_PATHS = 200000


class Path:
    __slots__ = ("events", "conds", "out", "value")

    def __init__(self, events=(), conds=(), out="fall", value=None):
        self.events = list(events)
        self.conds = list(conds)
        self.out = out
        self.value = value

    def extend(self, other):
        return Path(self.events + other.events, self.conds + other.conds, other.out, other.value)

    def calls(self):
        return [e["n"] for e in self.events if e["ev"] == "call"]

    def flat_events(self):
        """events with loop / closure bodies NOT expanded"""
        return self.events


def _seq(paths_a, f_b):
    """continue every 'fall' path of paths_a with the paths produced by f_b()"""
    out = []
    rest = None
    for p in paths_a:
        if p.out != "fall":
            out.append(p)
            continue
        if rest is None:
            rest = f_b()
        for q in rest:
            out.append(p.extend(q))
            if len(out) > MAX_PATHS:
                raise Anchor("path explosion")
    return out


def enum(e):
    """paths through expression e"""
    if e is None:
        return [Path(value=None)]
    if isinstance(e, list):
        ps = [Path()]
        for x in e:
            ps = _seq(ps, lambda x=x: enum(x))
        return ps
    k = e.get("k")
    if k in ("lit", "local", "path", "continue_", "constblock"):
        return [Path(value=e)]
    if k == "semi":
        return [Path(p.events, p.conds, p.out, None if p.out == "fall" else p.value) for p in enum(e["e"])]
    if k == "block":
        ps = [Path()]
        for s in e.get("stmts") or []:
            ps = _seq(ps, lambda s=s: enum(s))
        tail = e.get("expr")
        if tail is not None:
            ps = _seq(ps, lambda: enum(tail))
        else:
            ps = [Path(p.events, p.conds, p.out, None if p.out == "fall" else p.value) for p in ps]
        return ps
    if k == "stmt_let":
        ps = enum(e.get("init")) if e.get("init") is not None else [Path()]
        els = e.get("els")
        if els is not None:
            out = []
            for p in ps:
                if p.out != "fall":
                    out.append(p)
                    continue
                out.append(Path(p.events + [{"ev": "let", "n": e}], p.conds + [("letelse", e, True)], "fall", None))
                for q in enum(els):
                    out.append(Path(p.events + q.events, p.conds + [("letelse", e, False)] + q.conds, q.out, q.value))
            return out
        return [Path(p.events + ([{"ev": "let", "n": e}] if p.out == "fall" else []),
                     p.conds + ([("let", e)] if p.out == "fall" else []), p.out,
                     None if p.out == "fall" else p.value) for p in ps]
    if k == "if":
        cps = enum(e["cond"])
        out = []
        for c in cps:
            if c.out != "fall":
                out.append(c)
                continue
            for t in enum(e["then"]):
                out.append(Path(c.events + t.events, c.conds + [("if", e["cond"], True)] + t.conds, t.out, t.value))
            if e.get("else") is not None:
                for t in enum(e["else"]):
                    out.append(Path(c.events + t.events, c.conds + [("if", e["cond"], False)] + t.conds, t.out, t.value))
            else:
                out.append(Path(c.events, c.conds + [("if", e["cond"], False)], "fall", None))
            if len(out) > MAX_PATHS:
                raise Anchor("path explosion")
        return out
    if k == "let":
        return [Path(p.events, p.conds, p.out, e if p.out == "fall" else p.value) for p in enum(e["init"])]
    if k == "match":
        sps = enum(e["scrut"])
        out = []
        for s in sps:
            if s.out != "fall":
                out.append(s)
                continue
            for i, arm in enumerate(e["arms"]):
                pre = Path(s.events, s.conds + [("arm", arm, i, e)], "fall", None)
                gps = [Path()]
                if arm.get("guard") is not None:
                    gps = enum(arm["guard"])
                for g in gps:
                    if g.out != "fall":
                        out.append(pre.extend(g))
                        continue
                    for b in enum(arm["body"]):
                        out.append(Path(pre.events + g.events + b.events, pre.conds + g.conds + b.conds, b.out, b.value))
                if len(out) > MAX_PATHS:
                    raise Anchor("path explosion")
        return out
    if k == "loop":
        body = enum(e["body"])
        return [Path([{"ev": "loop", "n": e, "paths": body}], [], "fall", None)]
    if k == "closure":
        return [Path([{"ev": "closure", "n": e, "paths": enum(e["body"])}], [], "fall", e)]
    if k == "ret":
        ps = enum(e.get("e")) if e.get("e") is not None else [Path()]
        return [Path(p.events + [{"ev": "ret", "n": e}], p.conds, "ret", p.value if p.out == "fall" else p.value) if p.out == "fall" else p
                for p in ps]
    if k == "break":
        ps = enum(e.get("e")) if e.get("e") is not None else [Path()]
        return [Path(p.events + [{"ev": "break", "n": e}], p.conds, "break", p.value) if p.out == "fall" else p for p in ps]
    if k == "continue":
        return [Path([{"ev": "continue", "n": e}], [], "continue", None)]
    if k in ("call", "mcall"):
        subs = []
        if k == "mcall":
            subs.append(e["recv"])
        elif "fn_expr" in e:
            subs.append(e["fn_expr"])
        subs.extend(e.get("args") or [])
        ps = [Path()]
        for x in subs:
            ps = _seq(ps, lambda x=x: enum(x))
        if diverges(e):
            return [Path(p.events + [{"ev": "diverge", "n": e}], p.conds, "diverge", None) if p.out == "fall" else p for p in ps]
        return [Path(p.events + [{"ev": "call", "n": e}], p.conds, "fall", e) if p.out == "fall" else p for p in ps]
    if k in ("assign", "assignop"):
        ps = _seq(enum(e["r"]), lambda: enum(e["l"]))
        return [Path(p.events + [{"ev": "assign", "n": e}], p.conds, "fall", None) if p.out == "fall" else p for p in ps]
    if k == "fmt":
        ps = [Path()]
        for piece in e["pieces"]:
            if "arg" in piece:
                ps = _seq(ps, lambda a=piece["arg"]: enum(a))
        return [Path(p.events, p.conds, p.out, e if p.out == "fall" else p.value) for p in ps]
    if k == "format":
        return [Path(p.events, p.conds, p.out, e if p.out == "fall" else p.value) for p in enum(e["fmt"])]
    # generic: evaluate sub-expressions left to right
    subs = []
    for key in ("base", "e", "l", "r", "idx", "recv"):
        if isinstance(e.get(key), dict):
            subs.append(e[key])
    for key in ("es", "args"):
        if isinstance(e.get(key), list):
            subs.extend(e[key])
    if k == "struct":
        subs = [f["e"] for f in e["fields"]]
        if isinstance(e.get("base"), dict):
            subs.append(e["base"])
    ps = [Path()]
    for x in subs:
        ps = _seq(ps, lambda x=x: enum(x))
    return [Path(p.events, p.conds, p.out, e if p.out == "fall" else p.value) for p in ps]


def fn_paths(fn_hir):
    """paths through a function body; 'fall' at the end of the body is a return of the tail value"""
    out = []
    for p in enum(fn_hir):
        if p.out == "fall":
            out.append(Path(p.events, p.conds, "ret", p.value))
        else:
            out.append(p)
    return out
