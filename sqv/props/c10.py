"""C10  INSERT rows always match the column list; mismatches are reported.  DESIGN.md section 4, C10."""
from .. import hir as H
from .. import mir as M
from ..facts import walk

META = ("other",
        "C10.R1 values() / select_from() interpreted on the complete length abstraction (columns 0..3 x width 0..3 x source "
        "kind; result, error payload, nothing else touched) with a small-scope obligation; as fallback every write that can grow/replace InsertStatement.source in values()/select_from() is dominated by the "
        "equal edge of the comparison columns.len() vs <the very row / select list that is stored>.len() (MIR dominators + "
        "operand origin); R2 the mismatch edge returns Err(ColValNumMismatch{col_len: columns.len(), val_len: row.len()}) and "
        "no write to *self can precede any Err return; R3 who-may-write columns/source/default_values; R4 prepare_insert_statement interpreted on "
        "statements of 1..3 rows of 1..3 marker cells: every row whole and in order, every cell through one renderer call on "
        "that very cell (fallback: shape of the rows loop); R5 history closure: a method changing columns after rows exist must clear or re-validate",
        "one obligation per write site, comparison, error aggregate, field mutation in the crate, renderer call")

INS = "crate::query::insert::InsertStatement"
VALUES = INS + "::values"
SELECT_FROM = INS + "::select_from"
ERR = "crate::error::Error"


def is_len_of(e, what):
    """e == len(&<what>) where what is a predicate on the stripped place"""
    if not (isinstance(e, tuple) and e[0] == "call" and e[1] and e[1].endswith("::len") and len(e[2]) == 1):
        return False
    return what(M.strip_refs(e[2][0]))


def self_field(name):
    def p(e):
        return isinstance(e, tuple) and e[0] == "field" and e[2] == name and e[3] == INS and M.strip_refs(e[1])[0] == "var" and M.strip_refs(e[1])[1] == "self"
    return p


def find_check(b):
    """(switch block, equal-edge target, mismatch-edge target, expr for the compared row place)"""
    out = []
    for i, blk in enumerate(b.blocks):
        if blk.get("cleanup"):
            continue
        t = blk["term"]
        if t["k"] != "switch":
            continue
        e = b.expand_operand(t["op"])
        if not (isinstance(e, tuple) and e[0] == "bin" and e[1] in ("Ne", "Eq")):
            continue
        l, r = e[2], e[3]
        if is_len_of(r, self_field("columns")):
            l, r = r, l
        if not is_len_of(l, self_field("columns")):
            continue
        if not (isinstance(r, tuple) and r[0] == "call" and r[1].endswith("::len")):
            continue
        row = M.strip_refs(r[2][0])
        zero = [x[1] for x in t["targets"] if x[0] == 0]
        if len(t["targets"]) != 1 or not zero:
            continue
        # switchInt(bool): value 0 -> false edge, otherwise -> true edge
        false_t, true_t = zero[0], t["otherwise"]
        eq_t, ne_t = (false_t, true_t) if e[1] == "Ne" else (true_t, false_t)
        out.append((i, eq_t, ne_t, row))
    return out


def mentions(e, var):
    if not isinstance(e, tuple) or not e:
        return False
    if e[0] == "var" and len(e) == 3:
        return e[1] == var[1] and e[2] == var[2]
    return any(mentions(x, var) for x in e if isinstance(x, tuple))


def root_var(e):
    while isinstance(e, tuple) and e[0] in ("field", "deref", "downcast", "ref", "proj"):
        e = e[2] if e[0] == "ref" else e[1]
    return e if isinstance(e, tuple) and e[0] == "var" else None


def check_guarded(run, f, cfg, fname, short):
    if fname not in f.fns or not f.fns[fname].get("mir"):
        run.anchor("C10.R1", short, "%s not found" % fname, cfg)
        return
    fn = f.fns[fname]
    b = M.Body(f, fname)
    checks = find_check(b)
    if len(checks) != 1:
        run.anchor("C10.R1", short + ".check", "expected exactly one comparison `self.columns.len() ==/!= <row>.len()` in %s, found %d" % (short, len(checks)), cfg)
        return
    sw, eq_t, ne_t, row = checks[0]
    rowvar = root_var(row)
    edge_ok = b.preds[eq_t] == [sw]
    run.ob("C10.R1", short + ":check", rowvar is not None and edge_ok,
           "%s compares self.columns.len() with %s.len(); the equal edge leads to a block entered only through it" % (short, M.show(row)),
           sp=fn["sp"], cfg=cfg)
    # R1: every self write dominated by the equal edge
    ws = M.self_writes(b)
    nsrc = 0
    for bi, kind, field, sp in ws:
        ok = b.dominates(eq_t, bi)
        run.ob("C10.R1", "%s:write:%s:%s" % (short, field, kind), ok,
               "%s: write (%s) to self.%s happens only after the length check passed" % (short, kind, field), sp=sp, cfg=cfg)
        if field == "source":
            nsrc += 1
    run.floor("C10.R1", short + "-source-writes", nsrc, 1, cfg)
    # the stored thing is the compared thing
    stored = []
    for i, blk in enumerate(b.blocks):
        if blk.get("cleanup"):
            continue
        t = blk["term"]
        if t["k"] == "call":
            c = M.callee_of(t) or ""
            if c.rsplit("::", 1)[-1] in ("push", "extend", "append", "insert", "extend_from_slice", "push_within_capacity") and t["args"]:
                recv_ty = None
                a0 = t["args"][0]
                if a0["k"] in ("copy", "move"):
                    recv_ty = b.local_ty(a0["place"]["l"]) if not a0["place"].get("p") else None
                if recv_ty and "Vec<alloc::vec::Vec<crate::expr::SimpleExpr>>" in recv_ty:
                    arg = b.expand_operand(t["args"][-1])
                    stored.append((i, "rows." + c.rsplit("::", 1)[-1], arg, blk.get("sp")))
        for s in blk["stmts"]:
            if s["k"] == "assign":
                e = b.dest_place(s["place"])
                if isinstance(e, tuple) and e[0] == "field" and e[2] == "source" and e[3] == INS:
                    rv = b.expand_def(("stmt", i, 0, s["rv"]))
                    stored.append((i, "source=", rv, s.get("sp")))
    nst = 0
    for bi, what, val, sp in stored:
        dominated = b.dominates(eq_t, bi)
        carries = rowvar is not None and mentions(val, rowvar)
        empty_default = what == "source=" and "default()" in M.show(val) and not carries
        if empty_default:
            run.ob("C10.R1", "%s:store:%s:empty" % (short, what), dominated,
                   "%s: self.source is initialised with an empty default row list only after the check" % short, sp=sp, cfg=cfg)
            continue
        nst += 1
        run.ob("C10.R1", "%s:store:%s" % (short, what), dominated and carries,
               "%s: what is stored (%s %s) is the value whose length was compared (%s), after the check passed" % (short, what, M.show(val)[:80], M.show(row)),
               sp=sp, cfg=cfg)
    run.floor("C10.R1", short + "-stores", nst, 1, cfg)
    # R2: error aggregate on the mismatch edge
    errs = []
    for i, blk in enumerate(b.blocks):
        if blk.get("cleanup"):
            continue
        for s in blk["stmts"]:
            if s["k"] == "assign" and s["rv"]["k"] == "agg" and s["rv"].get("adt") == ERR:
                errs.append((i, s))
    okc = 0
    for i, s in errs:
        rv = s["rv"]
        ops = dict(zip(rv.get("fields") or [], [b.expand_operand(o) for o in rv["ops"]]))
        good = (rv.get("variant") == "ColValNumMismatch" and is_len_of(ops.get("col_len"), self_field("columns"))
                and isinstance(ops.get("val_len"), tuple) and ops["val_len"][0] == "call" and ops["val_len"][1].endswith("::len")
                and M.strip_refs(ops["val_len"][2][0]) == row)
        run.ob("C10.R2", "%s:err-payload" % short, good and b.dominates(ne_t, i),
               "%s: mismatch edge builds ColValNumMismatch{col_len: self.columns.len(), val_len: %s.len()}" % (short, M.show(row)),
               sp=s.get("sp"), cfg=cfg, detail={k: M.show(v) for k, v in ops.items()})
        okc += 1
    run.floor("C10.R2", short + "-error-aggregates", okc, 1, cfg)
    # every `Err` return is on the mismatch edge; no Ok on it
    for i, blk in enumerate(b.blocks):
        if blk.get("cleanup"):
            continue
        for s in blk["stmts"]:
            if s["k"] == "assign" and s["rv"]["k"] == "agg" and (s["rv"].get("adt") or "").endswith("result::Result"):
                v = s["rv"].get("variant")
                if v == "Err":
                    run.ob("C10.R2", "%s:err-edge" % short, b.dominates(ne_t, i), "%s: Err is returned only on the mismatch edge" % short, sp=s.get("sp"), cfg=cfg)
                elif v == "Ok":
                    run.ob("C10.R2", "%s:ok-edge" % short, b.dominates(eq_t, i), "%s: Ok is returned only after the check passed" % short, sp=s.get("sp"), cfg=cfg)
    # no write to *self before the check or on the mismatch edge is implied by R1 (every write is dominated by eq edge)


def check_who_may_write(run, f, cfg):
    allowed = {
        "columns": {INS + "::columns"},
        "source": {VALUES, SELECT_FROM},
        "default_values": {INS + "::or_default_values", INS + "::or_default_values_many"},
    }
    n = 0
    for m in M.field_mutations(f, INS):
        fn = f.fns[m["fn"]]
        if fn.get("derived") or m["field"] not in allowed:
            continue
        n += 1
        run.ob("C10.R3", "%s:%s:%s" % (m["field"], m["kind"], m["fn"]), m["fn"] in allowed[m["field"]],
               "InsertStatement.%s is mutated (%s) only by its own builder method(s)" % (m["field"], m["kind"]), sp=m["sp"], cfg=cfg)
    run.floor("C10.R3", "mutations", n, 4, cfg)
    # constructions of InsertStatement outside derive/Default
    for m in M.field_mutations(f, INS):
        if m["kind"] == "construct" and not f.fns[m["fn"]].get("derived"):
            run.ob("C10.R3", "construct:%s" % m["fn"], False, "InsertStatement is constructed field-wise outside derive(Default/Clone) in %s" % m["fn"], sp=m["sp"], cfg=cfg)
    # values_panic / values_from_panic reach source only through values()
    for name, want in ((INS + "::values_panic", "values"), (INS + "::values_from_panic", "values_panic")):
        fn = f.fns.get(name)
        if fn is None:
            run.anchor("C10.R3", name.rsplit("::", 1)[-1], "not found", cfg)
            continue
        selfcalls = [c for c in walk(fn["hir"]) if c.get("k") == "mcall" and H.place(c["recv"]) == "self"]
        names = [c["name"] for c in selfcalls]
        run.ob("C10.R3", "forward:" + name.rsplit("::", 1)[-1], names == [want],
               "%s adds rows only through self.%s(..)" % (name.rsplit("::", 1)[-1], want), sp=fn["sp"], cfg=cfg, detail=names)


def check_history(run, f, cfg):
    """R5: a method that replaces `columns` must clear or re-validate `source` (otherwise rows of the old width stay)."""
    writers = set()
    for m in M.field_mutations(f, INS):
        if m["field"] == "columns" and not f.fns[m["fn"]].get("derived") and m["kind"] != "construct":
            writers.add(m["fn"])
    for w in sorted(writers):
        b = M.Body(f, w)
        touches_source = any(fld == "source" for _, _, fld, _ in M.self_writes(b))
        reads_source = False
        for i, blk in enumerate(b.blocks):
            t = blk["term"]
            if t["k"] == "switch":
                e = M.show(b.expand_operand(t["op"]))
                if "self.source" in e:
                    reads_source = True
        run.ob("C10.R5", "columns-after-values:%s" % w, touches_source or reads_source,
               "%s replaces the column list but neither clears nor re-validates rows already stored in `source` "
               "(history columns([a,b]).values([1,2]).columns([a]) renders INSERT (a) VALUES (1, 2))" % w,
               sp=f.fns[w]["sp"], cfg=cfg)
    run.floor("C10.R5", "column-writers", len(writers), 1, cfg)


def check_renderer_order(run, f, cfg):
    deny = {"rev", "sort", "sort_by", "sort_by_key", "sort_unstable", "sort_unstable_by", "dedup", "dedup_by", "dedup_by_key",
            "swap", "retain", "reverse", "swap_remove", "rotate_left", "rotate_right", "skip", "take", "step_by", "truncate", "pop", "last", "first"}
    name = "crate::backend::query_builder::QueryBuilder::prepare_insert_statement"
    fn = f.fns.get(name)
    if fn is None:
        run.anchor("C10.R4", "prepare_insert_statement", "not found", cfg)
        return
    n = 0
    from ..stmt import head_tail_calls
    idiom = head_tail_calls(fn["hir"])
    for c in walk(fn["hir"]):
        if c.get("k") == "mcall":
            n += 1
            if id(c) in idiom:
                continue
            if c["name"] in deny:
                run.ob("C10.R4", "reorder:%s" % c["name"], False, "prepare_insert_statement calls .%s(): rows/cells would not be rendered in order/completely" % c["name"],
                       sp=c.get("sp"), cfg=cfg)
    check_rows_whole(run, f, cfg, fn, n)


ITER_ADAPT = ("iter", "into_iter", "enumerate", "as_slice", "as_ref", "deref", "as_deref", "by_ref")
ITER_DRIVERS = ("fold", "for_each", "try_for_each", "try_fold", "map")


def iterations(node):
    """(iterated expression, names bound to the element, body) for every iteration construct inside node:
    `X.iter().fold(init, |acc, el| ..)` / `.for_each(|el| ..)` and desugared `for el in X`"""
    out = []
    for n in walk(node):
        if n.get("k") == "mcall" and n["name"] in ITER_DRIVERS:
            clos = [a for a in n["args"] if isinstance(a, dict) and a.get("k") == "closure"]
            if clos:
                ps = clos[0].get("params") or []
                if ps:
                    names = [b["name"] for b in walk(ps[-1]["pat"]) if b.get("k") == "bind"]
                    out.append((n["recv"], names, clos[0]["body"], ps[-1]["pat"]))
        elif n.get("k") == "match" and "ForLoop" in n.get("src", ""):
            it = (n["scrut"].get("args") or [None])[0] if n["scrut"].get("k") == "call" else n["scrut"]
            for m in walk(n["arms"][0]["body"] if n.get("arms") else {}):
                if m.get("k") == "match" and m is not n and any("Some" in ((a["pat"].get("path") or {}).get("def") or "") for a in m.get("arms") or []):
                    for a in m["arms"]:
                        if "Some" in ((a["pat"].get("path") or {}).get("def") or ""):
                            subs = a["pat"].get("subs") or [x["pat"] for x in (a["pat"].get("fields") or [])]
                            names = [b["name"] for b in walk(subs[0]) if b.get("k") == "bind"] if subs else []
                            out.append((it, names, a["body"], subs[0] if subs else None))
                    break
    return out


def element_bind(it, pat):
    """the plain binding of the element of an iteration: `x`, or `(i, x)` when the iterator ends in enumerate()"""
    if not isinstance(pat, dict):
        return None
    if pat.get("k") == "bind":
        return pat
    e = H.peel_ref(it) if isinstance(it, dict) else None
    if pat.get("k") == "tuple" and len(pat.get("subs") or []) == 2 and all(s.get("k") == "bind" for s in pat["subs"]) and \
            isinstance(e, dict) and e.get("k") == "mcall" and e["name"] == "enumerate":
        return pat["subs"][1]
    return None


def base_local(e):
    """local at the root of a chain of iterator / view adaptors"""
    e = H.peel_ref(e) if isinstance(e, dict) else e
    while isinstance(e, dict) and e.get("k") == "mcall" and e["name"] in ITER_ADAPT and not e["args"]:
        e = H.peel_ref(e["recv"])
    return e if isinstance(e, dict) and e.get("k") == "local" else None


def rows_by_interp(run, f, cfg, fn):
    """prepare_insert_statement interpreted on statements with 1..3 rows of 1..3 opaque cells (and one whose only cell is a
    tuple expression): after VALUES every row is written, in order, as `(` its cells in order, each through one renderer
    call on that very cell, `, ` between `)`.  True when decided"""
    from .. import kw, link as L
    from ..interp import Opaque, Var, Unsupported, Diverged
    SE = "crate::expr::SimpleExpr"
    present = [d for d in ("mysql", "postgres", "sqlite") if L.BACKENDS[d] in f.adts]
    if not present:
        return False
    bad, rows_n = [], 0
    try:
        for dialect in present:
            linker = L.Linker(f, dialect)
            target = linker.resolve("crate::backend::query_builder::QueryBuilder::prepare_insert_statement")
            shapes = [[1], [2], [2, 2], [3, 3, 3]]
            for shape in shapes + ["tuple"]:
                it = kw._mk_interp(f, linker)
                orig = it.unknown_call

                def unknown(it_, e, env, depth, orig=orig):
                    name = e.get("name") or (e.get("callee") or "").rsplit("::", 1)[-1]
                    if name == "prepare_simple_expr":
                        v = it_.ev(e["args"][0], env, depth)
                        if isinstance(v, Var) and v.d == SE + "::Custom":
                            it_.out.append(("sql", "<%s>" % v.fields[0]))
                            return ()
                        if isinstance(v, Var) and v.d == SE + "::Tuple":
                            it_.out.append(("sql", "<tuple:%s>" % ",".join(x.fields[0] for x in v.fields[0])))
                            return ()
                        it_.out.append(("sql", "<part-of-a-cell %r>" % (v,)))
                        return ()
                    return orig(it_, e, env, depth)
                it.unknown_call = unknown
                if shape == "tuple":
                    rows = [[Var(SE + "::Tuple", [[Var(SE + "::Custom", ["t0"]), Var(SE + "::Custom", ["t1"])]])]]
                    want = "(<tuple:t0,t1>)"
                else:
                    rows = [[Var(SE + "::Custom", ["r%dc%d" % (i, j)]) for j in range(n)] for i, n in enumerate(shape)]
                    want = ", ".join("(" + ", ".join("<r%dc%d>" % (i, j) for j in range(n)) + ")" for i, n in enumerate(shape))
                stmt = {"replace": False, "table": None, "columns": [Opaque("col%d" % j) for j in range(len(rows[0]))],
                        "source": ("__some", Var(IVS + "::Values", [rows])), "on_conflict": None, "returning": None, "default_values": None, "with": None}
                it.call_fn(target, [Opaque("self"), stmt, Opaque("sql")])
                txt = "".join(t for s_, t in it.out if s_ == "sql")
                rows_n += 1
                i = txt.find("VALUES ")
                got = txt[i + 7:] if i >= 0 else txt
                if got != want:
                    bad.append("%s, rows %s: written `%s`, expected `%s`" % (dialect, shape, got, want))
    except (Unsupported, Diverged, KeyError) as e:
        run.notes.append("C10.R4 prepare_insert_statement outside the interpreter's fragment (%s): decided by the shape of its rows loop" % e)
        return False
    from .. import scope
    scope.check_bound(run, "C10.R4", "row-data:scope", f, ["crate::backend::query_builder::QueryBuilder::prepare_insert_statement"], 3, cfg,
                      "prepare_insert_statement (1..3 rows of 1..3 cells)")
    run.ob("C10.R4", "row-data:table", not bad,
           "prepare_insert_statement interpreted on %d (backend, row shape) statements: after VALUES every row is written in order as its cells in order, "
           "each through one renderer call on that very cell%s" % (rows_n, "" if not bad else " - NOT: " + "; ".join(bad[:3])), sp=fn["sp"], cfg=cfg)
    return True


def check_rows_whole(run, f, cfg, fn, ncalls):
    if rows_by_interp(run, f, cfg, fn):
        run.ob("C10.R4", "forward-iteration", True, "rows are iterated forward (decided by the interpreted table)", sp=fn["sp"], cfg=cfg, trivial=True)
        return
    """Values arm of prepare_insert_statement: every row is rendered whole and every cell as itself - each renderer call
    inside the rows loop takes the row (or a view of it) or the element of an iteration over the row, never a part
    obtained by destructuring a row or a cell"""
    arms = []
    for m in walk(fn["hir"]):
        if m.get("k") == "match" and m.get("src") == "Normal":
            for a in m["arms"]:
                # `InsertValueSource::Values(values)` or the same inside `Some(..)`
                hit = [q for q in walk(a["pat"]) if q.get("k") == "variant" and ((q.get("path") or {}).get("def") or "").endswith("InsertValueSource::Values")]
                if len(hit) == 1:
                    binds = [b for b in walk(hit[0]) if b.get("k") == "bind"]
                    if len(binds) == 1:
                        arms.append((binds[0], a))
    if len(arms) != 1:
        run.anchor("C10.R4", "values-arm", "the InsertValueSource::Values arm of prepare_insert_statement was not recognised (%d candidates)" % len(arms), cfg)
        return
    vb, arm = arms[0]
    sinks = {p["pat"]["name"] for p in fn["params"] if p["pat"].get("k") == "bind" and "SqlWriter" in (f.ty(p.get("ty")) or "")}
    its = iterations(arm["body"])
    rows = [(it, names, body, pat) for it, names, body, pat in its if (base_local(it) or {}).get("id") == vb["id"]]
    if len(rows) != 1 or element_bind(rows[0][0], rows[0][3]) is None:
        run.anchor("C10.R4", "rows-loop", "the iteration over the rows of the Values arm was not recognised (%d candidates)" % len(rows), cfg)
        return
    _, rnames, rbody, rpat = rows[0]
    row_id = element_bind(rows[0][0], rpat)["id"]
    # locals that stand for one whole cell: elements of iterations over the row, bound by a plain name
    cell_ids = set()
    for it, names, body, pat in iterations(rbody):
        b = base_local(it)
        eb = element_bind(it, pat)
        if b is not None and b.get("id") == row_id and eb is not None:
            cell_ids.add(eb["id"])
    n = 0
    for c in walk(rbody):
        if c.get("k") not in ("call", "mcall"):
            continue
        args = ([c["recv"]] if c.get("k") == "mcall" else []) + list(c.get("args") or [])
        locs = [H.peel_ref(a) for a in args]
        if not any(isinstance(a, dict) and a.get("k") == "local" and a.get("name") in sinks for a in locs):
            continue
        if c.get("k") == "mcall" and (c["name"] in ("write_fmt", "write_str", "unwrap", "as_writer") or H.place(c["recv"]) in sinks):
            continue
        n += 1
        for a in args:
            pa = H.peel_ref(a)
            if isinstance(pa, dict) and pa.get("k") == "local" and (pa.get("name") in sinks or pa.get("name") == "self"):
                continue
            b = base_local(a)
            ok = b is not None and (b.get("id") == row_id or b.get("id") in cell_ids)
            run.ob("C10.R4", "row-data:%s:%s" % (c.get("name") or (c.get("callee") or "?").rsplit("::", 1)[-1], H.place(a) or "expr"), ok,
                   "in the rows loop of prepare_insert_statement, %s is handed %s" % (
                       c.get("name") or (c.get("callee") or "?").rsplit("::", 1)[-1],
                       "the row / the cell itself" if ok else "`%s`, which is neither the row nor one whole cell of it: rows would be rendered with a different number of cells than the declared columns" % (H.place(a) or "an expression")),
                   sp=c.get("sp"), cfg=cfg)
    run.ob("C10.R4", "forward-iteration", n >= 1, "rows are iterated forward and every row is rendered from the row / its cells (%d renderer calls in the rows loop), no reordering adaptor among %d calls" % (n, ncalls),
           sp=fn["sp"], cfg=cfg)


# ---- complete tables of values() / select_from() over the length abstraction -------------------------------------------------

IVS = "crate::query::insert::InsertValueSource"


def _stmt(f, k, src):
    from ..interp import Opaque
    s = {fl["name"]: Opaque(fl["name"]) for fl in f.adts[INS]["variants"][0]["fields"]}
    s["columns"] = [Opaque("col%d" % i) for i in range(k)]
    s["source"] = src
    return s


def _is_ok(r, s):
    from ..interp import Var
    return (isinstance(r, Var) and r.d.endswith("Result::Ok") and r.fields[0] is s) or (isinstance(r, tuple) and r[0] == "Ok" and r[1] is s)


def _err_payload(r):
    """{col_len, val_len} of an Err(Error::ColValNumMismatch{..}) result, else None"""
    from ..interp import Var
    e = None
    if isinstance(r, Var) and r.d.endswith("Result::Err"):
        e = r.fields[0]
    elif isinstance(r, tuple) and r[0] == "Err":
        e = r[1]
    if isinstance(e, Var):
        if not e.d.endswith("ColValNumMismatch"):
            return None
        e = e.fields[0] if e.fields else None
    return e if isinstance(e, dict) and set(e) == {"col_len", "val_len"} else None


def _snapshot(s):
    return (_snapshot_source(s), tuple((k, id(v)) for k, v in sorted(s.items()) if k not in ("source", "columns")))


def _snapshot_source(s):
    src = s["source"]
    if isinstance(src, tuple) and src[0] == "__some":
        v = src[1]
        inner = v.fields[0]
        return (v.d, [list(r) for r in inner] if isinstance(inner, list) else id(inner))
    return src


def table_values(run, f, cfg):
    """InsertStatement::values interpreted for every (number of columns, row length, kind of current source) in 0..3:
    Err(ColValNumMismatch{col_len, val_len}) with the statement untouched iff the lengths differ; otherwise Ok and the row
    is appended to the VALUES source (which replaces a SELECT source / is created).  Returns False outside the fragment."""
    from ..interp import Interp, Opaque, Var, Unsupported, Diverged
    cells = 0
    bad = []
    try:
        for k in range(4):
            for n in range(4):
                for kind in ("none", "values", "select"):
                    old_rows = [[Opaque("old%d" % i) for i in range(k)]]
                    src = None if kind == "none" else (("__some", Var(IVS + "::Values", [[list(r) for r in old_rows]])) if kind == "values" else
                                                      ("__some", Var(IVS + "::Select", [Opaque("sel")])))
                    s = _stmt(f, k, src)
                    before = _snapshot(s)
                    cols_before = list(s["columns"])
                    row = [Opaque("v%d" % i) for i in range(n)]
                    r = Interp(f).call_fn(VALUES, [s, list(row)])
                    cells += 1
                    tag = "columns=%d row=%d source=%s" % (k, n, kind)
                    same_cols = len(s["columns"]) == len(cols_before) and all(x is y for x, y in zip(s["columns"], cols_before))
                    if n != k:
                        ep = _err_payload(r)
                        ok = ep is not None and ep["col_len"] == k and ep["val_len"] == n and _snapshot(s) == before and same_cols
                    else:
                        ok = _is_ok(r, s) and same_cols
                        if ok and n == 0:
                            ok = _snapshot(s) == before
                        elif ok:
                            now = s["source"]
                            ok = isinstance(now, tuple) and now[0] == "__some" and now[1].d == IVS + "::Values"
                            if ok:
                                rows = now[1].fields[0]
                                want = ([list(r_) for r_ in old_rows] if kind == "values" else []) + [row]
                                ok = isinstance(rows, list) and len(rows) == len(want) and \
                                    all(isinstance(a, list) and len(a) == len(b) for a, b in zip(rows, want)) and \
                                    all(x is y for x, y in zip(rows[-1], row))
                                if ok and kind == "values":
                                    ok = all(isinstance(x, type(y)) and getattr(x, "tag", None) == getattr(y, "tag", None) for x, y in zip(rows[0], old_rows[0]))
                    if not ok:
                        bad.append(tag)
    except (Unsupported, Diverged) as e:
        run.notes.append("InsertStatement::values outside the interpreter's fragment (%s): MIR dominance rules applied instead" % e)
        from .. import scope
        scope.check_bound(run, "C10.R1", "values:scope", f, [VALUES], 3, cfg, "values() (outside the interpreter's fragment)")
        return False
    run.ob("C10.R1", "values:table", not bad,
           "values() tabulated on %d cells (columns 0..3 x row length 0..3 x current source): a row of another length is refused with "
           "ColValNumMismatch{col_len, val_len} and nothing is touched; a row of the right length is appended, in cell order%s" % (
               cells, "" if not bad else " - EXCEPT " + "; ".join(bad[:6])), sp=f.fns[VALUES]["sp"], cfg=cfg, detail=bad[:20] or None)
    run.floor("C10.R1", "values-cells", cells, 48, cfg)
    from .. import scope
    scope.check_bound(run, "C10.R1", "values:scope", f, [VALUES], 3, cfg, "values() (0..3 columns and cells)")
    return True


def table_select_from(run, f, cfg):
    from ..interp import Interp, Opaque, Var, Unsupported, Diverged
    cells = 0
    bad = []
    SEL = "crate::query::select::SelectStatement"
    try:
        for k in range(4):
            for m in range(4):
                for kind in ("none", "values", "select"):
                    src = None if kind == "none" else (("__some", Var(IVS + "::Values", [[[Opaque("o%d" % i) for i in range(k)]]])) if kind == "values" else
                                                      ("__some", Var(IVS + "::Select", [Opaque("sel")])))
                    s = _stmt(f, k, src)
                    before = _snapshot(s)
                    sel = {fl["name"]: Opaque(fl["name"]) for fl in f.adts[SEL]["variants"][0]["fields"]}
                    sel["selects"] = [Opaque("s%d" % i) for i in range(m)]
                    it = Interp(f)
                    it.builtins["core::convert::Into::into"] = lambda it_, a: a[0]
                    it.builtins["alloc::boxed::Box::<T>::new"] = lambda it_, a: a[0]
                    r = it.call_fn(SELECT_FROM, [s, sel])
                    cells += 1
                    if m != k:
                        ep = _err_payload(r)
                        ok = ep is not None and ep["col_len"] == k and ep["val_len"] == m and _snapshot(s) == before
                    else:
                        now = s["source"]
                        ok = _is_ok(r, s) and isinstance(now, tuple) and now[0] == "__some" and \
                            now[1].d == IVS + "::Select" and now[1].fields[0] is sel
                    if not ok:
                        bad.append("columns=%d selects=%d source=%s" % (k, m, kind))
    except (Unsupported, Diverged) as e:
        run.notes.append("InsertStatement::select_from outside the interpreter's fragment (%s): MIR dominance rules applied instead" % e)
        return False
    run.ob("C10.R1", "select_from:table", not bad,
           "select_from() tabulated on %d cells: a SELECT with another number of expressions than columns is refused with ColValNumMismatch and nothing "
           "is touched; otherwise it becomes the source%s" % (cells, "" if not bad else " - EXCEPT " + "; ".join(bad[:6])),
           sp=f.fns[SELECT_FROM]["sp"], cfg=cfg, detail=bad[:20] or None)
    run.floor("C10.R1", "select_from-cells", cells, 48, cfg)
    from .. import scope
    scope.check_bound(run, "C10.R1", "select_from:scope", f, [SELECT_FROM], 3, cfg, "select_from() (0..3 columns and expressions)")
    return True


def check(run):
    for cfg in run.tier_configs(["default", "all"]):
        f = run.facts(cfg)
        # complete tables by interpretation; where a body is outside the interpreter's fragment, the MIR dominance rules
        if not table_values(run, f, cfg):
            check_guarded(run, f, cfg, VALUES, "values")
        if not table_select_from(run, f, cfg):
            check_guarded(run, f, cfg, SELECT_FROM, "select_from")
        check_who_may_write(run, f, cfg)
        check_history(run, f, cfg)
        check_renderer_order(run, f, cfg)
    run.assumptions.append("rendering of rows (clause skeleton, separators) is decided under C07/C08")
