"""Reference decoders for the dialects' string-literal bodies, driven by specs/lexical.json (an oracle written from
the engines' manuals, independent of sea-query)."""
import json
import os

from .facts import VERIF

_spec = None


def spec():
    global _spec
    if _spec is None:
        _spec = json.load(open(os.path.join(VERIF, "specs", "lexical.json")))
    return _spec


class LexError(Exception):
    pass


def decode_body(form, body):
    """Decode the text between the delimiters of a string literal of the given form (a dict from lexical.json).
    Raises LexError if the body contains an unescaped delimiter (the literal would end early)."""
    out = []
    i = 0
    n = len(body)
    d = form["delimiter"]
    bs = form.get("backslash_escapes")
    while i < n:
        c = body[i]
        if c == d:
            if form.get("doubled_delimiter") and i + 1 < n and body[i + 1] == d:
                out.append(d)
                i += 2
                continue
            raise LexError("unescaped delimiter at offset %d" % i)
        if bs and c == "\\":
            if i + 1 >= n:
                raise LexError("backslash at end of literal body (escapes the closing delimiter)")
            e = body[i + 1]
            tab = form.get("escape_table", {})
            if e in tab:
                out.append(tab[e])
                i += 2
                continue
            if e in form.get("kept_with_backslash", []):
                out.append("\\" + e)
                i += 2
                continue
            if e in form.get("octal_digits", ""):
                j = i + 1
                val = 0
                k = 0
                while j < n and k < 3 and body[j] in form["octal_digits"]:
                    val = val * 8 + int(body[j])
                    j += 1
                    k += 1
                out.append(chr(val & 0xFF))
                i = j
                continue
            if e in form.get("hex_intro", []):
                j = i + 2
                k = 0
                val = 0
                while j < n and k < 2 and body[j] in "0123456789abcdefABCDEF":
                    val = val * 16 + int(body[j], 16)
                    j += 1
                    k += 1
                if k == 0:
                    out.append(e)
                    i += 2
                else:
                    out.append(chr(val))
                    i = j
                continue
            if e in form.get("unicode_intro", []):
                need = 4 if e == "u" else 8
                hx = body[i + 2:i + 2 + need]
                if len(hx) == need and all(ch in "0123456789abcdefABCDEF" for ch in hx):
                    out.append(chr(int(hx, 16)))
                    i += 2 + need
                    continue
                raise LexError("invalid unicode escape")
            # other_escape: drop-backslash
            out.append(e)
            i += 2
            continue
        out.append(c)
        i += 1
    return "".join(out)
