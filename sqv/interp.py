"""A small abstract interpreter over the resolved HIR view, used to tabulate functions whose result depends only
on finite data (enum discriminants, character classes, booleans): decision tables, transducers, predicates.

It evaluates the *extracted expression tree* over concrete representatives of a finite domain chosen by the rule
(constant propagation over a finite lattice).  Anything outside the supported fragment raises Unsupported, which
the caller turns into a fail-closed anchor report.  sea-query itself is never compiled-and-run by this."""
import re

from . import hir as H
from .facts import walk


INT_BITS = {"u8": (8, False), "u16": (16, False), "u32": (32, False), "u64": (64, False), "usize": (64, False), "u128": (128, False),
            "i8": (8, True), "i16": (16, True), "i32": (32, True), "i64": (64, True), "isize": (64, True), "i128": (128, True)}


class Unsupported(Exception):
    pass


class Diverged(Exception):
    """panic!/unreachable!/unimplemented! reached"""


class Ch:
    __slots__ = ("c",)

    def __init__(self, c):
        self.c = c

    def __eq__(self, o):
        return isinstance(o, Ch) and o.c == self.c

    def __hash__(self):
        return hash(("Ch", self.c))

    def __repr__(self):
        return "Ch(%r)" % self.c


class Var:
    """enum variant / struct value"""
    __slots__ = ("d", "fields")

    def __init__(self, d, fields=()):
        self.d = d
        self.fields = tuple(fields)

    def __eq__(self, o):
        return isinstance(o, Var) and o.d == self.d and o.fields == self.fields

    def __hash__(self):
        return hash((self.d, self.fields))

    def __repr__(self):
        return "%s%s" % (self.d.rsplit("::", 1)[-1], list(self.fields) if self.fields else "")


class Opaque:
    """a value the table does not depend on (must never be inspected)"""
    __slots__ = ("tag",)

    def __init__(self, tag="?"):
        self.tag = tag

    def __repr__(self):
        return "<%s>" % self.tag


class Sym(Opaque):
    """a symbolic atom: an unknown value with an identity - two atoms are equal iff they carry the same tag"""
    __slots__ = ()

    def __eq__(self, o):
        return isinstance(o, Sym) and o.tag == self.tag

    def __ne__(self, o):
        return not self.__eq__(o)

    def __hash__(self):
        return hash(("sym", self.tag))


class FieldRef:
    """a reference to a field of a struct value (`let Self { a, .. } = self;` binds `a` to `&mut self.a`)"""
    __slots__ = ("base", "name")

    def __init__(self, base, name):
        self.base = base
        self.name = name

    def get(self):
        return self.base[self.name]

    def set(self, v):
        self.base[self.name] = v


class _Return(Exception):
    def __init__(self, v):
        self.v = v


class _Break(Exception):
    def __init__(self, v=None):
        self.v = v


_ABSENT = object()


def depth_is_inner(e):
    """the outermost block of a function body keeps its bindings (nothing outside can see them anyway, and callers of
    ev() on a bare body read locals from the environment afterwards)"""
    return not e.get("_outer")


def walk_pat(p):
    """names bound by a pattern"""
    if not isinstance(p, dict):
        return
    if p.get("k") == "bind":
        yield p["name"]
    for k_ in ("subs", "alts"):
        for s_ in p.get(k_) or []:
            yield from walk_pat(s_)
    if isinstance(p.get("sub"), dict):
        yield from walk_pat(p["sub"])
    for f_ in p.get("fields") or []:
        yield from walk_pat(f_.get("pat"))


class _Continue(Exception):
    pass


class Interp:
    def __init__(self, facts, builtins=None, max_depth=12, max_steps=200000, unknown_call=None):
        self.f = facts
        self.builtins = builtins or {}
        self.opaque_conversions = False  # `.into()` / `From::from` of an Opaque value is the value itself (conversions are abstracted)
        self.cmp_hook = None            # callable(l, r): told about every `==` / `!=` evaluated
        self.unknown_fn = None          # callable(interp, def path, path node, args): a function value without a body is applied
        self.display_hook = None        # callable(value) -> text | None: Display of crate types the caller models
        self.max_depth = max_depth
        self.steps = 0
        self.max_steps = max_steps
        self.out = []          # text emitted through write!/push_str on tracked buffers
        self.opaque_call = None            # optional predicate(node): do not descend into this crate function, treat as unknown
        self.free_opaque = False           # free locals of an enclosing function evaluate to opaque values
        self.unknown_call = unknown_call   # optional hook(interp, node, evaluated args or None) for calls outside the fragment

    # ---- entry ---------------------------------------------------------------------------------
    def call_fn(self, name, args, depth=0):
        fn = self.f.fns.get(name)
        if fn is None or fn.get("hir") is None:
            raise Unsupported("no body for %s" % name)
        if depth > self.max_depth:
            raise Unsupported("call depth")
        env = {}
        params = fn["params"]
        if len(params) != len(args):
            raise Unsupported("arity of %s" % name)
        for p, a in zip(params, args):
            if not self.bind(p["pat"], a, env):
                raise Unsupported("param pattern")
        body = H.normalize(fn["hir"]) if "_nhir" not in fn else fn["_nhir"]
        fn["_nhir"] = body
        if "_ahir" not in fn:
            # distinct locals that macro hygiene spelled alike get distinct spellings (the environment is keyed by spelling)
            fn["_ahir"] = H.alpha_rename(body)
        body = fn["_ahir"]
        try:
            return self.ev(body, env, depth)
        except _Return as r:
            return r.v

    def apply_closure(self, clo, args, depth=0):
        """call a closure value produced by evaluating a closure expression"""
        if isinstance(clo, tuple) and clo and clo[0] == "__fn":
            fn_ = self.f.fns.get(clo[1])
            if (fn_ is None or fn_.get("hir") is None) and self.unknown_fn is not None:
                return self.unknown_fn(self, clo[1], clo[2] if len(clo) > 2 else None, list(args))
            return self.call_fn(clo[1], list(args), depth + 1)
        if clo == ("__corefn", "convert") and len(args) == 1 and isinstance(args[0], Opaque):
            return args[0]
        if isinstance(clo, tuple) and len(clo) == 2 and clo[0] == "__ctorfn":
            return ("__some", args[0]) if clo[1] == "core::option::Option::Some" else Var(clo[1], list(args))
        if clo == ("__corefn", "char_from_u8") and len(args) == 1 and isinstance(args[0], int):
            return Ch(chr(args[0]))
        if not (isinstance(clo, tuple) and len(clo) == 3 and clo[0] == "__closure"):
            raise Unsupported("not a closure")
        _, node, cenv = clo
        env = dict(cenv)
        params = node.get("params") or []
        if len(params) != len(args):
            raise Unsupported("closure arity")
        for p, a in zip(params, args):
            if not self.bind(p["pat"], a, env):
                raise Unsupported("closure param pattern")
        try:
            return self.ev(node["body"], env, depth + 1)
        except _Return as r:
            return r.v

    # ---- patterns ------------------------------------------------------------------------------
    def bind(self, pat, v, env):
        k = pat.get("k")
        if k == "wild":
            return True
        if k == "bind":
            if pat.get("sub") is not None and not self.bind(pat["sub"], v, env):
                return False
            env[pat["name"]] = v
            return True
        if k in ("ref", "deref"):
            return self.bind(pat["sub"], v, env)
        if k == "lit":
            lv = self.lit(pat["lit"])
            if isinstance(v, Opaque):
                raise Unsupported("literal pattern on opaque value")
            return lv == v
        if k == "range":
            def side(x):
                if x is None:
                    return None
                if isinstance(x, dict) and x.get("t") == "path":
                    return self.ev(x["path"], {}, 0)          # a named constant
                if isinstance(x, dict):
                    return self.lit(x)
                raise Unsupported("range pattern bound")
            lo, hi = side(pat.get("lo")), side(pat.get("hi"))
            incl = "Included" in pat.get("end", "Included")
            if isinstance(v, Ch):
                loc = lo.c if isinstance(lo, Ch) else ("\0" if lo is None else None)
                hic = hi.c if isinstance(hi, Ch) else ("\U0010ffff" if hi is None else None)
                if loc is None or hic is None:
                    raise Unsupported("range pattern bounds")
                return loc <= v.c <= hic if incl else loc <= v.c < hic
            if isinstance(v, int) and not isinstance(v, bool):
                if (lo is not None and not isinstance(lo, int)) or (hi is not None and not isinstance(hi, int)):
                    raise Unsupported("range pattern bounds")
                return (lo is None or lo <= v) and (hi is None or (v <= hi if incl else v < hi))
            raise Unsupported("range pattern on %r" % (v,))
        if k == "or":
            for alt in pat["alts"]:
                e2 = dict(env)
                if self.bind(alt, v, e2):
                    env.update(e2)
                    return True
            return False
        if k == "slice":
            if not isinstance(v, list):
                raise Unsupported("slice pattern on %r" % (v,))
            before, after, mid = pat.get("before") or [], pat.get("after") or [], pat.get("mid")
            if mid is None:
                if len(v) != len(before) + len(after):
                    return False
            elif len(v) < len(before) + len(after):
                return False
            for p_, x_ in zip(before, v[:len(before)]):
                if not self.bind(p_, x_, env):
                    return False
            if after:
                for p_, x_ in zip(after, v[len(v) - len(after):]):
                    if not self.bind(p_, x_, env):
                        return False
            if mid is not None and mid.get("k") != "wild":
                if not self.bind(mid, v[len(before):len(v) - len(after)], env):
                    return False
            return True
        if k == "tuple":
            if isinstance(v, Opaque):
                raise Unsupported("tuple pattern on opaque")
            if not isinstance(v, tuple) or len(v) != len(pat["subs"]):
                raise Unsupported("tuple pattern arity")
            return all(self.bind(s, x, env) for s, x in zip(pat["subs"], v))
        if k == "variant" and "Const" in ((pat.get("path") or {}).get("dk") or "") and not pat.get("subs") and not pat.get("fields"):
            # a named constant used as a pattern (`CP_SPACE => ..`)
            cv = self.ev(pat["path"], {}, 0)
            if isinstance(cv, Opaque) or isinstance(v, Opaque):
                raise Unsupported("constant pattern on opaque value")
            return cv == v
        if k == "variant":
            d = pat["path"].get("def")
            if isinstance(v, Opaque):
                raise Unsupported("variant pattern on opaque value %s" % v.tag)
            if d == "core::option::Option::None":
                return v is None
            if d == "core::option::Option::Some":
                if v is None:
                    return False
                if isinstance(v, tuple) and len(v) == 2 and v[0] == "__some":
                    return self.bind(pat["subs"][0], v[1], env)
                raise Unsupported("Some pattern on non-option")
            if d in ("core::result::Result::Ok", "core::result::Result::Err") and isinstance(v, tuple) and len(v) == 2 and v[0] in ("Ok", "Err"):
                if v[0] != d.rsplit("::", 1)[-1]:
                    return False
                return self.bind(pat["subs"][0], v[1], env) if pat.get("subs") else True
            if isinstance(v, dict) and pat.get("fields") is not None and (pat["path"].get("dk") or "") in ("SelfTy", "Struct"):
                # a struct pattern: fields bound by name are references into the struct (default binding modes)
                for fp in pat["fields"]:
                    if fp["name"] not in v:
                        raise Unsupported("struct pattern field %s" % fp["name"])
                    if fp["pat"].get("k") == "bind" and fp["pat"].get("sub") is None:
                        env[fp["pat"]["name"]] = FieldRef(v, fp["name"])
                    elif not self.bind(fp["pat"], v[fp["name"]], env):
                        return False
                return True
            if not isinstance(v, Var):
                raise Unsupported("variant pattern %s on %r" % (d, v))
            if v.d != d:
                return False
            subs = pat.get("subs")
            if subs is not None:
                dd = pat.get("dotdot")
                if dd is not None:
                    # `V(a, ..)`: bind the leading ones only
                    subs_l = subs[:dd]
                    return all(self.bind(s, x, env) for s, x in zip(subs_l, v.fields))
                if len(subs) != len(v.fields):
                    # fields not modelled: only allow wildcards
                    if all(s.get("k") == "wild" for s in subs):
                        return True
                    raise Unsupported("variant %s field arity (pattern %d, value %d)" % (d, len(subs), len(v.fields)))
                return all(self.bind(s, x, env) for s, x in zip(subs, v.fields))
            if pat.get("fields") is not None:
                if all(fp["pat"].get("k") == "wild" for fp in pat["fields"]):
                    return True
                # named fields: positions from the ADT table
                enum = d.rsplit("::", 1)[0]
                names = None
                for vv in (self.f.adts.get(enum) or {}).get("variants", []):
                    if vv["def"] == d:
                        names = [x["name"] for x in vv["fields"]]
                if names is None or len(names) != len(v.fields):
                    raise Unsupported("struct-variant field patterns")
                for fp in pat["fields"]:
                    if fp["name"] not in names:
                        raise Unsupported("struct-variant field %s" % fp["name"])
                    if not self.bind(fp["pat"], v.fields[names.index(fp["name"])], env):
                        return False
                return True
            return True
        raise Unsupported("pattern kind %s" % k)

    def lit(self, l):
        t = l["t"]
        if t == "char":
            return Ch(l["v"])
        if t in ("int", "bool", "str"):
            return l["v"]
        if t == "byte":
            return l["v"]
        if t == "bytes":
            return list(l["v"])         # b"..": the bytes
        raise Unsupported("literal %s" % t)

    # ---- expressions ---------------------------------------------------------------------------
    def ev(self, e, env, depth=0):
        self.steps += 1
        if self.steps > self.max_steps:
            raise Unsupported("step budget")
        if e is None:
            return ()
        k = e.get("k")
        if k == "lit":
            return self.lit(e["lit"])
        if k == "local":
            if e["name"] not in env:
                if self.free_opaque:
                    return Opaque(e["name"])
                raise Unsupported("unbound local %s" % e["name"])
            v_ = env[e["name"]]
            return v_.get() if isinstance(v_, FieldRef) else v_
        if k == "path":
            d = e.get("def") or ""
            if d == "core::option::Option::None":
                return None
            if (e.get("dk") or "").startswith("Ctor"):
                if "Fn" in (e.get("dk") or ""):
                    return ("__ctorfn", e.get("ctor_of") or d)      # a tuple-variant constructor used as a function value
                return Var(e.get("ctor_of") or d)
            if (e.get("dk") or "") in ("Fn", "AssocFn") and (d in self.f.fns or (self.unknown_fn is not None and d.startswith("crate::"))):
                return ("__fn", d, e)
            if (e.get("dk") or "") in ("Fn", "AssocFn") and d in ("core::convert::Into::into", "core::convert::From::from") and self.opaque_conversions:
                return ("__corefn", "convert")
            if (e.get("dk") or "") in ("Fn", "AssocFn") and d == "core::convert::From::from":
                ty = self.f.ty(e.get("ty")) or ""
                if "-> char" in ty and "u8" in ty:
                    return ("__corefn", "char_from_u8")
            if d in self.builtins:
                return self.builtins[d](self, [])
            cfn = self.f.fns.get(d)
            if cfn is not None and cfn.get("kind") in ("const", "static") and cfn.get("hir") is not None and depth < self.max_depth:
                return self.ev(cfn["hir"], {}, depth + 1)      # a crate constant: its initialiser
            if self.free_opaque:
                return Opaque(d)
            raise Unsupported("path %s" % d)
        if k in ("addr",):
            if getattr(self, "_ref_mode", 0) and e.get("mut"):
                # `&mut place.field` evaluated for a caller that assigns through the returned reference (`*pick(self) = v`)
                inner_ = H.peel_ref(e["e"])
                if inner_.get("k") == "field":
                    b_ = self.ev(inner_["base"], env, depth)
                    if isinstance(b_, dict):
                        return FieldRef(b_, inner_["name"])
            return self.ev(e["e"], env, depth)
        if k == "unary":
            v = self.ev(e["e"], env, depth)
            if e["op"] == "deref":
                return v
            if e["op"] == "not":
                if not isinstance(v, bool):
                    raise Unsupported("! on non-bool")
                return not v
            raise Unsupported("unary %s" % e["op"])
        if k == "cast":
            v_ = self.ev(e["e"], env, depth)
            ty_ = self.f.ty(e.get("ty")) or ""
            if isinstance(v_, Ch) and ty_ in ("u32", "u64", "usize", "i32", "i64", "u8", "u16"):
                n_ = ord(v_.c)
                return n_ & {"u8": 0xFF, "u16": 0xFFFF}.get(ty_, 0xFFFFFFFFFFFFFFFF)
            if isinstance(v_, int) and not isinstance(v_, bool) and ty_ == "char":
                return Ch(chr(v_ & 0xFF))
            if isinstance(v_, int) and not isinstance(v_, bool) and ty_ in INT_BITS:
                # integer-to-integer `as` wraps to the target width
                bits, signed = INT_BITS[ty_]
                v_ &= (1 << bits) - 1
                if signed and v_ >= 1 << (bits - 1):
                    v_ -= 1 << bits
            return v_
        if k == "binary":
            op = e["op"]
            if op == "&&":
                l = self.ev(e["l"], env, depth)
                if not isinstance(l, bool):
                    raise Unsupported("&& on non-bool")
                return l and self._bool(self.ev(e["r"], env, depth))
            if op == "||":
                l = self.ev(e["l"], env, depth)
                if not isinstance(l, bool):
                    raise Unsupported("|| on non-bool")
                return l or self._bool(self.ev(e["r"], env, depth))
            l = self.ev(e["l"], env, depth)
            r = self.ev(e["r"], env, depth)
            if (isinstance(l, Opaque) and not isinstance(l, Sym)) or (isinstance(r, Opaque) and not isinstance(r, Sym)):
                raise Unsupported("comparison on opaque value")
            if (isinstance(l, Sym) or isinstance(r, Sym)) and op not in ("==", "!="):
                raise Unsupported("ordering of symbolic values")
            if op in ("==", "!=") and self.cmp_hook is not None:
                self.cmp_hook(l, r)
            if op == "==":
                return l == r
            if op == "!=":
                return l != r
            if isinstance(l, Ch) and isinstance(r, Ch):
                l, r = l.c, r.c
            if op in (">>", "<<", "&", "|", "^", "/", "%") and isinstance(l, int) and isinstance(r, int) and not isinstance(l, bool) and not isinstance(r, bool):
                if op in ("/", "%") and r == 0:
                    raise Diverged("division by zero")
                return {">>": l >> r if op == ">>" else 0, "<<": (l << r) if op == "<<" else 0, "&": l & r, "|": l | r, "^": l ^ r,
                        "/": (abs(l) // abs(r)) * (1 if (l >= 0) == (r >= 0) else -1) if op == "/" else 0,
                        "%": (abs(l) % abs(r)) * (1 if l >= 0 else -1) if op == "%" else 0}[op]
            if op in ("&", "|", "^") and isinstance(l, bool) and isinstance(r, bool):
                return {"&": l and r, "|": l or r, "^": l != r}[op]
            if op in ("<", ">", "<=", ">=", "+", "-", "*"):
                try:
                    return {"<": l < r, ">": l > r, "<=": l <= r, ">=": l >= r, "+": l + r if op == "+" else None,
                            "-": l - r if op == "-" else None, "*": l * r if op == "*" else None}[op]
                except TypeError:
                    raise Unsupported("binary %s on %r %r" % (op, l, r))
            raise Unsupported("binary %s" % op)
        if k == "tuple":
            return tuple(self.ev(x, env, depth) for x in e["es"])
        if k == "array":
            return [self.ev(x, env, depth) for x in e["es"]]
        if k == "block":
            # one environment per function (assignments to outer locals must persist), but names bound by a `let` of this
            # block shadow the outer binding only until the block ends
            env2 = env
            shadow = {}
            for s in e.get("stmts") or []:
                if isinstance(s, dict) and s.get("k") == "stmt_let":
                    for nm in walk_pat(s.get("pat")):
                        if nm not in shadow:
                            shadow[nm] = env[nm] if nm in env else _ABSENT
            try:
                for s in e.get("stmts") or []:
                    self.ev(s, env2, depth)
                if e.get("expr") is not None:
                    return self.ev(e["expr"], env2, depth)
                return ()
            finally:
                if depth_is_inner(e):
                    for nm, old in shadow.items():
                        if old is _ABSENT:
                            env.pop(nm, None)
                        else:
                            env[nm] = old
        if k == "semi":
            self.ev(e["e"], env, depth)
            return ()
        if k == "stmt_let":
            v = self.ev(e["init"], env, depth) if e.get("init") is not None else Opaque("uninit")
            if not self.bind(e["pat"], v, env):
                if e.get("els") is not None:
                    self.ev(e["els"], env, depth)
                    raise Unsupported("let-else fell through")
                raise Unsupported("refutable let")
            return ()
        if k == "if":
            c = e["cond"]
            bound = set()
            for n_ in walk(c):
                if n_.get("k") == "let":
                    bound |= set(walk_pat(n_.get("pat")))
            if bound:
                # `if let PAT = x { .. }`: the names bound by PAT are visible in the then-branch only and shadow outer ones there
                env2 = dict(env)
                taken = self.cond(c, env2, depth)
                if taken:
                    try:
                        return self.ev(e["then"], env2, depth)
                    finally:
                        for kk in env:
                            if kk in env2 and kk not in bound:
                                env[kk] = env2[kk]
                if e.get("else") is not None:
                    return self.ev(e["else"], env, depth)
                return ()
            taken = self.cond(c, env, depth)
            if taken:
                return self.ev(e["then"], env, depth)
            if e.get("else") is not None:
                return self.ev(e["else"], env, depth)
            return ()
        if k == "let":
            v = self.ev(e["init"], env, depth)
            return self.bind(e["pat"], v, env)
        if k == "match":
            v = self.ev(e["scrut"], env, depth)
            for arm in e["arms"]:
                env2 = dict(env)
                if self.bind(arm["pat"], v, env2):
                    if arm.get("guard") is not None and not self._bool(self.ev(arm["guard"], env2, depth)):
                        continue
                    bound = set(walk_pat(arm["pat"]))
                    env.update({kk: vv for kk, vv in env2.items() if kk in env and kk not in bound})  # assignments made by the guard persist
                    try:
                        r = self.ev(arm["body"], env2, depth)
                    finally:
                        # also when the arm leaves through continue / break / return; names bound by the arm's own pattern
                        # shadow the outer ones and are not copied back
                        for kk in env:
                            if kk in env2 and kk not in bound:
                                env[kk] = env2[kk]
                    return r
            raise Unsupported("no match arm applies")
        if k == "assign":
            v = self.ev(e["r"], env, depth)
            l = H.peel_ref(e["l"])
            while l.get("k") == "unary" and l.get("op") == "deref":
                l = H.peel_ref(l["e"])
            if l.get("k") == "local":
                cur_ = env.get(l["name"])
                if isinstance(cur_, FieldRef):
                    cur_.set(v)
                else:
                    env[l["name"]] = v
                return ()
            if l.get("k") == "field":
                base = self.ev(l["base"], env, depth)
                if isinstance(base, dict):
                    base[l["name"]] = v      # `&mut self` semantics: the struct is shared by reference
                    return ()
                if H.place(l):
                    env["@" + H.place(l)] = v
                    return ()
            if l.get("k") == "index":
                base = self.ev(l["base"], env, depth)
                i_ = self.ev(l["idx"], env, depth)
                if isinstance(base, list) and isinstance(i_, int) and not isinstance(i_, bool):
                    if not (0 <= i_ < len(base)):
                        raise Diverged("index %d out of range (len %d)" % (i_, len(base)))
                    base[i_] = v
                    return ()
            if l.get("k") in ("call", "mcall"):
                # `*select_field(self) = v`: the callee returns a reference to a field
                self._ref_mode = getattr(self, "_ref_mode", 0) + 1
                try:
                    r_ = self.ev(l, env, depth)
                finally:
                    self._ref_mode -= 1
                if isinstance(r_, FieldRef):
                    r_.set(v)
                    return ()
            raise Unsupported("assignment target")
        if k == "assignop":
            l = H.peel_ref(e["l"])
            cur = self.ev(l, env, depth)
            r = self.ev(e["r"], env, depth)
            if e["op"] == "+=":
                nv = cur + r
            elif e["op"] == "-=":
                nv = cur - r
            elif e["op"] == "&=":
                nv = cur and r
            elif e["op"] == "|=":
                nv = cur or r
            else:
                raise Unsupported("assignop %s" % e["op"])
            if l.get("k") == "local":
                env[l["name"]] = nv
            elif l.get("k") == "field" and isinstance(self.ev(l["base"], env, depth), dict):
                self.ev(l["base"], env, depth)[l["name"]] = nv
            elif l.get("k") == "field" and H.place(l):
                env["@" + H.place(l)] = nv
            else:
                raise Unsupported("assignop target")
            return ()
        if k == "field":
            pl = H.place(e)
            base = None
            if pl and ("@" + pl) in env:
                return env["@" + pl]
            base = self.ev(e["base"], env, depth)
            if isinstance(base, tuple) and e["name"].isdigit():
                return base[int(e["name"])]
            if isinstance(base, dict):
                if e["name"] in base:
                    return base[e["name"]]
            if isinstance(base, Var) and e["name"].isdigit() and int(e["name"]) < len(base.fields):
                return base.fields[int(e["name"])]      # a tuple struct built through its constructor
            if self.free_opaque and isinstance(base, Opaque):
                return Opaque("%s.%s" % (base.tag, e["name"]))
            raise Unsupported("field %s of %r" % (e["name"], base))
        if k == "ret":
            raise _Return(self.ev(e["e"], env, depth) if e.get("e") is not None else ())
        if k == "break":
            raise _Break(self.ev(e["e"], env, depth) if e.get("e") is not None else None)
        if k == "continue":
            raise _Continue()
        if k == "loop":
            n = 0
            while True:
                n += 1
                if n > 10000:
                    raise Unsupported("loop bound")
                try:
                    self.ev(e["body"], env, depth)
                except _Break as b:
                    return b.v if b.v is not None else ()
                except _Continue:
                    continue
        if k == "fmt":
            return self.fmt(e, env, depth)
        if k == "format":
            return self.fmt(e["fmt"], env, depth)
        if k in ("call", "mcall"):
            return self.call(e, env, depth)
        if k == "struct":
            out_ = {}
            if isinstance(e.get("base"), dict):
                b_ = self.ev(e["base"], env, depth)
                if not isinstance(b_, dict):
                    raise Unsupported("struct base")
                out_.update(b_)
            out_.update((x["name"], self.ev(x["e"], env, depth)) for x in e["fields"])
            if (e.get("adt") or "").startswith("core::ops::range::"):
                return _Range(out_.get("start"), out_.get("end"), False)
            return out_
        if k == "closure":
            return ("__closure", e, env)
        if k == "repeat":
            m_ = re.search(r";\s*(\d+)\]$", self.f.ty(e.get("ty")) or "")
            if not m_:
                raise Unsupported("array repeat of unknown length")
            x_ = self.ev(e["e"], env, depth)
            return [x_] * int(m_.group(1))
        if k == "index":
            b = self.ev(e["base"], env, depth)
            i = self.ev(e["idx"], env, depth)
            if isinstance(i, _Range) and isinstance(b, (list, str)):
                data = b if isinstance(b, list) else b.encode("utf-8")
                lo = 0 if i.start is None else i.start
                hi = len(data) if i.end is None else (i.end + 1 if i.inclusive else i.end)
                if not (isinstance(lo, int) and isinstance(hi, int)):
                    raise Unsupported("range bounds")
                if not (0 <= lo <= hi <= len(data)):
                    raise Diverged("range %r out of bounds (len %d)" % (i, len(data)))
                if isinstance(b, list):
                    return b[lo:hi]
                try:
                    return data[lo:hi].decode("utf-8")
                except UnicodeDecodeError:
                    raise Diverged("slice inside a character")
            if isinstance(b, (list, str)) and isinstance(i, int) and not isinstance(i, bool):
                if not (0 <= i < len(b)):
                    raise Diverged("index %d out of range (len %d)" % (i, len(b)))      # a panic in Rust
                return b[i]
            try:
                return b[i]
            except Exception:
                raise Unsupported("index")
        raise Unsupported("expr kind %s" % k)

    def store(self, target, v, env, depth):
        """write v to the place a (peeled) expression denotes"""
        target = H.peel_ref(target)
        while target.get("k") == "unary" and target.get("op") in ("*", "deref"):
            target = H.peel_ref(target["e"])
        if target.get("k") == "local":
            cur = env.get(target["name"])
            if isinstance(cur, FieldRef):
                cur.set(v)
            else:
                env[target["name"]] = v
        elif target.get("k") == "field":
            base = self.ev(target["base"], env, depth)
            if not isinstance(base, dict):
                raise Unsupported("store into field of %r" % (base,))
            base[target["name"]] = v
        else:
            raise Unsupported("store target %s" % target.get("k"))

    def cond(self, c, env, depth):
        """condition possibly containing let-chains"""
        if c.get("k") == "let":
            v = self.ev(c["init"], env, depth)
            return self.bind(c["pat"], v, env)
        if c.get("k") == "binary" and c["op"] == "&&":
            return self.cond(c["l"], env, depth) and self.cond(c["r"], env, depth)
        return self._bool(self.ev(c, env, depth))

    def _bool(self, v):
        if not isinstance(v, bool):
            raise Unsupported("expected bool, got %r" % (v,))
        return v

    def fmt(self, e, env, depth):
        s = ""
        for p in e["pieces"]:
            if "lit" in p:
                s += p["lit"]
            else:
                v = self.ev(p["arg"], env, depth)
                tr = p.get("trait") or "display"
                plain = p.get("width") is None and p.get("precision") is None and tr == "display"
                if plain:
                    s += self.display(v)
                    continue
                # integer formatting: {:02X}, {:x}, {:5}
                if isinstance(v, int) and not isinstance(v, bool) and p.get("precision") is None and tr in ("display", "upper_hex", "lower_hex") and \
                        isinstance(p.get("width"), (int, type(None))):
                    txt = {"display": "%d", "upper_hex": "%X", "lower_hex": "%x"}[tr] % v
                    w = p.get("width") or 0
                    flags = p.get("flags") or 0
                    if len(txt) < w:
                        txt = txt.rjust(w, "0") if flags & (1 << 24) else txt.rjust(w, chr(flags & 0x1FFFFF) if flags & 0x1FFFFF else " ")
                    s += txt
                    continue
                raise Unsupported("format spec")
        return s

    def display(self, v):
        if isinstance(v, Ch):
            return v.c
        if isinstance(v, str):
            return v
        if isinstance(v, bool):
            return "true" if v else "false"
        if isinstance(v, int):
            return str(v)
        if self.free_opaque and isinstance(v, Opaque):
            return "<%s>" % v.tag
        if self.display_hook is not None:
            r = self.display_hook(v)
            if r is not None:
                return r
        raise Unsupported("Display of %r" % (v,))

    def call(self, e, env, depth):
        c = H.callee(e) or ""
        decl = e.get("callee") or ""
        name = e.get("name") or c.rsplit("::", 1)[-1]
        for key in (c, decl):
            if key in self.builtins:
                recv = [self.ev(e["recv"], env, depth)] if e.get("k") == "mcall" else []
                args = [self.ev(a, env, depth) for a in e.get("args") or []]
                return self.builtins[key](self, recv + args)
        for key in (c, decl):
            if key in CHAR_MODEL:
                recv = [self.ev(e["recv"], env, depth)] if e.get("k") == "mcall" else []
                args = [self.ev(a, env, depth) for a in e.get("args") or []]
                if (recv + args) and isinstance((recv + args)[0], (Ch, int)) and not isinstance((recv + args)[0], bool):
                    return CHAR_MODEL[key](recv + args)
        for key in (c, decl):
            # the ASCII classification of a byte is the one of the character with that code
            if key.startswith("core::num::<impl u8>::") and (_CM + key.rsplit("::", 1)[-1]) in CHAR_MODEL and "ascii" in key:
                recv = [self.ev(e["recv"], env, depth)] if e.get("k") == "mcall" else []
                args = [self.ev(a, env, depth) for a in e.get("args") or []]
                b0 = (recv + args)[0] if (recv + args) else None
                if isinstance(b0, int) and not isinstance(b0, bool) and 0 <= b0 < 256:
                    r_ = CHAR_MODEL[_CM + key.rsplit("::", 1)[-1]]([Ch(chr(b0))] + (recv + args)[1:])
                    return ord(r_.c) if isinstance(r_, Ch) else r_
        # vec![a, b, ..] : box_assume_init_into_vec_unsafe(write_box_via_move(Box::new_uninit(), [a, b, ..]))
        if decl == "alloc::boxed::box_assume_init_into_vec_unsafe" and "vec" in (e.get("mac") or []):
            inner = e["args"][0]
            if inner.get("k") == "call" and inner.get("callee") == "alloc::intrinsics::write_box_via_move" and inner["args"][1].get("k") == "array":
                return [self.ev(x, env, depth) for x in inner["args"][1]["es"]]
        if decl in ("alloc::slice::<impl [T]>::into_vec",) and "vec" in (e.get("mac") or []):
            for x in walk(e):
                if x.get("k") == "array":
                    return [self.ev(y, env, depth) for y in x["es"]]
        if c in ("alloc::vec::Vec::<T>::new", "alloc::vec::Vec::<T>::with_capacity") or decl in ("alloc::vec::Vec::<T>::new", "alloc::vec::Vec::<T>::with_capacity"):
            return []
        # ---- a small model of str / String ------------------------------------------------------------------------
        if decl in ("alloc::string::String::new", "alloc::string::String::with_capacity") or c in ("alloc::string::String::new", "alloc::string::String::with_capacity"):
            return ""
        if e.get("k") == "mcall" and (decl.startswith("alloc::str::<impl str>::") or decl.startswith("core::str::<impl str>::") or
                                      decl.startswith("alloc::string::String::") or decl.startswith("alloc::slice::<impl [") or
                                      decl.startswith("alloc::str::<impl alloc::slice::Join")) and \
                name in ("replace", "split", "contains", "starts_with", "ends_with", "len", "is_empty", "to_string", "to_owned", "as_str", "clone",
                         "into_boxed_str", "chars", "bytes", "char_indices", "parse", "join", "concat", "find", "rfind", "trim", "to_uppercase",
                         "to_lowercase", "repeat", "strip_prefix", "strip_suffix", "split_at", "as_bytes"):
            v = self.ev(e["recv"], env, depth)
            args = [self.ev(a, env, depth) for a in e.get("args") or []]
            if any(isinstance(x, Opaque) for x in args) or isinstance(v, Opaque):
                v = None        # opaque operands: not modelled here (the generic handling below decides)

            def as_text(x):
                if isinstance(x, Ch):
                    return x.c
                if isinstance(x, str):
                    return x
                raise Unsupported("string pattern %r" % (x,))
            if isinstance(v, str):
                if name == "replace" and len(args) == 2:
                    return v.replace(as_text(args[0]), as_text(args[1]))
                if name == "split" and len(args) == 1:
                    return v.split(as_text(args[0]))
                if name == "contains" and len(args) == 1:
                    return as_text(args[0]) in v
                if name in ("find", "rfind") and len(args) == 1 and isinstance(args[0], (Ch, str)):
                    i_ = v.find(as_text(args[0])) if name == "find" else v.rfind(as_text(args[0]))
                    return ("__some", len(v[:i_].encode("utf-8"))) if i_ >= 0 else None
                if name == "trim" and not args:
                    return v.strip()
                if name == "to_uppercase" and not args:
                    return v.upper()
                if name == "to_lowercase" and not args:
                    return v.lower()
                if name == "repeat" and len(args) == 1 and isinstance(args[0], int):
                    return v * args[0]
                if name == "strip_prefix" and len(args) == 1:
                    p_ = as_text(args[0])
                    return ("__some", v[len(p_):]) if v.startswith(p_) else None
                if name == "strip_suffix" and len(args) == 1:
                    p_ = as_text(args[0])
                    return ("__some", v[:len(v) - len(p_)]) if v.endswith(p_) else None
                if name == "split_at" and len(args) == 1 and isinstance(args[0], int):
                    b_ = v.encode("utf-8")
                    try:
                        return (b_[:args[0]].decode("utf-8"), b_[args[0]:].decode("utf-8"))
                    except UnicodeDecodeError:
                        raise Diverged("split_at inside a character")
                if name == "as_bytes" and not args:
                    return list(v.encode("utf-8"))
                if name == "starts_with" and len(args) == 1:
                    return v.startswith(as_text(args[0]))
                if name == "ends_with" and len(args) == 1:
                    return v.endswith(as_text(args[0]))
                if name in ("len",) and not args:
                    return len(v.encode("utf-8"))
                if name == "is_empty" and not args:
                    return v == ""
                if name in ("to_string", "to_owned", "as_str", "clone", "into_boxed_str") and not args:
                    return v
                if name == "chars" and not args:
                    return [Ch(ch) for ch in v]
                if name == "parse" and not args:
                    ty = self.f.ty(e.get("ty")) or ""
                    if any(("Result<%s," % t) in ty for t in ("usize", "u8", "u16", "u32", "u64", "i32", "i64", "isize")):
                        ok_ = v.isascii() and v.isdigit()
                        return ("Ok", int(v)) if ok_ else ("Err", Opaque("ParseIntError"))
                    raise Unsupported("parse::<%s>" % ty)
                if name == "bytes" and not args:
                    return list(v.encode("utf-8"))
                if name == "char_indices" and not args:
                    out_, off_ = [], 0
                    for ch in v:
                        out_.append((off_, Ch(ch)))
                        off_ += len(ch.encode("utf-8"))
                    return out_
            if isinstance(v, list) and name in ("join", "concat"):
                if all(isinstance(x, str) for x in v):
                    return (as_text(args[0]) if args else "").join(v)
        # the `?` operator: Try::branch / FromResidual::from_residual on Result and Option
        if decl == "core::ops::try_trait::Try::branch":
            v = self.ev(e["args"][0], env, depth)
            if isinstance(v, tuple) and len(v) == 2 and v[0] in ("Ok", "__some"):
                return Var("core::ops::control_flow::ControlFlow::Continue", [v[1]])
            if isinstance(v, Var) and v.d == "core::result::Result::Ok":
                return Var("core::ops::control_flow::ControlFlow::Continue", [v.fields[0]])
            if v is None or (isinstance(v, tuple) and len(v) == 2 and v[0] == "Err") or (isinstance(v, Var) and v.d == "core::result::Result::Err"):
                return Var("core::ops::control_flow::ControlFlow::Break", [v])
            raise Unsupported("? on %r" % (v,))
        if decl == "core::ops::try_trait::FromResidual::from_residual":
            return self.ev(e["args"][0], env, depth)
        if decl == "core::default::Default::default" and e.get("k") == "call":
            ty = self.f.ty(e.get("ty")) or ""
            if ty.startswith("alloc::vec::Vec"):
                return []
            if ty.startswith("core::option::Option"):
                return None
            if ty == "alloc::string::String":
                return ""
            if ty == "bool":
                return False
            if re.match(r"^[A-Z][A-Za-z0-9]*$", ty) and self.free_opaque:
                # `T::default()` of a type parameter: the default value of whatever type it stands for
                return Opaque("Default::default")
        # core::mem::take / replace on a place: read it, then store the replacement (Default::default() of its type)
        if decl in ("core::mem::take", "core::mem::replace") and e.get("k") == "call":
            target = H.peel_ref(e["args"][0])
            old_v = self.ev(target, env, depth)
            if decl == "core::mem::replace":
                new_v = self.ev(e["args"][1], env, depth)
            else:
                ty = (self.f.ty(target.get("ty")) or "").lstrip("&")
                if ty.startswith("mut "):
                    ty = ty[4:]
                dfn = self.f.impl_fn("core::default::Default", ty, "default") if ty else None
                if ty.startswith("alloc::vec::Vec"):
                    new_v = []
                elif ty.startswith("core::option::Option"):
                    new_v = None
                elif ty == "alloc::string::String":
                    new_v = ""
                elif dfn:
                    new_v = self.call_fn(dfn, [], depth + 1)
                else:
                    raise Unsupported("mem::take of %s" % ty)
            if target.get("k") == "local" and isinstance(old_v, dict) and isinstance(new_v, dict) and not isinstance(env.get(target["name"]), FieldRef):
                # `mem::take(self)`: the pointee is replaced in place, the old contents are returned
                moved = dict(old_v)
                old_v.clear()
                old_v.update(new_v)
                return moved
            self.store(target, new_v, env, depth)
            return old_v
        if decl == "core::ops::range::RangeInclusive::<Idx>::new" and e.get("k") == "call" and len(e.get("args") or []) == 2:
            return _Range(self.ev(e["args"][0], env, depth), self.ev(e["args"][1], env, depth), True)
        if decl == "core::option::Option::<T>::take" and e.get("k") == "mcall" and not e.get("args"):
            old_v = self.ev(e["recv"], env, depth)
            self.store(e["recv"], None, env, depth)
            return old_v
        # a local closure called directly: `let f = |x| ..; f(a)`
        if e.get("k") == "call" and isinstance(e.get("fn_expr"), dict):
            fv = self.ev(e["fn_expr"], env, depth)
            if isinstance(fv, tuple) and len(fv) == 2 and fv[0] == "__ctorfn":
                args = [self.ev(a, env, depth) for a in e.get("args") or []]
                if fv[1] == "core::option::Option::Some":
                    return ("__some", args[0])
                return Var(fv[1], args)
            if isinstance(fv, tuple) and fv and fv[0] == "__fn":
                return self.apply_closure(fv, [self.ev(a, env, depth) for a in e.get("args") or []], depth)
            if isinstance(fv, tuple) and len(fv) == 3 and fv[0] == "__closure":
                args = [self.ev(a, env, depth) for a in e.get("args") or []]
                # the closure runs in the environment it captured by reference: assignments to captured locals persist
                _, node, cenv = fv
                env2 = cenv if cenv is env else env
                saved = {}
                for p_, a_ in zip(node.get("params") or [], args):
                    for b_ in [x for x in walk_pat(p_["pat"])]:
                        if b_ in env2:
                            saved[b_] = env2[b_]
                    if not self.bind(p_["pat"], a_, env2):
                        raise Unsupported("closure parameter pattern")
                try:
                    try:
                        return self.ev(node["body"], env2, depth + 1)
                    except _Return as r:
                        return r.v
                finally:
                    for k_, v_ in saved.items():
                        env2[k_] = v_
        # diverging
        if H.diverges(e):
            raise Diverged(c)
        # for-loop desugaring: IntoIterator::into_iter(x) / Iterator::next(&mut iter)
        if decl == "core::iter::traits::collect::IntoIterator::into_iter" and e.get("k") == "call":
            v = self.ev(e["args"][0], env, depth)
            if isinstance(v, dict) and "__iter" in v:
                return v
            if isinstance(v, (list, tuple)) and not (isinstance(v, tuple) and v and v[0] in ("__some", "__closure")):
                return {"__iter": list(v), "i": 0}
            if isinstance(v, _Range):
                return {"__iter": v.items(), "i": 0}
            raise Unsupported("into_iter of %r" % (v,))
        if decl == "core::iter::traits::iterator::Iterator::next":
            v = self.ev(e["recv"] if e.get("k") == "mcall" else e["args"][0], env, depth)
            if isinstance(v, dict) and "__iter" in v:
                if v["i"] < len(v["__iter"]):
                    v["i"] += 1
                    return ("__some", v["__iter"][v["i"] - 1])
                return None
            if isinstance(v, list):
                # an iterator obtained from chars() / iter() and stored in a local: next() consumes from the front
                return ("__some", v.pop(0)) if v else None
            raise Unsupported("next on %r" % (v,))
        # constructors
        if (e.get("dk") or "").startswith("Ctor"):
            args = [self.ev(a, env, depth) for a in e["args"]]
            if c == "core::option::Option::Some":
                return ("__some", args[0])
            return Var(e.get("ctor_of") or c, args)
        if c == "core::option::Option::Some":
            return ("__some", self.ev(e["args"][0], env, depth))
        if c in ("core::result::Result::Ok", "core::result::Result::Err"):
            return (c.rsplit("::", 1)[-1], self.ev(e["args"][0], env, depth))
        # transparent std helpers
        if e.get("k") == "mcall" and name in ("map", "and_then", "map_err", "ok", "is_ok", "is_err") and \
                (decl.startswith("core::result::Result") or c.startswith("core::result::Result")):
            v = self.ev(e["recv"], env, depth)
            if isinstance(v, Var) and v.d in ("core::result::Result::Ok", "core::result::Result::Err"):
                v = (v.d.rsplit("::", 1)[-1], v.fields[0])
            if not (isinstance(v, tuple) and len(v) == 2 and v[0] in ("Ok", "Err")):
                raise Unsupported("Result::%s on %r" % (name, v))
            if name == "is_ok":
                return v[0] == "Ok"
            if name == "is_err":
                return v[0] == "Err"
            if name == "ok":
                return ("__some", v[1]) if v[0] == "Ok" else None
            clo = self.ev(e["args"][0], env, depth)
            if name == "map":
                return ("Ok", self.apply_closure(clo, [v[1]], depth + 1)) if v[0] == "Ok" else v
            if name == "and_then":
                return self.apply_closure(clo, [v[1]], depth + 1) if v[0] == "Ok" else v
            if name == "map_err":
                return ("Err", self.apply_closure(clo, [v[1]], depth + 1)) if v[0] == "Err" else v
        if e.get("k") == "mcall" and name in ("map_or_else", "map_or", "ok_or", "ok_or_else") and \
                (decl.startswith("core::option::Option") or c.startswith("core::option::Option")):
            v = self.ev(e["recv"], env, depth)
            is_some = isinstance(v, tuple) and len(v) == 2 and v[0] == "__some"
            if v is not None and not is_some:
                raise Unsupported("Option::%s on %r" % (name, v))
            a = [self.ev(x, env, depth) for x in e["args"]]
            if name == "map_or_else":
                return self.apply_closure(a[1], [v[1]], depth + 1) if is_some else self.apply_closure(a[0], [], depth + 1)
            if name == "map_or":
                return self.apply_closure(a[1], [v[1]], depth + 1) if is_some else a[0]
            if name == "ok_or":
                return ("Ok", v[1]) if is_some else ("Err", a[0])
            return ("Ok", v[1]) if is_some else ("Err", self.apply_closure(a[0], [], depth + 1))
        if e.get("k") == "mcall" and name in ("or_else", "or", "and_then", "map", "unwrap_or", "unwrap_or_else", "is_some", "is_none", "filter", "is_some_and",
                                              "unwrap_or_default", "flatten", "and", "xor") and \
                (decl.startswith("core::option::Option") or c.startswith("core::option::Option")):
            v = self.ev(e["recv"], env, depth)
            is_some = isinstance(v, tuple) and len(v) == 2 and v[0] == "__some"
            if v is not None and not is_some:
                raise Unsupported("Option::%s on %r" % (name, v))
            if name == "is_some":
                return is_some
            if name == "is_none":
                return not is_some
            if name == "or":
                return v if is_some else self.ev(e["args"][0], env, depth)
            if name == "and":
                o_ = self.ev(e["args"][0], env, depth)
                return o_ if is_some else None
            if name == "xor":
                o_ = self.ev(e["args"][0], env, depth)
                return v if (is_some and o_ is None) else (o_ if (not is_some and o_ is not None) else None)
            if name == "flatten":
                if is_some and not (v[1] is None or (isinstance(v[1], tuple) and len(v[1]) == 2 and v[1][0] == "__some")):
                    raise Unsupported("Option::flatten on %r" % (v,))
                return v[1] if is_some else None
            if name == "unwrap_or_default":
                ty_ = self.f.ty(e.get("ty")) or ""
                if is_some:
                    return v[1]
                if ty_ == "alloc::string::String":
                    return ""
                if ty_ in INT_BITS:
                    return 0
                if ty_ == "bool":
                    return False
                raise Unsupported("unwrap_or_default of %s" % ty_)
            if name == "unwrap_or":
                return v[1] if is_some else self.ev(e["args"][0], env, depth)
            clo = self.ev(e["args"][0], env, depth)
            if name == "or_else":
                return v if is_some else self.apply_closure(clo, [], depth + 1)
            if name == "unwrap_or_else":
                return v[1] if is_some else self.apply_closure(clo, [], depth + 1)
            if name == "and_then":
                return self.apply_closure(clo, [v[1]], depth + 1) if is_some else None
            if name == "filter":
                return v if is_some and self._bool(self.apply_closure(clo, [v[1]], depth + 1)) else None
            if name == "is_some_and":
                return bool(is_some and self._bool(self.apply_closure(clo, [v[1]], depth + 1)))
            if name == "map":
                return ("__some", self.apply_closure(clo, [v[1]], depth + 1)) if is_some else None
        if e.get("k") == "mcall" and decl.startswith("core::bool::<impl bool>::") and name in ("then", "then_some"):
            b = self._bool(self.ev(e["recv"], env, depth))
            if name == "then_some":
                x = self.ev(e["args"][0], env, depth)      # evaluated eagerly, as in Rust
                return ("__some", x) if b else None
            clo = self.ev(e["args"][0], env, depth)
            return ("__some", self.apply_closure(clo, [], depth + 1)) if b else None
        if decl in ("core::convert::TryFrom::try_from", "core::convert::TryInto::try_into") and len(e.get("args") or []) + (1 if e.get("k") == "mcall" else 0) == 1:
            rty_ = self.f.ty(e.get("ty")) or ""
            m_ = re.match(r"^core::result::Result<(\w+), ", rty_)
            if m_ and (m_.group(1) in INT_BITS or m_.group(1) == "char"):
                v0 = self.ev(e["recv"] if e.get("k") == "mcall" else e["args"][0], env, depth)
                n0 = ord(v0.c) if isinstance(v0, Ch) else (v0 if isinstance(v0, int) and not isinstance(v0, bool) else None)
                if n0 is not None:
                    if m_.group(1) == "char":
                        ok_ = 0 <= n0 < 0x110000 and not (0xD800 <= n0 <= 0xDFFF)
                        return ("Ok", Ch(chr(n0))) if ok_ else ("Err", Opaque("CharTryFromError"))
                    bits, signed = INT_BITS[m_.group(1)]
                    lo_, hi_ = (-(1 << (bits - 1)), (1 << (bits - 1)) - 1) if signed else (0, (1 << bits) - 1)
                    return ("Ok", n0) if lo_ <= n0 <= hi_ else ("Err", Opaque("TryFromIntError"))
        if decl in ("core::convert::From::from", "core::convert::Into::into") and len(e.get("args") or []) + (1 if e.get("k") == "mcall" else 0) == 1:
            ty_ = self.f.ty(e.get("ty")) or ""
            if ty_ in ("usize", "isize", "u8", "u16", "u32", "u64", "u128", "i8", "i16", "i32", "i64", "i128", "char"):
                v0 = self.ev(e["recv"] if e.get("k") == "mcall" else e["args"][0], env, depth)
                if isinstance(v0, int) and not isinstance(v0, bool):
                    return Ch(chr(v0)) if ty_ == "char" else v0      # lossless integer widening / u8 -> char
                if isinstance(v0, Ch) and ty_ in ("u32", "u64", "i64", "u128", "i128"):
                    return ord(v0.c)
        if decl in ("core::convert::From::from", "alloc::string::ToString::to_string", "alloc::borrow::ToOwned::to_owned") and e.get("k") == "call" and len(e.get("args") or []) == 1:
            ty_ = self.f.ty(e.get("ty")) or ""
            if ty_ in ("alloc::string::String", "alloc::borrow::Cow<'_, str>", "alloc::boxed::Box<str>"):
                v0 = self.ev(e["args"][0], env, depth)
                if isinstance(v0, str):
                    return v0           # String::from("text")
                if isinstance(v0, Ch):
                    return v0.c
        if decl in ("core::convert::Into::into", "core::convert::From::from") and e.get("k") == "call" and self.opaque_conversions:
            v = self.ev(e["args"][0], env, depth)
            if isinstance(v, Opaque):
                return v
        if e.get("k") == "mcall" and name in ("min", "max", "saturating_sub", "abs_diff") and len(e.get("args") or []) == 1:
            a_ = self.ev(e["recv"], env, depth)
            b_ = self.ev(e["args"][0], env, depth)
            if isinstance(a_, int) and isinstance(b_, int) and not isinstance(a_, bool) and not isinstance(b_, bool):
                return {"min": min(a_, b_), "max": max(a_, b_), "saturating_sub": max(a_ - b_, 0), "abs_diff": abs(a_ - b_)}[name]
            raise Unsupported("%s on %r, %r" % (name, a_, b_))
        if e.get("k") == "mcall" and name in ("collect", "from_iter") and not e.get("args") and (self.f.ty(e.get("ty")) or "") == "alloc::string::String":
            recv = self.ev(e["recv"], env, depth)
            if isinstance(recv, dict) and "__iter" in recv:
                recv = recv["__iter"][recv["i"]:]
            if isinstance(recv, list) and all(isinstance(x, (Ch, str)) for x in recv):
                return "".join(x.c if isinstance(x, Ch) else x for x in recv)       # chars / pieces collected into a String
            raise Unsupported("collect::<String>() of %r" % (recv,))
        if e.get("k") == "mcall" and name in ITER_BUILTINS:
            recv = self.ev(e["recv"], env, depth)
            if isinstance(recv, (str, list)):
                args = [self.ev(a, env, depth) for a in e.get("args") or []]
                return ITER_BUILTINS[name](self, recv, args, depth)
        if e.get("k") == "mcall" and name == "to_string" and not e.get("args"):
            v = self.ev(e["recv"], env, depth)
            if isinstance(v, str):
                return v
            if isinstance(v, (Ch, int)) and not isinstance(v, bool):
                return self.display(v)
            if self.free_opaque and isinstance(v, Opaque):
                return "<%s>" % v.tag
            return self.display(v)
        if e.get("k") == "mcall" and name in ("as_ref", "deref", "borrow", "clone", "to_owned", "as_str", "into", "unwrap", "as_mut", "by_ref", "as_slice",
                                             "as_mut_slice", "as_deref", "iter_mut") and not e.get("args"):
            v = self.ev(e["recv"], env, depth)
            if name == "unwrap":
                if v is None:
                    raise Diverged("unwrap on None")
                if isinstance(v, tuple) and len(v) == 2 and v[0] in ("__some", "Ok"):
                    return v[1]
                if isinstance(v, tuple) and len(v) == 2 and v[0] == "Err":
                    raise Diverged("unwrap on Err")
                return v
            if name == "into":
                tgt = c
                # From<UnOper/BinOper> for Oper etc.: resolved impl in the crate
                r = e.get("resolved")
                if r and r != "=" and r in self.f.fns:
                    return self.call_fn(r, [v], depth + 1)
                # blanket Into<U> for T where U: From<T>: find the From impl by result type
                ty = self.f.ty(e.get("ty"))
                rty = (self.f.ty(e.get("recv_ty")) or "").lstrip("&")
                rty_full = self.f.ty(e.get("recv_ty")) or ""
                for cand in ([rty_full] if rty_full != rty else []) + [rty]:
                    for i in self.f.impls:
                        if i.get("trait") == "core::convert::From" and i.get("self_ty") == ty and ("From<%s>>" % cand) in ((i.get("trait_ref") or "") + ">"):
                            return self.call_fn(i["items"]["from"], [v], depth + 1)
                if ty == rty:
                    return v
                if isinstance(v, str) and ty in ("alloc::string::String", "alloc::borrow::Cow<'_, str>", "&str"):
                    return v
                if rty in ("alloc::string::String", "str") and re.match(r"^(alloc::borrow::Cow<'[^,>]*, str>|alloc::boxed::Box<str>|alloc::rc::Rc<str>|alloc::sync::Arc<str>|alloc::string::String)$", ty or ""):
                    return v        # one text container into another: the text is the same
                if self.opaque_conversions and (isinstance(v, Opaque) or callable(self.opaque_conversions)):
                    # no conversion of the crate applies: the conversion is abstracted to the identity (when the caller allows it)
                    if callable(self.opaque_conversions) and not self.opaque_conversions(self.f.ty(e.get("recv_ty")) or "", ty or ""):
                        raise Unsupported("conversion %s -> %s of a symbolic value" % (self.f.ty(e.get("recv_ty")), ty))
                    return v
                raise Unsupported("into %s -> %s" % (rty, ty))
            return v
        if e.get("k") == "mcall" and name in ("reserve", "reserve_exact", "shrink_to_fit") and (decl.startswith("alloc::vec::Vec") or decl.startswith("alloc::string::String")):
            for a_ in e.get("args") or []:
                self.ev(a_, env, depth)
            return ()           # capacity is not observable
        if e.get("k") == "mcall" and name in ("remove", "swap_remove", "truncate", "drain") and (decl.startswith("alloc::vec::Vec") or c.startswith("alloc::vec::Vec")):
            v = self.ev(e["recv"], env, depth)
            args = [self.ev(a, env, depth) for a in e.get("args") or []]
            if not isinstance(v, list):
                raise Unsupported("Vec::%s on %r" % (name, v))
            if name == "remove" and isinstance(args[0], int):
                if not (0 <= args[0] < len(v)):
                    raise Diverged("Vec::remove out of range")
                return v.pop(args[0])
            if name == "swap_remove" and isinstance(args[0], int):
                if not (0 <= args[0] < len(v)):
                    raise Diverged("Vec::swap_remove out of range")
                x_ = v[args[0]]
                v[args[0]] = v[-1]
                v.pop()
                return x_
            if name == "truncate" and isinstance(args[0], int):
                del v[args[0]:]
                return ()
            if name == "drain" and isinstance(args[0], _Range):
                lo = 0 if args[0].start is None else args[0].start
                hi = len(v) if args[0].end is None else args[0].end + (1 if args[0].inclusive else 0)
                out_ = v[lo:hi]
                del v[lo:hi]
                return out_
            raise Unsupported("Vec::%s" % name)
        if e.get("k") == "mcall" and name in ("push", "pop", "insert", "extend", "append", "clear") and (
                decl.startswith("alloc::vec::Vec") or c.startswith("alloc::vec::Vec") or c.startswith("<alloc::vec::Vec<")):
            v = self.ev(e["recv"], env, depth)
            if name == "clear" and isinstance(v, Opaque) and self.free_opaque and not e.get("args"):
                self.store(e["recv"], [], env, depth)      # whatever the vector held, it is empty now
                return ()
            if not isinstance(v, list):
                raise Unsupported("Vec::%s on %r" % (name, v))
            args = [self.ev(a, env, depth) for a in e.get("args") or []]
            if name == "push":
                v.append(args[0])
                return ()
            if name == "pop":
                return ("__some", v.pop()) if v else None
            if name == "insert" and len(args) == 2 and isinstance(args[0], int):
                if not (0 <= args[0] <= len(v)):
                    raise Diverged("Vec::insert out of range")
                v.insert(args[0], args[1])
                return ()
            if name == "clear":
                del v[:]
                return ()
            if name in ("extend", "append") and isinstance(args[0], list):
                v.extend(args[0])
                if name == "append":
                    del args[0][:]
                return ()
            raise Unsupported("Vec::%s" % name)
        if e.get("k") == "mcall" and name in ("write_fmt", "write_str", "push_str", "push", "write_char"):
            recv = H.place(e["recv"])
            a = self.ev(e["args"][0], env, depth)
            txt = self.display(a) if not isinstance(a, str) else a
            self.out.append((recv, txt))
            r0 = H.peel_ref(e["recv"])
            if r0.get("k") == "local" and isinstance(env.get(r0["name"]), str):
                env[r0["name"]] = env[r0["name"]] + txt      # a local String buffer
            elif r0.get("k") == "local" and isinstance(env.get(r0["name"]), FieldRef) and isinstance(env[r0["name"]].get(), str):
                env[r0["name"]].set(env[r0["name"]].get() + txt)
            elif r0.get("k") == "field":
                try:
                    b0 = self.ev(r0["base"], env, depth)
                except Unsupported:
                    b0 = None
                if isinstance(b0, dict) and isinstance(b0.get(r0["name"]), str):
                    b0[r0["name"]] = b0[r0["name"]] + txt      # a String field of a struct (`self.string`)
            return ("Ok", ())
        if e.get("k") == "mcall" and name in ("len", "is_empty") and not e.get("args"):
            v = self.ev(e["recv"], env, depth)
            if isinstance(v, (list, tuple, str)) and not (isinstance(v, tuple) and v and v[0] in ("__some", "__closure")):
                return len(v) if name == "len" else len(v) == 0
            # otherwise: a method of a crate type (e.g. Condition::len) - handled below
        if e.get("k") == "mcall" and name == "is_some":
            return self.ev(e["recv"], env, depth) is not None
        if e.get("k") == "mcall" and name == "is_none":
            return self.ev(e["recv"], env, depth) is None
        # crate functions: interpret their body
        target = c if c in self.f.fns else (decl if decl in self.f.fns else None)
        if target is not None and self.opaque_call is not None and self.opaque_call(e):
            return self.unknown_call(self, e, env, depth)
        if target is not None and self.f.fns[target].get("hir") is not None:
            recv = [self.ev(e["recv"], env, depth)] if e.get("k") == "mcall" else []
            args = [self.ev(a, env, depth) for a in e.get("args") or []]
            return self.call_fn(target, recv + args, depth + 1)
        if self.unknown_call is not None:
            return self.unknown_call(self, e, env, depth)
        raise Unsupported("call %s" % (c or decl))


def _to_digit(a):
    c, radix = a[0].c, a[1]
    try:
        v = int(c, 36) if (c.isascii() and c.isalnum()) else None
    except ValueError:
        v = None
    return ("__some", v) if v is not None and v < radix else None


def _from_u32(a):
    n = a[0]
    if 0 <= n <= 0x10FFFF and not (0xD800 <= n <= 0xDFFF):
        return ("__some", Ch(chr(n)))
    return None


def _from_digit(a):
    n, radix = a[0], a[1]
    if 0 <= n < radix <= 36:
        return ("__some", Ch("0123456789abcdefghijklmnopqrstuvwxyz"[n]))
    return None


_CM = "core::char::methods::<impl char>::"
CHAR_MODEL = {
    _CM + "to_digit": _to_digit,
    _CM + "is_digit": lambda a: _to_digit(a) is not None,
    _CM + "from_u32": _from_u32,
    "core::char::convert::from_u32": _from_u32,
    _CM + "from_digit": _from_digit,
    "core::char::convert::from_digit": _from_digit,
    _CM + "is_ascii": lambda a: a[0].c.isascii(),
    _CM + "is_ascii_digit": lambda a: a[0].c in "0123456789",
    _CM + "is_ascii_hexdigit": lambda a: a[0].c in "0123456789abcdefABCDEF",
    _CM + "is_ascii_alphabetic": lambda a: a[0].c.isascii() and a[0].c.isalpha(),
    _CM + "is_ascii_alphanumeric": lambda a: a[0].c.isascii() and a[0].c.isalnum(),
    _CM + "is_ascii_lowercase": lambda a: a[0].c.isascii() and a[0].c.islower(),
    _CM + "is_ascii_uppercase": lambda a: a[0].c.isascii() and a[0].c.isupper(),
    _CM + "is_ascii_whitespace": lambda a: a[0].c in " \t\n\r\x0c",
    _CM + "is_ascii_control": lambda a: ord(a[0].c) < 32 or ord(a[0].c) == 127,
    _CM + "to_ascii_lowercase": lambda a: Ch(a[0].c.lower() if a[0].c.isascii() else a[0].c),
    _CM + "to_ascii_uppercase": lambda a: Ch(a[0].c.upper() if a[0].c.isascii() else a[0].c),
    _CM + "len_utf8": lambda a: len(a[0].c.encode("utf-8")),
}


class _Range:
    """a..b / a.. / ..b / a..=b"""
    __slots__ = ("start", "end", "inclusive")

    def __init__(self, start, end, inclusive):
        self.start, self.end, self.inclusive = start, end, inclusive

    def __repr__(self):
        return "%s..%s%s" % ("" if self.start is None else self.start, "=" if self.inclusive else "", "" if self.end is None else self.end)

    def items(self):
        if not isinstance(self.start, int) or not isinstance(self.end, int):
            raise Unsupported("iteration over an open range")
        return list(range(self.start, self.end + (1 if self.inclusive else 0)))


class _ChunksExact(list):
    """`xs.chunks_exact(n)`: the full chunks, and what is left over"""

    def __init__(self, xs, n):
        full = len(xs) // n * n
        super().__init__([xs[i:i + n] for i in range(0, full, n)])
        self.rest = xs[full:]


def _get(recv, args):
    i = args[0]
    if isinstance(recv, list) and isinstance(i, int) and not isinstance(i, bool):
        return ("__some", recv[i]) if 0 <= i < len(recv) else None
    raise Unsupported("get")


def _nth(it, recv, args, depth):
    n = args[0]
    if not isinstance(recv, list) or not isinstance(n, int):
        raise Unsupported("nth")
    if n < len(recv):
        x = recv[n]
        del recv[:n + 1]       # the iterator has advanced past it
        return ("__some", x)
    del recv[:]
    return None


def _fold(it, recv, args, depth):
    acc = args[0]
    for x in list(recv):
        acc = it.apply_closure(args[1], [acc, x], depth)
    return acc


def _chars(it, recv, args, depth):
    if not isinstance(recv, str):
        raise Unsupported("chars on non-string")
    return [Ch(c) for c in recv]


def _take(it, recv, args, depth):
    return list(recv)[:args[0]]


def _all(it, recv, args, depth):
    for x in recv:
        if not it._bool(it.apply_closure(args[0], [x], depth)):
            return False
    return True


def _any(it, recv, args, depth):
    for x in recv:
        if it._bool(it.apply_closure(args[0], [x], depth)):
            return True
    return False


def _filter(it, recv, args, depth):
    return [x for x in list(recv) if it._bool(it.apply_closure(args[0], [x], depth))]


ITER_BUILTINS = {"chars": _chars, "take": _take, "all": _all, "any": _any,
                 "map": lambda it, r, a, d: [it.apply_closure(a[0], [x], d) for x in list(r)],
                 "filter": _filter, "nth": _nth,
                 "get": lambda it, r, a, d: _get(r, a),
                 "chunks": lambda it, r, a, d: [list(r)[i:i + a[0]] for i in range(0, len(list(r)), a[0])],
                 "chunks_exact": lambda it, r, a, d: _ChunksExact(list(r), a[0]),
                 "remainder": lambda it, r, a, d: r.rest if isinstance(r, _ChunksExact) else (_ for _ in ()).throw(Unsupported("remainder")),
                 "windows": lambda it, r, a, d: [list(r)[i:i + a[0]] for i in range(0, len(list(r)) - a[0] + 1)],
                 "for_each": lambda it, r, a, d: ([it.apply_closure(a[0], [x], d) for x in list(r)], ())[1],
                 "count": lambda it, r, a, d: len(list(r)),
                 "position": lambda it, r, a, d: next((("__some", i) for i, x in enumerate(list(r)) if it._bool(it.apply_closure(a[0], [x], d))), None),
                 "find": lambda it, r, a, d: next((("__some", x) for x in list(r) if it._bool(it.apply_closure(a[0], [x], d))), None),
                 "find_map": lambda it, r, a, d: next((v for v in (it.apply_closure(a[0], [x], d) for x in list(r)) if v is not None), None),
                 "chain": lambda it, r, a, d: list(r) + list(a[0]),
                 "zip": lambda it, r, a, d: list(zip(list(r), list(a[0]))),
                 "enumerate": lambda it, r, a, d: [(i, x) for i, x in enumerate(list(r))],
                 "iter": lambda it, r, a, d: list(r), "into_iter": lambda it, r, a, d: list(r),
                 "skip": lambda it, r, a, d: list(r)[a[0]:], "rev": lambda it, r, a, d: list(reversed(list(r))),
                 "fold": lambda it, r, a, d: _fold(it, r, a, d), "peek": lambda it, r, a, d: (("__some", list(r)[0]) if list(r) else None),
                 "peekable": lambda it, r, a, d: r, "by_ref": lambda it, r, a, d: r,
                 "collect": lambda it, r, a, d: list(r), "cloned": lambda it, r, a, d: list(r), "copied": lambda it, r, a, d: list(r),
                 "split_first": lambda it, r, a, d: (("__some", (list(r)[0], list(r)[1:])) if list(r) else None),
                 "split_last": lambda it, r, a, d: (("__some", (list(r)[-1], list(r)[:-1])) if list(r) else None),
                 "first": lambda it, r, a, d: (("__some", list(r)[0]) if list(r) else None),
                 "last": lambda it, r, a, d: (("__some", list(r)[-1]) if list(r) else None)}
