"""Small NFA toolkit (stdlib only): Thompson-style construction with epsilon edges, subset construction, language
inclusion with a shortest counterexample."""
from collections import deque


# refined nonterminals: a word with the refined symbol is also a word with the general one
REFINES = {"<atom>": "<expr>"}


class NFA:
    def __init__(self):
        self.n = 0
        self.eps = {}      # state -> set(states)
        self.tr = {}       # state -> {symbol: set(states)}
        self.info = {}     # (state, symbol, target) -> provenance (what wrote this token)

    def state(self):
        s = self.n
        self.n += 1
        return s

    def add_eps(self, a, b):
        self.eps.setdefault(a, set()).add(b)

    def add(self, a, sym, b, info=None):
        self.tr.setdefault(a, {}).setdefault(sym, set()).add(b)
        if info is not None:
            self.info[(a, sym, b)] = info

    def closure(self, states):
        seen = set(states)
        todo = list(states)
        while todo:
            s = todo.pop()
            for t in self.eps.get(s, ()):
                if t not in seen:
                    seen.add(t)
                    todo.append(t)
        return frozenset(seen)

    def step(self, states, sym):
        out = set()
        for s in states:
            out |= self.tr.get(s, {}).get(sym, set())
        return self.closure(out)

    def symbols_from(self, states):
        out = set()
        for s in states:
            out |= set(self.tr.get(s, {}).keys())
        return out


def _wordch(ch):
    return ch.isalnum() or ch == "_"


def included(a, a_start, a_end, b, b_start, b_end, limit=400000, skip=None):
    """Is L(a) a subset of L(b)?  Returns None if yes, else (word, provenance, position): a shortest word accepted by `a`
    and not by `b`; provenance is that of the first symbol after which no sentence of `b` is possible any more (or of the
    last symbol when the word is a proper prefix of a sentence of `b`).  `skip(info)` removes transitions of `a`.

    The states of `a` carry two pieces of path information:
    * token fusion: transitions may be marked `gb` (the emission starts with a word character, nothing before it) and `ga`
      (it ends with a word character, nothing after it); `<sp>` is an emission of white space only.  A glued emission
      directly followed by one that starts glued is read as the single token `<fused>..`, which no grammar derives;
    * literal-valued mutable locals (separator variables): `<set>` transitions assign a literal to a local, `<var>`
      transitions write its current value (empty, white space, or one token)."""
    from .grammar import lex

    def var_edge(env, info):
        """what writing the tracked local does in this environment: list of (kind, token, gb, ga)"""
        cur = dict(env).get(info["var"])
        vals = [cur] if cur is not None else list(info.get("values") or [])
        out = []
        for v in vals:
            if v == "":
                out.append(("eps", None, False, False))
            elif not v.strip():
                out.append(("sp", None, False, False))
            else:
                tk = lex(v)
                out.append(("tok", tk[0], _wordch(v[0]), _wordch(v[-1])))
        return out

    def closure(triples):
        seen = set(triples)
        todo = list(triples)
        while todo:
            q, g, env = todo.pop()
            nxt = []
            for t in a.eps.get(q, ()):
                nxt.append((t, g, env))
            for t in a.tr.get(q, {}).get("<sp>", ()):
                nxt.append((t, False, env))
            for t in a.tr.get(q, {}).get("<set>", ()):
                info = a.info.get((q, "<set>", t)) or {}
                env2 = frozenset([(k_, v_) for k_, v_ in env if k_ != info.get("var")] + [(info.get("var"), info.get("val"))])
                nxt.append((t, g, env2))
            for t in a.tr.get(q, {}).get("<var>", ()):
                info = a.info.get((q, "<var>", t)) or {}
                for kind, tok, gb, ga in var_edge(env, info):
                    if kind == "eps":
                        nxt.append((t, g, env))
                    elif kind == "sp":
                        nxt.append((t, False, env))
            for x in nxt:
                if x not in seen:
                    seen.add(x)
                    todo.append(x)
        return frozenset(seen)
    A0 = closure([(a_start, False, frozenset())])
    B0 = b.closure([b_start])
    start = (A0, B0)
    seen = {start}
    q = deque([(start, [], None, None)])
    n = 0
    while q:
        (A, B), word, prov, dead = q.popleft()
        n += 1
        if n > limit:
            raise RuntimeError("inclusion search limit")
        if any(s_ == a_end for s_, _, _ in A) and b_end not in B:
            return (word, dead[0], dead[1]) if dead is not None else (word, prov, len(word) - 1)
        moves = {}
        for s_, g, env in A:
            for sym, ts in a.tr.get(s_, {}).items():
                if sym in ("<sp>", "<set>"):
                    continue
                for t in ts:
                    info = a.info.get((s_, sym, t))
                    if skip is not None and info is not None and skip(info):
                        continue
                    if sym == "<var>":
                        for kind, tok, gb, ga in var_edge(env, info or {}):
                            if kind == "tok":
                                label = ("<fused>" + tok) if (g and gb) else tok
                                moves.setdefault(label, []).append((t, ga, env, info))
                        continue
                    label = sym
                    if g and info is not None and info.get("gb"):
                        label = "<fused>" + sym
                    moves.setdefault(label, []).append((t, bool(info.get("ga")) if info is not None else False, env, info))
        for label in sorted(moves):
            targets = [(t, ga, env) for t, ga, env, _ in moves[label]]
            p = None
            for _, _, _, info in moves[label]:
                p = info or p
            A2 = closure(targets)
            if label.startswith("<fused>"):
                B2 = frozenset()
            else:
                B2 = b.step(B, label) if B else frozenset()
                if B and label in REFINES:
                    B2 = frozenset(B2 | b.step(B, REFINES[label]))
            key = (A2, B2)
            if key in seen:
                continue
            seen.add(key)
            d2 = dead
            if d2 is None and not B2:
                d2 = (p, len(word))
            q.append((key, word + [label], p, d2))
    return None


def accepts(a, start, end, word):
    cur = a.closure([start])
    for sym in word:
        cur = a.step(cur, sym)
        if not cur:
            return False
    return end in cur
