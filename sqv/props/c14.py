"""C14  MySQL and Postgres schema statements are complete and well-formed.  DESIGN.md section 4, C14."""
from ._structure import run_structure

META = ("other",
        "C14.R1 grammar refinement - the token language each statement renderer can write (NFA built from the linked template "
        "IR: guards free, but correlated boolean flags, shared first-flags, loop-index guards, constant enum arguments, "
        "variants excluded by a calling match and fold decision tables tracked) is included in the dialect grammar skeleton "
        "specs/<dialect>.ebnf; a counterexample is a shortest token string with the emission that leaves the grammar; C14.R6 "
        "hook discipline - inner renderers of overridable backend hooks (specs/hooks.json) are called only from implementations "
        "of the hook;  "
        "Structural conditions of the MySQL and PostgreSQL schema renderers: C14.R2 type tables - every ColumnType variant is a "
        "type the dialect defines, its parameters forwarded in order, UNSIGNED exactly on the unsigned variants, unsupported "
        "types refused; C14.R3 separator discipline (incl. the hand-managed commas of ALTER COLUMN, tabulated over all "
        "ColumnSpec variants), parentheses, adjacency; C14.R4 field consumption per backend with reviewed exceptions",
        "one obligation per type-table row, per struct field, per separated list, per function with parentheses")


def check(run):
    run_structure(run, "C14", "schema", ["mysql", "postgres"], run.tier_configs(["default", "all"], ["mysql", "postgres"]))
    run.assumptions.append("NOT decided: acceptance by the dialects' DDL parsers")
