//! Item-level facts: ADTs, traits, impls, consts, trait-solver answers.

use crate::json::J;
use crate::{obj, Ctx};
use rustc_hir::def::DefKind;
use rustc_hir::def_id::{DefId, LOCAL_CRATE};
use rustc_infer::infer::TyCtxtInferExt;
use rustc_middle::ty::{self, Ty, TyCtxt, TypingMode};
use rustc_span::sym;
use rustc_trait_selection::infer::InferCtxtExt;

fn implements<'tcx>(tcx: TyCtxt<'tcx>, ty: Ty<'tcx>, trait_did: DefId) -> bool {
    let infcx = tcx.infer_ctxt().build(TypingMode::non_body_analysis());
    infcx
        .type_implements_trait(trait_did, [ty], ty::ParamEnv::empty())
        .must_apply_modulo_regions()
}

pub fn auto_traits<'tcx>(cx: &Ctx<'tcx>, ty: Ty<'tcx>) -> J {
    let tcx = cx.tcx;
    let send = tcx.get_diagnostic_item(sym::Send);
    let sync = tcx.get_diagnostic_item(sym::Sync);
    let freeze = tcx.lang_items().freeze_trait();
    let unpin = tcx.lang_items().unpin_trait();
    let q = |d: Option<DefId>| match d {
        Some(d) => J::Bool(implements(tcx, ty, d)),
        None => J::Null,
    };
    obj! { "Send": q(send), "Sync": q(sync), "Freeze": q(freeze), "Unpin": q(unpin) }
}

/// unparsed (tool / derive-helper) attributes of a definition as text: `iden = "x"`, `iden(rename = "x")`, `method = "m"`
fn attrs_j<'tcx>(cx: &Ctx<'tcx>, did: DefId) -> J {
    let tcx = cx.tcx;
    let mut out = Vec::new();
    if let Some(local) = did.as_local() {
        let hir_id = tcx.local_def_id_to_hir_id(local);
        for a in tcx.hir_attrs(hir_id) {
            if let rustc_hir::Attribute::Unparsed(item) = a {
                let path: Vec<String> = item.path.segments.iter().map(|s| s.to_string()).collect();
                let sm = tcx.sess.source_map();
                let text = sm.span_to_snippet(item.span).unwrap_or_default();
                out.push(obj! { "path": J::s(path.join("::")), "text": J::s(text) });
            }
        }
    }
    if out.is_empty() { J::Null } else { J::Arr(out) }
}

pub fn dump_items<'tcx>(cx: &mut Ctx<'tcx>) -> J {
    let tcx = cx.tcx;
    let mut adts = Vec::new();
    let mut traits = Vec::new();
    let mut impls = Vec::new();
    let mut consts = Vec::new();
    let mut aliases = Vec::new();

    for id in tcx.hir_crate_items(()).definitions() {
        let did = id.to_def_id();
        let kind = tcx.def_kind(did);
        match kind {
            DefKind::Struct | DefKind::Enum | DefKind::Union => {
                let adt = tcx.adt_def(did);
                let generics = tcx.generics_of(did);
                let n_ty_params = generics
                    .own_params
                    .iter()
                    .filter(|p| !matches!(p.kind, ty::GenericParamDefKind::Lifetime))
                    .count();
                let n_lt_params = generics.own_params.len() - n_ty_params;
                let mut variants = Vec::new();
                for (vi, v) in adt.variants().iter_enumerated() {
                    let mut fields = Vec::new();
                    for f in v.fields.iter() {
                        let fty = tcx.type_of(f.did).instantiate_identity().skip_norm_wip();
                        fields.push(obj! {
                            "name": J::s(f.name.to_string()),
                            "ty": cx.ty(fty),
                            "pub": J::Bool(f.vis.is_public()),
                        });
                    }
                    variants.push(obj! {
                        "name": J::s(v.name.to_string()),
                        "idx": J::Int(vi.as_u32() as i128),
                        "def": J::s(cx.def(v.def_id)),
                        "attrs": attrs_j(cx, v.def_id),
                        "ctor": match v.ctor_kind() {
                            Some(rustc_hir::def::CtorKind::Fn) => J::s("fn"),
                            Some(rustc_hir::def::CtorKind::Const) => J::s("const"),
                            None => J::s("struct"),
                        },
                        "fields": J::Arr(fields),
                    });
                }
                let auto = if n_ty_params == 0 && n_lt_params == 0 {
                    let t = tcx.type_of(did).instantiate_identity().skip_norm_wip();
                    auto_traits(cx, t)
                } else {
                    J::Null
                };
                let (sp, _) = cx.sp_j(tcx.def_span(did));
                adts.push((
                    cx.def(did),
                    obj! {
                        "kind": J::s(match kind { DefKind::Struct => "struct", DefKind::Enum => "enum", _ => "union" }),
                        "pub": J::Bool(tcx.visibility(did).is_public()),
                        "reachable": J::Bool(tcx.effective_visibilities(()).is_reachable(id)),
                        "ty_params": J::Int(n_ty_params as i128),
                        "lt_params": J::Int(n_lt_params as i128),
                        "non_exhaustive": J::Bool(adt.is_variant_list_non_exhaustive()),
                        "attrs": attrs_j(cx, did),
                        "src": if cx.tcx.crate_name(LOCAL_CRATE).as_str() != "sea_query" {
                            // whole item text incl. helper attributes (for witness cross-checks of derive expansions)
                            let item_span = tcx.hir_span_with_body(tcx.local_def_id_to_hir_id(id));
                            match tcx.sess.source_map().span_to_snippet(item_span) { Ok(t) if t.len() < 8000 => J::s(t), _ => J::Null }
                        } else { J::Null },
                        "sp": sp,
                        "variants": J::Arr(variants),
                        "auto": auto,
                    },
                ));
            }
            DefKind::Trait => {
                let mut items = Vec::new();
                for it in tcx.associated_items(did).in_definition_order() {
                    items.push(obj! {
                        "name": J::s(it.name().to_string()),
                        "def": J::s(cx.def(it.def_id)),
                        "kind": J::s(format!("{:?}", it.tag())),
                        "has_default": J::Bool(it.defaultness(tcx).has_value()),
                    });
                }
                let mut supers = Vec::new();
                for (clause, _) in tcx.explicit_super_predicates_of(did).iter_identity_copied().map(|x| x.skip_norm_wip()) {
                    if let Some(tp) = clause.as_trait_clause() {
                        supers.push(J::s(cx.def(tp.def_id())));
                    }
                }
                let (sp, _) = cx.sp_j(tcx.def_span(did));
                traits.push((
                    cx.def(did),
                    obj! { "items": J::Arr(items), "supertraits": J::Arr(supers), "sp": sp,
                           "pub": J::Bool(tcx.visibility(did).is_public()) },
                ));
            }
            DefKind::Impl { of_trait } => {
                let self_ty = tcx.type_of(did).instantiate_identity().skip_norm_wip();
                let self_adt = self_ty.ty_adt_def().map(|a| cx.def(a.did()));
                let trait_ = if of_trait {
                    let tr = tcx.impl_trait_ref(did).instantiate_identity().skip_norm_wip();
                    Some((cx.def(tr.def_id), {
                        use rustc_middle::ty::print::{with_crate_prefix, with_no_trimmed_paths, with_no_visible_paths};
                        with_crate_prefix!(with_no_visible_paths!(with_no_trimmed_paths!(tr.to_string())))
                    }))
                } else {
                    None
                };
                let mut items = Vec::new();
                for it in tcx.associated_items(did).in_definition_order() {
                    items.push((it.name().to_string(), J::s(cx.def(it.def_id))));
                }
                let (sp, macs) = cx.sp_j(tcx.def_span(did));
                impls.push(obj! {
                    "def": J::s(cx.def(did)),
                    "trait": J::opt_s(trait_.as_ref().map(|t| t.0.clone())),
                    "trait_ref": J::opt_s(trait_.as_ref().map(|t| t.1.clone())),
                    "self_ty": J::s(cx.ty_str(self_ty)),
                    "self_adt": J::opt_s(self_adt),
                    "derived": J::Bool(tcx.is_automatically_derived(did)),
                    "generic": J::Bool(tcx.generics_of(did).own_params.len() > 0),
                    "sp": sp,
                    "mac": macs,
                    "items": J::Map(items),
                });
            }
            DefKind::Const { .. } | DefKind::Static { .. } | DefKind::AssocConst { .. } => {
                let t = tcx.type_of(did).instantiate_identity().skip_norm_wip();
                let (sp, _) = cx.sp_j(tcx.def_span(did));
                consts.push((cx.def(did), obj! { "ty": cx.ty(t), "sp": sp, "kind": J::s(format!("{:?}", kind)) }));
            }
            DefKind::TyAlias => {
                let t = tcx.type_of(did).instantiate_identity().skip_norm_wip();
                let auto = if tcx.generics_of(did).count() == 0 { auto_traits(cx, t) } else { J::Null };
                aliases.push((cx.def(did), obj! { "ty": J::s(cx.ty_str(t)), "auto": auto,
                    "reachable": J::Bool(tcx.effective_visibilities(()).is_reachable(id)) }));
            }
            _ => {}
        }
    }
    let _ = LOCAL_CRATE;
    obj! {
        "adts": J::Map(adts),
        "traits": J::Map(traits),
        "impls": J::Arr(impls),
        "consts": J::Map(consts),
        "aliases": J::Map(aliases),
    }
}
