"""C11  Custom SQL templates and inject_parameters replace exactly the placeholders.  DESIGN.md section 4, C11."""
from itertools import product

from .. import hir as H
from .. import paths as P
from .. import tir as T
from ..facts import nhir, walk
from ..interp import Interp, Opaque, Unsupported, Diverged, Var

META = ("other",
        "C11.R1/R2 token-tape tabulation: the CustomWithExpr arm (with whatever helpers it calls) and inject_parameters are "
        "interpreted on every tape of abstract tokens of length <= 3 (<= 4 in the thorough tier) for the `?` and `$n` styles, with "
        "exactly as many values as the tape designates and with spare ones, and the text written is compared with the property's "
        "reading (mark -> designated value, doubled mark -> one mark, everything else verbatim); R3 the cust_with_* constructors "
        "interpreted on 0..3 opaque values.  Code outside the interpreter's fragment is decided by the path rules instead:  "
        "C11.R1 token conservation in the CustomWithExpr arm: on every path through one iteration of the substitution loop the "
        "consumed tokens are written back verbatim, or form a placeholder replaced by exactly one prepare_simple_expr(&values[i]), "
        "or are a doubled mark replaced by one mark - no path consumes a token and emits nothing; the arm-selection table shows "
        "that a placeholder mark never takes the verbatim path; R2 index discipline: positional lookups use a counter that starts "
        "at 0 and advances by one per use, numbered lookups use n-1, in both the renderer and inject_parameters, and the mark is "
        "placeholder() of the rendering backend; R3 Expr::cust_with_* store template and values unchanged, in order",
        "one obligation per loop path (classified), per table row of the arm selection, per index expression")

QB = "crate::backend::query_builder::QueryBuilder"
TOKEN = "crate::token::Token"


def find_custom_arm(f):
    name = QB + "::prepare_simple_expr_common"
    body = nhir(f, name)
    for m in walk(body):
        if m.get("k") == "match" and m.get("src") == "Normal":
            for arm in m["arms"]:
                if T.pat_variants(arm["pat"]) == ["crate::expr::SimpleExpr::CustomWithExpr"]:
                    return name, arm
    return name, None


def idx_expr(e):
    """classify an index expression of `values[...]`: ('count', name) | ('minus1', name) | ('other', text)"""
    e = H.peel_ref(e)
    if e.get("k") == "local":
        return ("var", e["name"])
    if e.get("k") == "binary" and e["op"] == "-":
        l, r = H.peel_ref(e["l"]), H.peel_ref(e["r"])
        if l.get("k") == "local" and r.get("k") == "lit" and r["lit"]["v"] == 1:
            return ("minus1", l["name"])
    return ("other", T.text(e))


def check_custom_arm(run, f, cfg):
    name, arm = find_custom_arm(f)
    fn = f.fns.get(name)
    if arm is None:
        run.anchor("C11.R1", "CustomWithExpr", "arm not found in prepare_simple_expr_common", cfg)
        return
    pat = arm["pat"]
    tmpl, vals = [s.get("name") for s in pat["subs"]]
    ps = P.enum(arm["body"])
    loops = [ev for p in ps for ev in p.events if ev["ev"] == "loop"]
    if len(loops) != 1 and len(set(id(l["n"]) for l in loops)) != 1:
        run.anchor("C11.R1", "CustomWithExpr.loop", "expected one substitution loop", cfg)
        return
    # setup: placeholder() of self, tokenizer over the template, counter = 0
    pre = ps[0]
    lets = {e["n"]["pat"].get("name"): e["n"] for e in pre.events if e["ev"] == "let" and e["n"]["pat"].get("k") == "bind"}
    tups = [e["n"] for e in pre.events if e["ev"] == "let" and e["n"]["pat"].get("k") == "tuple"]
    ph_ok = False
    mark_name = numbered_name = None
    for t in tups:
        init = H.peel_ref(t["init"])
        if init.get("k") == "mcall" and init.get("callee") == QB + "::placeholder" and H.place(init["recv"]) == "self":
            mark_name, numbered_name = [s.get("name") for s in t["pat"]["subs"]]
            ph_ok = True
    run.ob("C11.R2", "custom:mark-source", ph_ok, "the mark compared against is self.placeholder() of the rendering backend", sp=arm["sp"], cfg=cfg)
    tok_local = None
    for nm, l in lets.items():
        calls = [c for c in H.calls(l["init"])]
        if any((c.get("callee") or "") == "crate::token::Tokenizer::new" for c in calls):
            tok_local = nm
            newc = [c for c in calls if (c.get("callee") or "") == "crate::token::Tokenizer::new"][0]
            run.ob("C11.R1", "custom:tokenizes-template", H.place(newc["args"][0]) == tmpl, "the loop tokenizes the stored template", sp=arm["sp"], cfg=cfg)
    counter = None
    for nm, l in lets.items():
        init = H.peel_ref(l["init"])
        if l["pat"].get("mut") and init.get("k") == "lit" and init["lit"]["v"] == 0:
            counter = nm
    run.ob("C11.R2", "custom:counter-init", counter is not None, "the positional counter starts at 0", sp=arm["sp"], cfg=cfg)
    if tok_local is None or mark_name is None:
        run.anchor("C11.R1", "CustomWithExpr.setup", "tokenizer / placeholder locals not recognised", cfg)
        return
    lp = loops[0]
    # loop variable: `while let Some(token) = tokenizer.next()`
    tokvar = None
    for n in walk(lp["n"]):
        if n.get("k") == "let" and n["pat"].get("k") == "variant" and "Some" in n["pat"]["path"].get("def", ""):
            init = H.peel_ref(n["init"])
            if init.get("k") == "mcall" and init["name"] == "next" and H.place(init["recv"]) == tok_local:
                tokvar = (n["pat"].get("subs") or [{}])[0].get("name")
                break
    if tokvar is None:
        run.anchor("C11.R1", "CustomWithExpr.loopvar", "`while let Some(token) = tokenizer.next()` not recognised", cfg)
        return
    npaths = 0
    for pi, p in enumerate(lp["paths"]):
        if p.out == "break":
            continue        # loop exit (tokenizer exhausted)
        npaths += 1
        nexts = 0
        emitted = []
        incs = 0
        peeked = {}
        problems = []
        first_next_seen = False
        for c in p.conds:
            # bindings of peeked tokens: Some(Token::Punctuation(mark)) / Some(Token::Unquoted(tok))
            if c[0] == "arm":
                origin = "current" if H.place(c[3]["scrut"]) == tokvar else "peeked"
                for n in walk(c[1]["pat"]):
                    if n.get("k") == "variant" and n["path"].get("def", "").startswith(TOKEN + "::"):
                        for s in n.get("subs") or []:
                            if s.get("k") == "bind":
                                peeked[s["name"]] = (n["path"]["def"].rsplit("::", 1)[-1], origin)   # later bindings shadow earlier ones
        for ev in p.events:
            n = ev["n"]
            if ev["ev"] == "call":
                if n.get("k") == "mcall" and n["name"] == "next" and H.place(n["recv"]) == tok_local:
                    if not first_next_seen:
                        first_next_seen = True     # the loop header's own next()
                    else:
                        nexts += 1
                elif n.get("k") == "mcall" and n["name"] == "write_fmt" and H.place(n["recv"]) == "sql":
                    a = n["args"][0]
                    if a.get("k") == "fmt" and len(a["pieces"]) == 1 and "arg" in a["pieces"][0]:
                        emitted.append(("text", H.place(a["pieces"][0]["arg"])))
                    else:
                        emitted.append(("text", "?"))
                elif n.get("k") == "mcall" and (n.get("callee") or "") == QB + "::prepare_simple_expr":
                    a = H.peel_ref(n["args"][0])
                    if a.get("k") == "index" and H.place(a["base"]) == vals:
                        emitted.append(("value",) + idx_expr(a["idx"]))
                    else:
                        emitted.append(("value", "other", T.text(a)))
            elif ev["ev"] == "assign" and H.place(n["l"]) == counter:
                r = H.peel_ref(n["r"])
                if n["k"] == "assignop" and n["op"] == "+=" and r.get("k") == "lit" and r["lit"]["v"] == 1:
                    incs += 1
                else:
                    problems.append("counter modified other than += 1")
        consumed = 1 + nexts
        # classify
        kind = None
        if len(emitted) == 1 and emitted[0][0] == "text" and consumed == 1 and incs == 0 and \
                (emitted[0][1] == tokvar or peeked.get(emitted[0][1], ("", ""))[1] == "current"):
            kind = "verbatim"      # the current token (or its own text) is written back, nothing else consumed
        elif len(emitted) == 1 and emitted[0][0] == "text" and peeked.get(emitted[0][1]) == ("Punctuation", "peeked") and consumed == 2 and incs == 0:
            kind = "doubled-mark"
        elif len(emitted) == 1 and emitted[0][:2] == ("value", "var") and emitted[0][2] == counter and consumed == 1 and incs == 1:
            kind = "positional"
        elif len(emitted) == 1 and emitted[0][:2] == ("value", "minus1") and consumed == 2 and incs == 0:
            kind = "numbered"
        # a lone mark is a placeholder on every positional (`?`) backend: keeping the mark as text, or reading a number
        # after it, is sound only on the path guarded by `numbered`
        under_numbered = False
        if numbered_name is not None:
            for c in p.conds:
                if c[0] == "arm" and isinstance(c[1].get("guard"), dict):
                    it_ = Interp(f)
                    it_.free_opaque = True
                    try:
                        # the guard must be false whenever the placeholder style is positional
                        if it_._bool(it_.ev(c[1]["guard"], {numbered_name: False})) is False:
                            under_numbered = True
                    except (Unsupported, Diverged):
                        pass
        keeps_mark = kind == "verbatim" and peeked.get(emitted[0][1], ("", ""))[0] == "Punctuation" and emitted[0][1] != tokvar
        if keeps_mark or kind == "numbered":
            run.ob("C11.R1", "custom:numbered-only:%s" % ("keeps-mark" if keeps_mark else "numbered"), under_numbered,
                   "loop path %d (%s) is taken only under the `numbered` placeholder style%s" % (
                       pi, "a mark followed by a word is written back as text" if keeps_mark else "mark + number selects values[n-1]",
                       "" if under_numbered else " - NOT: on a positional backend the mark is a placeholder and its value would stay unbound"),
                   sp=arm["sp"], cfg=cfg)
        desc = {"consumed_tokens": consumed, "emitted": emitted, "counter_increments": incs, "problems": problems}
        pkey = "custom:%s" % kind if kind else "custom:unclassified:consumes%d-emits%d" % (consumed, len(emitted))
        run.ob("C11.R1", pkey, kind is not None and not problems,
               "loop path %d %s" % (pi, {
                   "verbatim": "writes the token back unchanged",
                   "doubled-mark": "consumes a doubled mark and writes one mark",
                   "positional": "replaces a mark by values[counter] and advances the counter by one",
                   "numbered": "replaces mark+number by values[n-1]",
                   None: "consumes %d token(s) but emits %s - text of the template is lost or invented" % (consumed, emitted or "nothing")}[kind]),
               sp=arm["sp"], cfg=cfg, detail=desc)
    run.floor("C11.R1", "custom-loop-paths", npaths, 4, cfg)
    # arm-selection table: a Punctuation token equal to the mark must enter the placeholder handling, never the verbatim arm
    inner = [m for m in walk(lp["n"]) if m.get("k") == "match" and m.get("src") == "Normal" and H.place(m["scrut"]) == tokvar]
    if len(inner) != 1:
        run.anchor("C11.R1", "custom:token-match", "`match token` not recognised", cfg)
        return
    m = inner[0]
    bad = []
    rows = 0
    try:
        for mark, numbered, cnt, nvals in product(["?", "$"], [False, True], [0, 1, 2], [0, 1, 2]):
            for tok in (Var(TOKEN + "::Punctuation", [mark]), Var(TOKEN + "::Punctuation", ["+"]), Var(TOKEN + "::Unquoted", ["abc"]),
                        Var(TOKEN + "::Quoted", ["'" + mark + "'"]), Var(TOKEN + "::Space", [" "])):
                rows += 1
                it = Interp(f)
                env = {tokvar: tok, mark_name: mark, numbered_name: numbered, counter: cnt, vals: [Opaque("v")] * nvals, tok_local: Opaque("tokenizer")}
                chosen = None
                for i, a in enumerate(m["arms"]):
                    e2 = dict(env)
                    if it.bind(a["pat"], tok, e2):
                        if a.get("guard") is not None and not it._bool(it.ev(a["guard"], e2)):
                            continue
                        chosen = i
                        break
                is_mark = tok.d.endswith("Punctuation") and tok.fields[0] == mark
                verbatim_arm = chosen is not None and any(x.get("k") == "fmt" for x in walk(m["arms"][chosen]["body"])) and \
                    not any((c.get("callee") or "") == QB + "::prepare_simple_expr" for c in H.calls(m["arms"][chosen]["body"]))
                if is_mark and verbatim_arm:
                    bad.append("mark %r (numbered=%s, counter=%d, %d values)" % (mark, numbered, cnt, nvals))
                if not is_mark and not verbatim_arm:
                    bad.append("non-placeholder token %r treated as a placeholder" % (tok,))
    except (Unsupported, Diverged) as e:
        run.ob("C11.R1", "custom:arm-table", False, "arm selection outside the tabulated fragment: %s" % e, sp=arm["sp"], cfg=cfg)
        return
    run.ob("C11.R1", "custom:arm-table", not bad,
           "arm selection tabulated on %d rows (token kind x mark x numbered x counter x value count): a placeholder mark always enters the placeholder "
           "handling (so a doubled mark is always reduced and a mark always substituted), every other token is written verbatim%s" % (rows, "" if not bad else " - EXCEPT " + "; ".join(bad[:4])),
           sp=arm["sp"], cfg=cfg, detail=bad[:12] or None)


# ---- token-tape tabulation ---------------------------------------------------------------------------------------------
# The substitution code is interpreted on every short tape of abstract tokens (how text is split into tokens is C16's
# subject), for both placeholder styles that the backends use, and its output compared with the property's own reading.

class _Outside(Exception):
    pass


def tok(kind, text):
    return Var(TOKEN + "::" + kind, [text])


def tape_alphabet(mark):
    return [tok("Punctuation", mark), tok("Punctuation", "+"), tok("Unquoted", "1"), tok("Unquoted", "2"), tok("Unquoted", "ab"),
            tok("Quoted", "'" + mark + "'"), tok("Space", " ")]


def tapes(mark, maxlen):
    al = tape_alphabet(mark)
    for n in range(0, maxlen + 1):
        for t in product(al, repeat=n):
            # the tokenizer's words and spaces are maximal runs: two of the same kind never touch
            if any(a.d == b.d and a.d.rsplit("::", 1)[-1] in ("Unquoted", "Space") for a, b in zip(t, t[1:])):
                continue
            yield list(t)


def kind_of(t):
    return t.d.rsplit("::", 1)[-1]


def reference(tape, mark, numbered, doubled, nvals):
    """the property's reading of a tape: `?` by position, `$n` by number, (in templates) a doubled mark is one literal
    mark, everything else verbatim.  None = the property does not speak (a lone mark on a numbered backend, out of range)"""
    out, i, count = [], 0, 0
    while i < len(tape):
        t = tape[i]
        nxt = tape[i + 1] if i + 1 < len(tape) else None
        if kind_of(t) == "Punctuation" and t.fields[0] == mark:
            if doubled and nxt is not None and kind_of(nxt) == "Punctuation" and nxt.fields[0] == mark:
                out.append(mark)
                i += 2
                continue
            if numbered:
                if nxt is not None and kind_of(nxt) == "Unquoted":
                    if nxt.fields[0].isdigit():
                        n = int(nxt.fields[0])
                        if not (1 <= n <= nvals):
                            return None
                        out.append("<V%d>" % (n - 1))
                        i += 2
                    else:
                        out.append(mark)      # `$name` is not a placeholder
                        i += 1
                    continue
                return None
            if count >= nvals:
                return None
            out.append("<V%d>" % count)
            count += 1
            i += 1
            continue
        out.append(t.fields[0])
        i += 1
    return "".join(out)


def tape_list(mark, maxlen):
    return list(tapes(mark, maxlen))


def value_counts(tape_iter, mark, numbered, doubled):
    """every tape with exactly as many values as it designates (so that the counter reaches the end of the list), and with
    spare ones"""
    for tape in tape_iter:
        need = None
        for n in range(0, NVALS + 1):
            if reference(tape, mark, numbered, doubled, n) is not None:
                need = n
                break
        if need is None:
            continue
        yield tape, need
        if need < NVALS:
            yield tape, NVALS


TEMPLATE = "<the template>"
STYLES = [("?", False), ("$", True)]      # placeholder() of MySQL / SQLite, and of Postgres (C01 decides the table itself)
NVALS = 4


def tape_interp(f, mark, numbered, tape, value_call, self_names):
    it = Interp(f)
    it.max_depth = 12

    def placeholder(it_, args):
        if not (args and isinstance(args[0], Opaque) and args[0].tag in self_names):
            raise _Outside("placeholder() of something other than the rendering backend")
        return (mark, numbered)

    def new_tokenizer(it_, args):
        if args[0] != TEMPLATE:
            raise _Outside("the tokenizer is not run over the template / statement text")
        return ("__tokenizer",)
    it.builtins = {QB + "::placeholder": placeholder, "crate::token::Tokenizer::new": new_tokenizer,
                   "crate::token::Tokenizer::iter": lambda it_, args: list(tape),
                   "crate::token::Token::as_str": lambda it_, args: args[0].fields[0],
                   "crate::token::Token::is_quoted": lambda it_, args: kind_of(args[0]) == "Quoted"}
    it.display_hook = lambda v: v.fields[0] if isinstance(v, Var) and v.d.startswith(TOKEN + "::") else None
    it.opaque_call = lambda e: (e.get("callee") or "") == value_call or (H.callee(e) or "") == value_call
    return it


def _text_of(it, sink):
    return "".join(t for r, t in it.out if r == sink)


def check_tapes(run, f, cfg):
    """returns the set of parts ('custom', 'inject') decided by tabulation"""
    decided = set()
    maxlen = 4 if run.tier == "thorough" else 3
    # (1) the CustomWithExpr arm, wherever its code lives (helpers are interpreted through)
    name, arm = find_custom_arm(f)
    if arm is not None and len(arm["pat"].get("subs") or []) == 2:
        tmpl, vals = [s_.get("name") for s_ in arm["pat"]["subs"]]
        fn = f.fns[name]
        sink = fn["params"][-1]["pat"].get("name") or "sql"
        bad, rows, outside = [], 0, None
        try:
            for mark, numbered in STYLES:
                for tape, nvals in value_counts(tape_list(mark, maxlen), mark, numbered, True):
                    want = reference(tape, mark, numbered, True, nvals)
                    rows += 1
                    it = tape_interp(f, mark, numbered, tape, QB + "::prepare_simple_expr", {"self"})

                    def value(it_, e, env, depth, it=it):
                        v = it_.ev(e["args"][0], env, depth)
                        if not (isinstance(v, str) and v.startswith("<V")):
                            raise _Outside("prepare_simple_expr on something other than a supplied value")
                        it_.out.append((H.place(e["args"][1]), v))
                        return ()
                    it.unknown_call = value
                    env = {"self": Opaque("self"), sink: Opaque(sink), tmpl: TEMPLATE, vals: ["<V%d>" % i for i in range(nvals)]}
                    try:
                        it.ev(arm["body"], env)
                        got = _text_of(it, sink)
                    except (Diverged, IndexError) as e_:
                        got = "<panic: %s>" % e_
                    if got != want:
                        bad.append("%s%s on %s with %d values: writes %r, expected %r" % (mark, "n" if numbered else "", " ".join(repr(t.fields[0]) for t in tape), nvals, got, want))
        except (Unsupported, _Outside) as e_:
            outside = str(e_)
        if outside is None:
            decided.add("custom")
            run.ob("C11.R1", "custom:tape-table", not bad,
                   "the CustomWithExpr arm interpreted on %d (token tape, value list) rows (tapes of length <= %d over mark, other punctuation, numbers, a "
                   "word, a quoted literal holding the mark, a space; styles `?` and `$n`; exactly as many values as designated, and %d): marks are replaced by the value they designate, a doubled mark gives one "
                   "mark, every other token is written unchanged%s" % (rows, maxlen, NVALS, "" if not bad else " - EXCEPT " + "; ".join(bad[:4])),
                   sp=arm["sp"], cfg=cfg, detail=bad[:12] or None)
            run.floor("C11.R1", "custom-tape-rows", rows, 300, cfg)
            from .. import scope
            scope.check_bound(run, "C11.R1", "custom:scope", f, [name], maxlen, cfg, "the CustomWithExpr arm (token tapes of length <= %d)" % maxlen)
        else:
            run.notes.append("C11 CustomWithExpr arm outside the interpreter's fragment (%s): decided by the path rules" % outside)
    # (2) inject_parameters
    iname = "crate::prepare::inject_parameters"
    ifn = f.fns.get(iname)
    if ifn is not None and ifn.get("hir") is not None and len(ifn["params"]) == 3:
        qb = ifn["params"][2]["pat"].get("name")
        bad, rows, outside = [], 0, None
        try:
            for mark, numbered in STYLES:
                for tape, nvals in value_counts(tape_list(mark, maxlen), mark, numbered, False):
                    want = reference(tape, mark, numbered, False, nvals)
                    rows += 1
                    it = tape_interp(f, mark, numbered, tape, QB + "::value_to_string", {qb})

                    def value(it_, e, env, depth):
                        v = it_.ev(e["args"][0], env, depth)
                        if not (isinstance(v, str) and v.startswith("<V")):
                            raise _Outside("value_to_string on something other than a supplied value")
                        return v
                    it.unknown_call = value
                    try:
                        got = it.call_fn(iname, [TEMPLATE, ["<V%d>" % i for i in range(nvals)], Opaque(qb)])
                        if isinstance(got, list) and all(isinstance(x, str) for x in got):
                            got = "".join(got)          # `collect::<String>()`
                    except (Diverged, IndexError) as e_:
                        got = "<panic: %s>" % e_
                    if got != want:
                        bad.append("%s%s on %s with %d values: returns %r, expected %r" % (mark, "n" if numbered else "", " ".join(repr(t.fields[0]) for t in tape), nvals, got, want))
        except (Unsupported, _Outside) as e_:
            outside = str(e_)
        if outside is None:
            decided.add("inject")
            run.ob("C11.R2", "inject:tape-table", not bad,
                   "inject_parameters interpreted on %d (token tape, value list) rows (tapes of length <= %d; styles `?` and `$n`; exactly as many values as designated, and %d): every placeholder becomes the inline "
                   "form of the value it designates, every other token is copied%s" % (rows, maxlen, NVALS, "" if not bad else " - EXCEPT " + "; ".join(bad[:4])),
                   sp=ifn["sp"], cfg=cfg, detail=bad[:12] or None)
            run.floor("C11.R2", "inject-tape-rows", rows, 300, cfg)
            from .. import scope
            scope.check_bound(run, "C11.R2", "inject:scope", f, [iname], maxlen, cfg, "inject_parameters (token tapes of length <= %d)" % maxlen)
        else:
            run.notes.append("C11 inject_parameters outside the interpreter's fragment (%s): decided by the path rules" % outside)
    return decided


def check_inject(run, f, cfg):
    name = "crate::prepare::inject_parameters"
    fn = f.fns.get(name)
    if fn is None:
        run.anchor("C11.R2", "inject_parameters", "not found", cfg)
        return
    body = nhir(f, name)
    ps = P.fn_paths(body)
    loops = [ev for p in ps for ev in p.events if ev["ev"] == "loop"]
    if not loops:
        run.anchor("C11.R2", "inject.loop", "loop not found", cfg)
        return
    lp = loops[0]
    qb = fn["params"][2]["pat"].get("name")
    n = 0
    for pi, p in enumerate(lp["paths"]):
        if p.out == "break":
            continue
        n += 1
        pushes = []
        i_inc = 0
        c_inc = 0
        marks_ok = True
        for ev in p.events:
            x = ev["n"]
            if ev["ev"] == "call" and x.get("k") == "mcall" and x["name"] == "push" and H.place(x["recv"]) == "output":
                a = H.peel_ref(x["args"][0])
                if a.get("k") == "mcall" and (a.get("callee") or "") == QB + "::value_to_string" and H.place(a["recv"]) == qb:
                    ia = H.peel_ref(a["args"][0])
                    if ia.get("k") == "index" and H.place(ia["base"]) == "params":
                        pushes.append(("value",) + idx_expr(ia["idx"]))
                    else:
                        pushes.append(("value", "other", T.text(ia)))
                elif a.get("k") == "mcall" and a["name"] == "to_string":
                    pushes.append(("text", H.place(a["recv"])))
                else:
                    pushes.append(("other", T.text(a)))
            elif ev["ev"] == "call" and x.get("k") == "mcall" and (x.get("callee") or "") == QB + "::placeholder":
                marks_ok = marks_ok and H.place(x["recv"]) == qb
            elif ev["ev"] == "assign" and x["k"] == "assignop" and x["op"] == "+=":
                r = H.peel_ref(x["r"])
                if H.place(x["l"]) == "i" and r.get("k") == "lit":
                    i_inc += r["lit"]["v"]
                elif H.place(x["l"]) == "counter" and r.get("k") == "lit":
                    c_inc += r["lit"]["v"]
        kind = None
        if len(pushes) == 1 and pushes[0][0] == "text" and i_inc == 1 and c_inc == 0:
            kind = "verbatim"
        elif len(pushes) == 1 and pushes[0][:2] == ("value", "var") and pushes[0][2] == "counter" and i_inc == 1 and c_inc == 1:
            kind = "positional"
        elif len(pushes) == 1 and pushes[0][:2] == ("value", "minus1") and i_inc == 2 and c_inc == 0:
            kind = "numbered"
        run.ob("C11.R2", "inject:%s" % (kind or "unclassified:pushes%d-index%d-counter%d" % (len(pushes), i_inc, c_inc)), kind is not None and marks_ok,
               "inject_parameters loop path %d: %s" % (pi, {"verbatim": "one token copied, index +1", "positional": "params[counter] inlined, counter +1, index +1",
                                                           "numbered": "params[n-1] inlined, index +2 (mark and number)",
                                                           None: "pushes %s with index +%d, counter +%d" % (pushes, i_inc, c_inc)}[kind]),
               sp=fn["sp"], cfg=cfg, detail={"pushes": pushes, "i": i_inc, "counter": c_inc})
    run.floor("C11.R2", "inject-paths", n, 4, cfg)
    # counter starts at 0; output joined in order
    inits = {x["pat"].get("name"): H.peel_ref(x["init"]) for x in walk(body) if x.get("k") == "stmt_let" and x["pat"].get("k") == "bind" and x.get("init") is not None}
    run.ob("C11.R2", "inject:counter-init", inits.get("counter", {}).get("lit", {}).get("v") == 0 and inits.get("i", {}).get("lit", {}).get("v") == 0,
           "inject_parameters: counter and token index start at 0", sp=fn["sp"], cfg=cfg)
    v = H.peel_ref(ps[0].value) if ps else {}
    names = [c.get("name") for c in H.calls(v)] if isinstance(v, dict) else []
    run.ob("C11.R2", "inject:output-order", sorted(names) == ["collect", "into_iter"] and H.place(H.peel_ref(H.peel_ref(v)["recv"])["recv"]) == "output",
           "the result is the concatenation of the pushed pieces in order", sp=fn["sp"], cfg=cfg, detail=names)


def _strip(v):
    """remove constructor wrappers (SimpleExpr::Value(..) etc.) around the opaque markers"""
    while isinstance(v, Var) and len(v.fields) == 1:
        v = v.fields[0]
    return v


def constructor_by_interp(f, name, single):
    """interpret Expr::cust_with_* on a template marker and 0..3 value markers (conversions abstracted to the identity);
    returns a list of deviations, or raises Unsupported"""
    bad = []
    for n in ([1] if single else [0, 1, 2, 3]):
        it = Interp(f)
        it.free_opaque = True
        it.opaque_conversions = True
        vals = [Opaque("v%d" % i) for i in range(n)]
        r = it.call_fn(name, [Opaque("template"), vals[0] if single else list(vals)])
        if not (isinstance(r, Var) and r.d == "crate::expr::SimpleExpr::CustomWithExpr" and len(r.fields) == 2):
            bad.append("returns %r" % (r,))
            continue
        t, vs = r.fields
        if not (isinstance(t, Opaque) and t.tag == "template"):
            bad.append("template stored as %r" % (t,))
        if not isinstance(vs, list):
            raise Unsupported("value list %r" % (vs,))
        got = [_strip(x) for x in vs]
        if [getattr(x, "tag", None) for x in got] != [v.tag for v in vals]:
            bad.append("%d values stored as %r" % (n, got))
    return bad


def check_constructors(run, f, cfg):
    E = "crate::expr::Expr"
    for nm in ("cust_with_values", "cust_with_expr", "cust_with_exprs"):
        fn = f.fns.get(E + "::" + nm)
        if fn is None:
            run.anchor("C11.R3", nm, "not found", cfg)
            continue
        try:
            bad = constructor_by_interp(f, E + "::" + nm, nm == "cust_with_expr")
            run.ob("C11.R3", nm, not bad, "Expr::%s stores the template text and the values unchanged and in order (interpreted on 0..3 opaque values)%s" % (
                nm, "" if not bad else " - NOT: " + "; ".join(bad)), sp=fn["sp"], cfg=cfg)
            continue
        except (Unsupported, Diverged) as e_:
            run.notes.append("C11.R3 %s outside the interpreter's fragment (%s): decided by its shape" % (nm, e_))
        ps = P.fn_paths(fn["hir"])
        v = H.peel_ref(ps[0].value) if len(ps) == 1 else {}
        ok = v.get("k") == "call" and v.get("callee") == "crate::expr::SimpleExpr::CustomWithExpr"
        if ok:
            p0, p1 = fn["params"][0]["pat"].get("name"), fn["params"][1]["pat"].get("name")
            a0, a1 = H.peel_ref(v["args"][0]), v["args"][1]
            ok = a0.get("k") == "mcall" and a0["name"] == "into" and H.place(a0["recv"]) == p0
            names = [c.get("name") or (c.get("callee") or "").rsplit("::", 1)[-1] for c in H.calls(a1)]
            deny = {"rev", "sort", "dedup", "skip", "take", "filter", "reverse", "step_by"}
            roots = [H.place(c["recv"]) for c in H.calls(a1) if c.get("name") in ("into_iter", "into")] + [H.place(x) for x in walk(a1) if x.get("k") == "local"]
            ok = ok and not (set(names) & deny) and p1 in roots
        run.ob("C11.R3", nm, ok, "Expr::%s stores the template text and the values unchanged and in order" % nm, sp=fn["sp"], cfg=cfg)


def check(run):
    for cfg in run.tier_configs(["default"], ["all"]):
        f = run.facts(cfg)
        # the tabulation decides whatever lies in the interpreter's fragment; the path rules (which recognise one coding of
        # the loop) decide the rest and fail closed on a shape they do not know
        decided = check_tapes(run, f, cfg)
        if "custom" not in decided:
            check_custom_arm(run, f, cfg)
        if "inject" not in decided:
            check_inject(run, f, cfg)
        check_constructors(run, f, cfg)
    run.delegate("C16", "which characters of a template form a placeholder mark, and which lie inside quoted text, is decided by the tokenizer that C16 decides")
    run.assumptions.append("not decided: inject_parameters(build(s)) == to_string(s) for every statement (depends on re-lexing every literal form); "
                           "out-of-range $0 / $9 lookups panic - the property does not speak about them")
