"""Utilities over the MIR view."""


def place_fields(place):
    """[(adt, field name)] for every field projection of a place, outermost first"""
    out = []
    for p in place.get("p") or []:
        if isinstance(p, dict) and "f" in p:
            out.append((p.get("adt"), p["name"]))
    return out


def iter_bodies(f):
    for name, fn in f.fns.items():
        m = fn.get("mir")
        if m:
            yield name, fn, m


def field_mutations(f, adt):
    """Every place in the crate where a field of `adt` is assigned, mutably borrowed, used as a call destination,
    or where a value of `adt` is constructed.  Yields dicts {fn, field, kind, sp}."""
    for name, fn, m in iter_bodies(f):
        for b in m["blocks"]:
            if b.get("cleanup"):
                continue
            for s in b["stmts"]:
                if s["k"] != "assign":
                    continue
                for a, fld in place_fields(s["place"]):
                    if a == adt:
                        yield {"fn": name, "field": fld, "kind": "assign", "sp": s.get("sp")}
                rv = s["rv"]
                if rv["k"] in ("ref", "rawptr") and rv.get("mut"):
                    for a, fld in place_fields(rv["place"]):
                        if a == adt:
                            yield {"fn": name, "field": fld, "kind": "borrow_mut", "sp": s.get("sp")}
                if rv["k"] == "agg" and rv.get("agg") == "adt" and rv.get("adt") == adt:
                    yield {"fn": name, "field": "*", "kind": "construct", "sp": s.get("sp")}
            t = b["term"]
            if t["k"] == "call":
                for a, fld in place_fields(t["dest"]):
                    if a == adt:
                        yield {"fn": name, "field": fld, "kind": "call_dest", "sp": b.get("sp")}


def calls_to(f, pred):
    """every MIR call terminator whose callee satisfies pred(callee_def, resolved) -> yields (fn name, block, term)"""
    for name, fn, m in iter_bodies(f):
        for i, b in enumerate(m["blocks"]):
            if b.get("cleanup"):
                continue
            t = b["term"]
            if t["k"] == "call":
                c = t["func"].get("fn")
                if c and pred(c, t.get("resolved")):
                    yield name, i, b


def callee_of(term):
    r = term.get("resolved")
    if r and r != "=":
        return r
    return term["func"].get("fn")
