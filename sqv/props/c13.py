"""C13  SQLite schema statements create exactly the declared schema.  DESIGN.md section 4, C13."""
from ._structure import run_structure

META = ("other",
        "Structural conditions of the SQLite schema renderers: C13.R2 type table - every ColumnType variant is tabulated (with "
        "and without AUTOINCREMENT), SQLite's documented affinity algorithm is applied to the emitted type name and compared "
        "with the intended affinity; an AUTOINCREMENT column is declared exactly INTEGER; unsupported types are refused; "
        "C13.R3 field consumption for the schema statement structs with reviewed SQLite exceptions; C13.R4 separators, "
        "parentheses, adjacency, forward iteration; referential-action keywords",
        "one obligation per type-table row, per struct field, per separated list, per function with parentheses")


def check(run):
    run_structure(run, "C13", "schema", ["sqlite"], run.tier_configs(["default", "all"], ["exacttype"]))
    run.assumptions.append("NOT decided: acceptance by the engine and the catalogue contents afterwards (needs execution)")
    run.assumptions.append("identifier and literal safety inside schema statements: C03/C04")
