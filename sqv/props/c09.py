"""C09  Portable statements denote the same query on all three backends.  DESIGN.md section 4, C09.

The three backends run the *same* default renderers of the builder traits; they can differ only at the trait items a
backend overrides.  Decided statically: (R1) every override is enumerated and must be a reviewed one (a new override is
reported), dialect-only overrides write nothing unless their dialect-only construct is present; (R2) on the portable
subset the keyword tables of the three backends - tabulated from the code by abstract interpretation - are equal after
the documented substitutions; (R3) the required per-backend hooks are the trivial ones."""
import json
import os

from .. import hir as H
from .. import kw
from .. import link as L
from .. import paths as P
from .. import tir as T
from ..facts import VERIF, walk

META = ("other",
        "C09.R1 override audit: every item of QueryBuilder / EscapeBuilder / TableRefBuilder / QuotedBuilder / the deciders that a "
        "backend overrides is enumerated and must be classified in specs/overrides.json (lexical / emulation / dialect-only / "
        "non-portable / refuses); a dialect-only override writes only under a guard on its dialect-only construct; R2 agreement on "
        "the portable subset: for every keyword table and every variant all three dialects support, what the three backends write "
        "(tabulated from the code) is equal after the documented function-name and parenthesis substitutions; R3 the required "
        "per-backend items (prepare_query_statement, prepare_value, quote, deciders) are the same trivial delegations",
        "one obligation per override, per (table, portable variant), per required hook")

AUDITED = ["crate::backend::query_builder::QueryBuilder", "crate::backend::EscapeBuilder", "crate::backend::table_ref_builder::TableRefBuilder",
           "crate::backend::QuotedBuilder", "crate::backend::PrecedenceDecider", "crate::backend::OperLeftAssocDecider"]
PORTABLE_TABLES = ["JoinType", "UnionType", "Order", "Frame", "SubQueryOper", "Keyword", "SelectDistinct", "Function", "UnOper", "BinOper"]


def spec():
    return json.load(open(os.path.join(VERIF, "specs", "overrides.json")))


def check_audit(run, f, cfg, sp):
    table = {e["key"]: e for e in sp["entries"]}
    seen = set()
    n = 0
    for tr in AUDITED:
        t = f.traits.get(tr)
        if t is None:
            run.anchor("C09.R1", tr, "trait not found", cfg)
            continue
        defaults = {i["name"] for i in t["items"] if i["has_default"]}
        short = tr.rsplit("::", 1)[-1]
        for d, adt in L.BACKENDS.items():
            if adt not in f.adts:
                continue
            for i in f.trait_impls(tr):
                if i.get("self_adt") != adt:
                    continue
                for item in sorted(set(i["items"]) & defaults):
                    n += 1
                    key = "%s:%s::%s" % (d, short, item)
                    seen.add(key)
                    e = table.get(key)
                    run.ob("C09.R1", "override:" + key, e is not None,
                           "%s overrides %s::%s: %s" % (d, short, item, ("%s - %s" % (e["class"], e["reason"])) if e else
                                                        "NOT a reviewed override - the shared renderer is replaced for this backend only"),
                           sp=f.fns[i["items"][item]]["sp"], cfg=cfg)
                    if e and e["class"].startswith("dialect-only:"):
                        what = e["class"].split(":", 1)[1]
                        ok, why = writes_only_under(f, i["items"][item], what)
                        run.ob("C09.R1", "dialect-only:" + key, ok,
                               "%s %s::%s writes backend-specific text only when `%s` is involved%s" % (d, short, item, what, "" if ok else " - NOT: " + why),
                               sp=f.fns[i["items"][item]]["sp"], cfg=cfg)
    run.floor("C09.R1", "overrides", n, 35, cfg)
    stale = sorted(k for k in table if k not in seen)
    if stale:
        run.notes.append("override table entries without a matching override in config %s: %s" % (cfg, ", ".join(stale)))


def writes_only_under(f, fname, what):
    """every write of the override that is not a plain delegation to the shared `_common`/default renderer sits under a
    guard (branch condition or match arm) whose text mentions `what`"""
    t = T.fn_tir(f, fname)
    bad = []

    def visit(E, under):
        k = E[0]
        if k == "w":
            S = E[2]
            for a in T.atoms(S):
                if a[0] == "call" and (a[1].endswith("_common") or a[1].endswith("prepare_simple_expr_common")):
                    continue       # delegation to the shared code
                if not under:
                    bad.append(T.show(a)[:60])
            # guards inside the string-TIR
        elif k == "seq":
            for x in E[1]:
                visit(x, under)
        elif k == "alt":
            for g, x in E[1]:
                visit(x, under or what in (g.get("text") or ""))
        elif k == "loop":
            info = E[2] or {}
            visit(E[1], under or what in (info.get("over") or ""))
    # string-level alternatives (match inside write!) carry their guards in the S tree: handle by projecting with guard text
    def visit_S(S, under):
        k = S[0]
        if k == "seq":
            for x in S[1]:
                visit_S(x, under)
        elif k == "alt":
            # a decision that tests the construct at all: each of its branches is chosen by the construct (the rule accepts either
            # polarity - `if from.is_empty() {..; return}` as well as a match whose first arm has the guard and whose `_` arm is the rest)
            any_m = any(what in (g.get("text") or "") for g, _ in S[1])
            for g, x in S[1]:
                visit_S(x, under or any_m)
        elif k in ("loop", "star", "star1"):
            info = S[2] if len(S) > 2 and isinstance(S[2], dict) else {}
            visit_S(S[1], under or what in (info.get("over") or ""))
        elif k == "sepby":
            visit_S(S[1], under)
            visit_S(S[2], under)
        elif k in ("ctl", "diverge", "reset"):
            return
        else:
            if S[0] == "call" and S[1].endswith("_common"):
                return
            if not under:
                bad.append(T.show(S)[:60])
    for sink, kind in t.sinks.items():
        if kind == "writer":
            visit_S(T.project(t.effects, sink), False)
    # an early `return` guarded by the construct being absent also counts: `if from.is_empty() { return; }`
    if bad:
        for n in walk(t.body):
            if n.get("k") in ("if",):
                txt = T.text(n["cond"])
                th = n["then"]
                if what in txt and any(x.get("k") == "ret" for x in walk(th)):
                    return True, ""
            if n.get("k") == "stmt_let" and n.get("els") is not None and what in T.text(n.get("init") or {}):
                return True, ""
    return (not bad, "; ".join(sorted(set(bad))[:3]))


def normalise(txt, subs, table):
    if txt is None:
        return None
    t = " ".join(txt.split())
    for group in subs:
        for w in group[1:]:
            t = t.replace(w, group[0]) if t == w else t
    if table == "UnionType":
        t = t.replace("(", "").replace(")", "")
        t = " ".join(t.split())
    return t


def check_tables(run, f, cfg, sp):
    ks = kw.spec()
    present = [d for d in L.BACKENDS if L.BACKENDS[d] in f.adts]
    if len(present) < 2:
        return
    linkers = {d: L.Linker(f, d) for d in present}
    n = 0
    for name in PORTABLE_TABLES:
        tab = ks[name]
        enum = tab["enum"]
        if enum not in f.adts:
            continue
        for v in kw.variants(f, enum):
            vn = v["name"]
            if vn in (tab.get("skip") or []) or (tab.get("variants") and vn not in tab["variants"]):
                continue
            # portable = every dialect's expectation is a real spelling (not refused, not empty)
            exps = [tab["expect"].get(d, {}).get(vn) for d in present]
            if any(e is None or e == [""] for e in exps):
                continue
            outs = {}
            for d in present:
                sub = {}
                one = dict(tab)
                one["expect"] = {d: {vn: ["*"]}}
                # reuse the renderer of kw by calling its internals
                from ..interp import Opaque, Var, Unsupported
                val = Var(v["def"], [Opaque("p%d" % i) for i in range(len(v["fields"]))])
                try:
                    shape = tab["shape"]
                    if shape in ("variant", "variant-payload"):
                        txt = kw.render(f, linkers[d], kw.TRAITS[tab["trait"]], tab["method"], [val])
                    elif shape == "union":
                        txt = kw.render(f, linkers[d], kw.TRAITS[tab["trait"]], tab["method"], [val, Opaque("select")])
                    elif shape == "order":
                        txt = kw.render(f, linkers[d], kw.TRAITS[tab["trait"]], tab["method"], [{"expr": Var("crate::expr::SimpleExpr::Column", [Opaque("e")]), "order": val, "nulls": None}])
                    else:
                        continue
                except Unsupported as e:
                    run.ob("C09.R2", "agree:%s:%s" % (name, vn), False, "table %s::%s outside the tabulated fragment on %s: %s" % (name, vn, d, e), cfg=cfg)
                    outs = None
                    break
                outs[d] = txt
            if not outs:
                continue
            n += 1
            norm = {d: normalise(t, sp["function_substitutions"], name) for d, t in outs.items()}
            vals = set(norm.values())
            run.ob("C09.R2", "agree:%s:%s" % (name, vn), len(vals) == 1,
                   "%s::%s is written %s - %s after the documented substitutions" % (name, vn, ", ".join("%s: %r" % (d, outs[d]) for d in present),
                                                                                    "the same on all backends" if len(vals) == 1 else "DIFFERENT"), cfg=cfg)
    run.floor("C09.R2", "portable-rows", n, 60, cfg)


def check_hooks(run, f, cfg):
    QB = "crate::backend::query_builder::QueryBuilder"
    for d, adt in L.BACKENDS.items():
        if adt not in f.adts:
            continue
        # prepare_query_statement: query.prepare_statement(self, sql)
        nm = f.impl_fn(QB, adt, "prepare_query_statement")
        ok = False
        if nm:
            ps = [p for p in P.fn_paths(f.fns[nm]["hir"]) if p.out != "diverge"]
            if len(ps) == 1:
                cs = ps[0].calls()
                pn = [p["pat"].get("name") for p in f.fns[nm]["params"]]
                ok = len(cs) == 1 and (cs[0].get("callee") or "").endswith("SubQueryStatement>::prepare_statement") and \
                    [H.place(cs[0]["recv"])] + [H.place(a) for a in cs[0]["args"]] == [pn[1], pn[0], pn[2]]
        run.ob("C09.R3", "hook:%s:prepare_query_statement" % d, ok, "%s: prepare_query_statement is query.prepare_statement(self, sql)" % d,
               sp=f.fns[nm]["sp"] if nm else None, cfg=cfg)
    # SubQueryStatement::prepare_statement dispatches every statement kind to the renderer of the same kind
    nms = [k for k in f.fns if k.endswith("SubQueryStatement>::prepare_statement")]
    fn = f.fns.get(nms[0]) if len(nms) == 1 else None
    ok = False
    if fn:
        ms = [m for m in walk(fn["hir"]) if m.get("k") == "match" and m.get("src") == "Normal"]
        want = {"SelectStatement": "prepare_select_statement", "InsertStatement": "prepare_insert_statement", "UpdateStatement": "prepare_update_statement",
                "DeleteStatement": "prepare_delete_statement", "WithStatement": "prepare_with_query"}
        if len(ms) == 1:
            got = {}
            for a in ms[0]["arms"]:
                v = (a["pat"].get("path") or {}).get("def", "").rsplit("::", 1)[-1]
                b = H.peel_ref(a["body"])
                if b.get("k") == "mcall":
                    got[v] = b["name"]
            ok = got == want
    run.ob("C09.R3", "hook:prepare_statement", ok, "SubQueryStatement::prepare_statement sends each statement kind to the renderer of that kind", sp=fn["sp"] if fn else None, cfg=cfg)


def check(run):
    sp = spec()
    for cfg in run.tier_configs(["default", "all"]):
        f = run.facts(cfg)
        check_audit(run, f, cfg, sp)
        check_tables(run, f, cfg, sp)
        check_hooks(run, f, cfg)
    run.trusted.append("specs/overrides.json (classification of the reviewed overrides) and the documented substitution list")
    run.assumptions.append("non-overridden renderers are literally the same code for the three backends (trait default methods)")
    run.assumptions.append("per-dialect meaning of the shared text: precedence (C05), literals (C03), identifiers (C04), keyword tables (C07/C08)")
    run.assumptions.append("NOT decided: that the three engines return identical results (needs execution)")
    run.delegate("C05", "the same expression tree must group the same way under each dialect's own precedence table", only_rules={"R4", "R5"})
    run.delegate("C08", "a clause or keyword that one backend drops or spells differently makes the backends disagree (field consumption, keyword tables incl. the MySQL NULLS emulation)", only_rules={"R3", "R5", "R6"})
    run.delegate("C07", "the same for the SQLite renderers", only_rules={"R3", "R4", "R6"})
    run.delegate("C03", "a literal that one dialect decodes differently from the others makes the same statement denote different values", only_rules={"R1", "R2"})
