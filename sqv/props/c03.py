"""C03  Inlined text and binary literals decode to exactly the supplied value.  DESIGN.md section 4, C03."""
from itertools import product

from .. import hir as H
from .. import lexers as L
from .. import strfun as S
from .. import tir as T
from ..core import Anchor
from ..facts import walk

META = ("other",
        "C03.R1 per backend the escape chain is a per-character code h and the dialect's documented string-literal lexer "
        "(specs/lexical.json) decodes frame(h(s)) back to s - decided for every string of length <= 3 over the escape-relevant "
        "alphabet (all characters named in the code or the lexer tables, digits/hex letters, representatives of 'any other "
        "character'), which covers every boundary interaction because each image is a complete escape; R2 the Postgres E-prefix "
        "is selected exactly when the escaped text contains a backslash; R3 every hole between single quotes in any renderer "
        "(dataflow over the template IR of all writer functions) is escaped, hex or fixed-alphabet; R4 no lossy conversion on "
        "the payload path to write_string_quoted/write_bytes; R5 bytes are one two-digit hex hole per byte in the dialect's "
        "frame; R6 every inline site uses value_to_string of the rendering backend.  Where escape_string / write_string_quoted / "
        "write_bytes are not of the extractable shapes (replace chain or character loop; literal prefix + escaped argument + "
        "literal suffix under a contains-guard; one hex hole per byte in a loop) their bodies are interpreted instead - on every "
        "string of length <= 2 over that alphabet and length 3 over one member of each class, resp. on byte strings covering "
        "every nibble pattern - and the written literal is decoded by the same lexer oracle; a small-scope obligation guards "
        "the bound",
        "one obligation per (backend, string over the alphabet) class, per quoted hole, per call site")

QB = "crate::backend::query_builder::QueryBuilder"
EB = "crate::backend::EscapeBuilder"
BACKENDS = {
    "crate::backend::mysql::MysqlQueryBuilder": "mysql",
    "crate::backend::postgres::PostgresQueryBuilder": "postgres",
    "crate::backend::sqlite::SqliteQueryBuilder": "sqlite",
}
OTHERS = ["x", "é", " ", "%", "_", "z", "Z"]
DIGITS = ["0", "1", "7", "8", "a", "f", "u", "U", "b", "n"]
SAFE_DISPLAY_TYPES = {
    # Display output alphabet is fixed and contains neither quote nor backslash (one line of reason each)
    "uuid::Uuid": "hex digits and hyphens", "alloc::boxed::Box<uuid::Uuid>": "hex digits and hyphens",
    "alloc::boxed::Box<ipnetwork::IpNetwork>": "digits, hex, dots, colons, slash",
    "alloc::boxed::Box<mac_address::MacAddress>": "hex digits and colons",
    "alloc::boxed::Box<rust_decimal::decimal::Decimal>": "digits, sign, point",
    "alloc::boxed::Box<bigdecimal::BigDecimal>": "digits, sign, point, exponent",
    "f32": "float Display: digits, sign, point, e, inf, NaN", "f64": "float Display",
}


def resolve(f, trait, adt, item):
    n = f.impl_fn(trait, adt, item)
    return n if n else trait + "::" + item


def contains_pred(t, cond):
    """recognise `X.find(c).is_some()` / `X.contains(c)` / negations on a local X: returns (local, char, polarity) or None"""
    c = H.peel_ref(cond)
    pol = True
    while c.get("k") == "unary" and c["op"] == "not":
        pol = not pol
        c = H.peel_ref(c["e"])
    if c.get("k") == "mcall" and c["name"] in ("is_some", "is_none") and not c["args"]:
        if c["name"] == "is_none":
            pol = not pol
        inner = H.peel_ref(c["recv"])
        if inner.get("k") == "mcall" and inner["name"] in ("find", "rfind") and len(inner["args"]) == 1:
            a = H.peel_ref(inner["args"][0])
            if a.get("k") == "lit" and a["lit"]["t"] in ("char", "str") and len(a["lit"]["v"]) == 1:
                return H.place(inner["recv"]), a["lit"]["v"], pol
    if c.get("k") == "mcall" and c["name"] == "contains" and len(c["args"]) == 1:
        a = H.peel_ref(c["args"][0])
        if a.get("k") == "lit" and a["lit"]["t"] in ("char", "str") and len(a["lit"]["v"]) == 1:
            return H.place(c["recv"]), a["lit"]["v"], pol
    return None


class GuardUnknown(Exception):
    pass


def interpreted_literal(f, wname, esc):
    """s -> the text write_string_quoted appends for s, by interpreting its body with escape_string replaced by the (already
    characterised) escape function; raises Anchor outside the interpreter's fragment"""
    from ..interp import Interp, Opaque, Unsupported, Diverged
    fn = f.fn(wname)
    buf = fn["params"][-1]["pat"].get("name")
    cache = {}

    def lit(s):
        if s in cache:
            return cache[s]
        it = Interp(f)
        it.free_opaque = True
        it.builtins = {EB + "::escape_string": lambda it_, a: esc(a[-1])}
        try:
            it.call_fn(wname, [Opaque("self"), s, ""])
        except (Unsupported, Diverged) as e:
            raise Anchor("write_string_quoted outside the interpreter's fragment: %s" % e)
        cache[s] = "".join(t for r, t in it.out if r == buf)
        return cache[s]
    return lit


def frames_of(run, f, cfg, adt, dialect):
    """[(predicate or None, prefix, suffix)] of write_string_quoted for this backend"""
    name = resolve(f, QB, adt, "write_string_quoted")
    t = T.fn_tir(f, name)
    fn = f.fn(name)
    pn = [p for p, _ in t.params]
    if len(t.sinks) != 1:
        raise Anchor("write_string_quoted of %s: expected one sink" % dialect)
    sink = list(t.sinks)[0]
    s = T.project(t.effects, sink)

    def frame(atoms_):
        fl = [a for a in atoms_ if a != ("seq", []) and a[0] != "ctl"]
        holes = [i for i, a in enumerate(fl) if a[0] != "lit"]
        if len(holes) == 1 and fl[holes[0]][0] == "hole" and fl[holes[0]][1] == "ESCAPED_STR":
            h = fl[holes[0]]
            inner = h[2].get("inner")
            ok_inner = inner is not None and inner[0] == "hole" and inner[1] == "STR" and inner[2].get("what", "").replace("local ", "") == pn[1]
            prefix = "".join(a[1] for a in fl[:holes[0]])
            suffix = "".join(a[1] for a in fl[holes[0] + 1:])
            return prefix, suffix, ok_inner, H.callee(h[2]["node"])
        return None

    out = []
    paths = T.expand_paths(s)
    for guards, atoms_ in paths:
        fr = frame(atoms_)
        if fr is None:
            raise Anchor("write_string_quoted of %s: a path is not literal prefix + escape_string(arg) + literal suffix: %s" % (dialect, T.show(("seq", atoms_))))
        if not guards:
            out.append((None,) + fr)
            continue
        preds = []
        for g in guards:
            cp = contains_pred(t, g["e"]) if "e" in g else None
            pred = None
            if cp is not None:
                local, ch, pol = cp
                init = t.env_expr.get(local)
                is_escaped = init is not None and H.peel_ref(init).get("k") == "mcall" and (H.peel_ref(init).get("callee") or "") == EB + "::escape_string" \
                    and H.place(H.peel_ref(init)["args"][0]) == pn[1]
                if is_escaped:
                    pred = ("escaped-contains", ch, pol == g["taken"])
                elif local == pn[1]:
                    pred = ("raw-contains", ch, pol == g["taken"])
            if pred is None:
                raise GuardUnknown("%s write_string_quoted chooses between literal forms by a condition the checker cannot relate to the presence of a character in the escaped text: `%s`" % (dialect, g.get("text")))
            preds.append(pred)
        if len(set(preds)) != 1:
            raise Anchor("write_string_quoted of %s: several different conditions select one literal form" % dialect)
        out.append((preds[0],) + fr)
    return out, name


def literal_for(frames, h_chain, s):
    esc = h_chain(s) if callable(h_chain) else S.apply_chain(h_chain, s)
    for pred, prefix, suffix, ok_inner, _ in frames:
        if pred is None:
            return prefix + esc + suffix
        kind, ch, want = pred
        subject = esc if kind == "escaped-contains" else s
        if (ch in subject) == want:
            return prefix + esc + suffix
    return None


def lex_literal(dialect, lit):
    """decode one complete literal token of the dialect; raises LexError when it is not exactly one literal"""
    sp = L.spec()[dialect]
    forms = []
    if "estring" in sp:
        forms.append(("estring", sp["estring"]["prefix"] + sp["estring"]["delimiter"], sp["estring"]))
    forms.append(("string", sp["string"]["delimiter"], sp["string"]))
    for nm, opener, form in forms:
        if lit.startswith(opener):
            body = lit[len(opener):]
            if not body.endswith(form["delimiter"]):
                raise L.LexError("literal does not end with the delimiter")
            body = body[:-1]
            return nm, L.decode_body(form, body)
    raise L.LexError("no literal form starts like %r" % lit[:3])


def check_escape(run, f, cfg, adt, dialect):
    esc_name = resolve(f, EB, adt, "escape_string")
    apply_fn = None
    try:
        chain = S.escape_chain(f, esc_name)
        hom, why = S.chain_is_homomorphism(chain)
    except Anchor as e:
        # neither a replace chain nor a recognisable character loop: characterise the function by interpreting its body on
        # short strings over its own alphabet (strfun.InterpStrFn)
        try:
            apply_fn = S.InterpStrFn(f, esc_name)
            m, problems = apply_fn.per_char(apply_fn.alphabet(extra="'\"\\"))
        except Anchor as e2:
            from .. import scope
            scope.check_bound(run, "C03.R1", "%s:scope" % dialect, f, [esc_name], 3, cfg, "%s escape_string (neither extractable nor interpretable)" % dialect)
            run.anchor("C03.R1", "%s:escape" % dialect, "%s; %s" % (e, e2), cfg)
            return
        chain = [(c, v) for c, v in sorted(m.items()) if v != c]
        hom, why = (not problems), "; ".join(problems)
        run.notes.append("%s: escape_string is not a replace chain / character loop: its per-character code was tabulated by interpretation" % dialect)
    run.ob("C03.R1", "%s:homomorphism" % dialect, hom,
           "%s: escape_string is one simultaneous per-character substitution%s" % (dialect, "" if hom else " - NOT: " + why),
           sp=f.fn(esc_name)["sp"], cfg=cfg, detail=chain)
    lit_fn = None
    esc_fn = apply_fn if apply_fn is not None else (lambda s_, chain=chain: S.apply_chain(chain, s_))
    try:
        frames, wname = frames_of(run, f, cfg, adt, dialect)
    except (Anchor, GuardUnknown) as e:
        # not `literal prefix + escape_string(arg) + literal suffix` under a recognisable guard: interpret the function
        wname = resolve(f, QB, adt, "write_string_quoted")
        frames = []
        lit_fn = interpreted_literal(f, wname, esc_fn)
        try:
            lit_fn("a")
        except Anchor as e2:
            if isinstance(e, GuardUnknown):
                run.ob("C03.R2", "%s:prefix-guard" % dialect, False, str(e), sp=f.fn(wname)["sp"], cfg=cfg)
            else:
                run.anchor("C03.R1", "%s:frames" % dialect, "%s; %s" % (e, e2), cfg)
            return
        run.notes.append("%s: write_string_quoted decided by interpretation (%s)" % (dialect, e))
        from .. import scope
        scope.check_bound(run, "C03.R1", "%s:scope" % dialect, f, [wname, esc_name], 3, cfg, "%s write_string_quoted / escape_string (strings of length <= 3)" % dialect)
    for pred, prefix, suffix, ok_inner, esc_callee in frames:
        run.ob("C03.R1", "%s:frame:%s" % (dialect, prefix), ok_inner,
               "%s: the text between %r and %r is escape_string applied to the function's own string argument" % (dialect, prefix, suffix),
               sp=f.fn(wname)["sp"], cfg=cfg)
    # R2 (Postgres): E form iff escaped contains a backslash
    if len(frames) > 1:
        e_frames = [fr for fr in frames if fr[1].startswith("E")]
        plain = [fr for fr in frames if not fr[1].startswith("E")]
        ok = len(e_frames) == 1 and len(plain) == 1 and e_frames[0][0] == ("escaped-contains", "\\", True) and plain[0][0] == ("escaped-contains", "\\", False)
        run.ob("C03.R2", "%s:prefix-guard" % dialect, ok,
               "%s: the E'..' form is used exactly when the escaped text contains a backslash, the plain form otherwise" % dialect,
               sp=f.fn(wname)["sp"], cfg=cfg, detail=[fr[0] for fr in frames])
    # decode every string of length <= 3 over the alphabet with the dialect's lexer
    sp = L.spec()[dialect]
    tabs = set()
    for form in ("string", "estring"):
        if form in sp:
            tabs |= set(sp[form].get("escape_table", {}).keys()) | set(sp[form].get("escape_table", {}).values())
    alphabet = set(a for a, _ in chain) | set("".join(b for _, b in chain)) | tabs | set(OTHERS) | set(DIGITS) | {"'", '"', "\\"}
    if not sp.get("nul_representable"):
        alphabet.discard("\0")
    alphabet = sorted(alphabet)
    bad_chars = {}
    bad_longer = []
    n = 0
    if lit_fn is not None:
        # interpreted: all pairs, triples over one member of every class
        mapped = [a for a, _ in chain]
        hot = sorted(set(mapped[:3] + [c for c in ("\\", "'") if c in alphabet] + ["a", "\u00e9"]))
        words = [(c,) for c in alphabet] + list(product(alphabet, repeat=2)) + list(product(hot, repeat=3))
    else:
        words = [tup for ln in (1, 2, 3) for tup in product(alphabet, repeat=ln)]
    missing_e = []
    if True:
        for tup in words:
            ln = len(tup)
            s = "".join(tup)
            if ln > 1 and any(c in bad_chars for c in s):
                continue   # already reported at the character level
            n += 1
            lit = lit_fn(s) if lit_fn is not None else literal_for(frames, apply_fn or chain, s)
            if lit_fn is not None and "estring" in sp and "\\" in esc_fn(s) and not lit.startswith(sp["estring"]["prefix"]):
                missing_e.append(s)
            try:
                if lit is None:
                    raise L.LexError("no literal form selected")
                form, dec = lex_literal(dialect, lit)
                ok = dec == s
                why = "decodes to %r" % dec
            except L.LexError as e:
                ok = False
                why = str(e)
            if not ok:
                if ln == 1:
                    bad_chars[s] = (lit, why)
                else:
                    bad_longer.append((s, lit, why))
    for c in alphabet:
        if c in bad_chars:
            lit, why = bad_chars[c]
            run.ob("C03.R1", "%s:char:U+%04X" % (dialect, ord(c)), False,
                   "%s: the character U+%04X is written as %s, which the %s lexer %s" % (dialect, ord(c), lit, dialect, why), sp=f.fn(esc_name)["sp"], cfg=cfg)
        else:
            run.ob("C03.R1", "%s:char:U+%04X" % (dialect, ord(c)), True,
                   "%s: %r inlines as %s and decodes back" % (dialect, c, lit_fn(c) if lit_fn is not None else literal_for(frames, apply_fn or chain, c)), sp=f.fn(esc_name)["sp"], cfg=cfg,
                   trivial=(c not in dict(chain)))
    seen = set()
    for s, lit, why in bad_longer[:20]:
        key = "".join("U+%04X" % ord(c) for c in s)
        if key in seen:
            continue
        seen.add(key)
        run.ob("C03.R1", "%s:string:%s" % (dialect, key), False, "%s: the string %r is written as %s, which %s" % (dialect, s, lit, why), sp=f.fn(esc_name)["sp"], cfg=cfg)
    run.ob("C03.R1", "%s:strings" % dialect, True, "%s: %d strings of length <= 3 over an alphabet of %d characters decoded with the %s lexer" % (dialect, n, len(alphabet), dialect), cfg=cfg)
    if lit_fn is not None and "estring" in sp:
        run.ob("C03.R2", "%s:prefix-guard" % dialect, not missing_e,
               "%s: whenever the escaped text contains a backslash the literal is written in the E'..' form (%d interpreted strings)%s" % (
                   dialect, n, "" if not missing_e else " - NOT for %r" % missing_e[:3]), sp=f.fn(wname)["sp"], cfg=cfg)


def bytes_by_interp(run, f, cfg, name, dialect, want):
    """write_bytes interpreted on concrete byte strings (every nibble pattern, lengths 0..3): the text appended to the buffer
    is the dialect's prefix, two upper-case hex digits per byte in order, the suffix.  True when decided"""
    from ..interp import Interp, Opaque, Unsupported, Diverged
    fn = f.fn(name)
    buf = fn["params"][-1]["pat"].get("name")
    probes = [[], [0x00], [0x0a], [0xff], [0x7f, 0x80], [0x01, 0x23, 0xab], [0xde, 0xad, 0xbe, 0xef]]
    bad = []
    try:
        for bs in probes:
            it = Interp(f)
            it.free_opaque = True
            it.call_fn(name, [Opaque("self"), list(bs), ""])
            got = "".join(t for r, t in it.out if r == buf)
            exp = want["prefix"] + "".join("%02X" % b for b in bs) + want["suffix"]
            if got != exp:
                bad.append("%r is written %r, expected %r" % (bs, got, exp))
    except (Unsupported, Diverged) as e:
        run.notes.append("C03.R5 %s write_bytes outside the interpreter's fragment (%s): decided by its shape" % (dialect, e))
        return False
    from .. import scope
    scope.check_bound(run, "C03.R5", "%s:write_bytes:scope" % dialect, f, [name], 4, cfg, "%s write_bytes (byte strings of length <= 4)" % dialect)
    run.ob("C03.R5", "%s:write_bytes" % dialect, not bad,
           "%s: bytes are written as %s + two upper-case hex digits per byte of the argument, in order + %s (interpreted on %d byte strings)%s" % (
               dialect, want["prefix"], want["suffix"], len(probes), "" if not bad else " - NOT: " + "; ".join(bad[:3])), sp=fn["sp"], cfg=cfg)
    return True


def check_bytes(run, f, cfg, adt, dialect):
    name = resolve(f, QB, adt, "write_bytes")
    if bytes_by_interp(run, f, cfg, name, dialect, L.spec()[dialect]["bytes"]):
        return
    t = T.fn_tir(f, name)
    sink = list(t.sinks)[0] if len(t.sinks) == 1 else None
    if sink is None:
        run.anchor("C03.R5", "%s:write_bytes" % dialect, "expected one sink", cfg)
        return
    s = T.inline_calls(f, T.project(t.effects, sink))       # a shared hex helper is seen through
    fl = [a for a in T.flat(s) if a != ("seq", [])]
    want = L.spec()[dialect]["bytes"]
    ok = len(fl) == 3 and fl[0][0] == "lit" and fl[2][0] == "lit" and fl[1][0] == "loop"
    detail = T.show(s)
    if ok:
        body = [a for a in T.flat(fl[1][1]) if a != ("seq", [])]
        over = fl[1][2].get("over")
        pn = [p for p, _ in t.params]
        ok = (fl[0][1] == want["prefix"] and fl[2][1] == want["suffix"] and len(body) == 1 and body[0][0] == "hole" and body[0][1] == "HEX2"
              and (body[0][2].get("flags") or 0) & (1 << 24) != 0 and over == pn[1])
    run.ob("C03.R5", "%s:write_bytes" % dialect, ok,
           "%s: bytes are written as %s + one zero-padded two-digit hex hole per byte of the argument, in order + %s" % (dialect, want["prefix"], want["suffix"]),
           sp=f.fn(name)["sp"], cfg=cfg, detail=detail)


LOSSY_CALLS = ("from_utf8_lossy", "to_ascii_lowercase", "to_ascii_uppercase", "to_lowercase", "to_uppercase", "trim", "trim_start", "trim_end",
               "truncate", "split_at", "chars().take", "replace", "escape_default", "escape_debug")
WIDTH = {"u8": 8, "i8": 8, "u16": 16, "i16": 16, "u32": 32, "i32": 32, "char": 32, "u64": 64, "i64": 64, "usize": 64, "isize": 64, "u128": 128, "i128": 128}


def check_payload(run, f, cfg):
    """R4: arguments handed to write_string_quoted / write_bytes from the Value renderer are not lossily converted"""
    n = 0
    for name, fn in f.fns.items():
        if fn.get("kind") != "fn" or "value_to_string" not in name.rsplit("::", 1)[-1]:
            continue
        for c in H.calls(fn["hir"], lambda c: (c.get("callee") or "") in (QB + "::write_string_quoted", QB + "::write_bytes")):
            n += 1
            arg = c["args"][0]
            probs = []
            for x in walk(arg):
                if x.get("k") == "cast":
                    fr, to = f.ty(x.get("from")), f.ty(x.get("ty"))
                    if WIDTH.get(fr, 0) > WIDTH.get(to, 999):
                        probs.append("narrowing cast `%s as %s`" % (fr, to))
                if x.get("k") in ("call", "mcall"):
                    nm = x.get("name") or (x.get("callee") or "").rsplit("::", 1)[-1]
                    if nm in LOSSY_CALLS:
                        probs.append("lossy call %s" % nm)
            what = T.text(arg)
            run.ob("C03.R4", "payload:%s:%s" % (name.rsplit("::", 1)[-1], what[:60]), not probs,
                   "%s hands `%s` to %s%s" % (name.rsplit("::", 1)[-1], what[:80], (c.get("callee") or "").rsplit("::", 1)[-1],
                                              " unchanged" if not probs else " after a lossy conversion: " + "; ".join(probs)),
                   sp=c.get("sp"), cfg=cfg)
    run.floor("C03.R4", "payload-sites", n, 3, cfg)


def stmt_backend(name):
    from ..stmt import fn_backend
    return fn_backend(name)


def helper_alphabet(f, atom):
    """characters a text-computing crate helper can produce, when its only input is a byte string: interpreted on byte
    strings covering every nibble value in both positions.  None when it is not such a helper / not interpretable"""
    from ..interp import Interp, Unsupported, Diverged
    info = atom[2] or {}
    cal = H.callee(info.get("node") or {}) or atom[1]
    fn = f.fns.get(cal)
    if fn is None or fn.get("hir") is None or not cal.startswith("crate::"):
        return None
    ps = fn.get("params") or []
    tys = [(f.ty(p["ty"]) or "") for p in ps]
    if [t for t in tys if t.lstrip("&") not in ("[u8]", "alloc::vec::Vec<u8>", "Self")] or not any("u8" in t for t in tys):
        return None
    out = set()
    try:
        for bs in ([], [0x00], [0x0f, 0xf0], [0x12, 0x34, 0x56, 0x78, 0x9a, 0xbc, 0xde, 0xff], list(range(0, 256, 17)), list(range(15, 256, 16))):
            it = Interp(f)
            it.free_opaque = True
            args = [list(bs) if "u8" in t else __import__("sqv.interp", fromlist=["Opaque"]).Opaque("self") for t in tys]
            r = it.call_fn(cal, args)
            if not isinstance(r, str):
                return None
            out |= set(r)
    except (Unsupported, Diverged):
        return None
    return out


def check_quoted_holes(run, f, cfg):
    """R3: dataflow over the TIR of every function with a sink: nothing unescaped between single quotes"""
    nfn = 0
    nholes = 0
    for name, t, err in T.sink_fns(f):
        if err is not None:
            run.anchor("C03.R3", "tir:%s" % name, "TIR extraction failed: %s" % err, cfg)
            continue
        nfn += 1
        if name.rsplit("::", 1)[-1] in ("escape_string", "unescape_string"):
            continue        # the escape code itself: its output is decided character by character under R1 / C17
        for sink in t.sinks:
            s = T.inline_calls(f, T.project(t.effects, sink))       # helpers that are handed the sink are seen through
            findings = []
            bufs = {b: T.inline_calls(f, T.project(t.effects, b)) for b, kd in t.sinks.items() if kd == "buffer" and b != sink}

            def atom(st, a, findings=findings):
                if a[0] == "lit":
                    q = st
                    for ch in a[1]:
                        if ch == "'":
                            q = not q
                    return [q]
                if a[0] == "reset":
                    return [False]
                if a[0] == "buf" and a[1] in bufs and a[1] not in seen_bufs:
                    # the contents of a local string buffer written here: analysed in place, starting in this quote state
                    seen_bufs.add(a[1])
                    try:
                        return sorted(T.flow(bufs[a[1]], frozenset([st]), atom))
                    finally:
                        seen_bufs.discard(a[1])
                if st:   # inside quotes
                    findings.append(a)
                return [st]
            seen_bufs = set()
            out = T.flow(s, frozenset([False]), atom)
            seen = set()
            for a in findings:
                key = T.show(a)
                if key in seen:
                    continue
                seen.add(key)
                nholes += 1
                ok = False
                why = ""
                if a[0] == "hole":
                    kind = a[1]
                    if kind == "ESCAPED_STR" and stmt_backend(name) == "postgres" and not name.endswith("::write_string_quoted"):
                        # PostgreSQL decodes backslash escapes only inside E'..': the shared escape_string writes them, so a
                        # plain '..' around it is decoded differently (and `\'` ends the literal) - only the function that
                        # decides the E prefix (write_string_quoted, rule R2) may place escaped text between quotes
                        why = " - on PostgreSQL, text escaped by escape_string is sound only behind the E prefix chosen by write_string_quoted"
                    elif kind in ("ESCAPED_STR", "HEX2", "FMT_SAFE", "NUM", "BOOL"):
                        ok = True
                    elif kind in ("DISPLAY", "FLOAT") and (a[2].get("ty") in SAFE_DISPLAY_TYPES or kind == "FLOAT"):
                        ok = True
                        why = " (fixed alphabet: %s)" % SAFE_DISPLAY_TYPES.get(a[2].get("ty"), "float Display")
                    else:
                        why = " - hole kind %s is raw run-time text" % kind
                elif a[0] in ("call", "callv"):
                    why = " - a call (%s) between quotes: its output is not known to be escaped" % a[1].rsplit("::", 1)[-1]
                    if a[0] == "callv" and a[1] in (EB + "::escape_string",):
                        ok = True
                    elif a[0] == "callv":
                        alpha = helper_alphabet(f, a)
                        if alpha is not None and alpha <= set("0123456789abcdefABCDEF"):
                            ok = True
                            why = " (a crate helper over bytes; interpreted on byte strings covering every nibble: it writes hex digits only)"
                elif a[0] == "buf":
                    why = " - a local buffer between quotes"
                sp = a[3] if len(a) > 3 else None
                run.ob("C03.R3", "quoted-hole:%s:%s" % (name, key[:70]), ok,
                       "in %s the text %s sits between single quotes%s" % (name.rsplit("::", 1)[-1], key[:80], why or " and is escaped/hex/fixed-alphabet"),
                       sp=sp, cfg=cfg)
            if True in out:
                run.ob("C03.R3", "unbalanced:%s" % name, False, "%s can end inside an open single quote" % name, sp=t.fn["sp"], cfg=cfg)
    run.floor("C03.R3", "sink-fns", nfn, 150, cfg)
    run.floor("C03.R3", "quoted-holes", nholes, {"full": 5, "single": 2}, cfg)


def check_inline_sites(run, f, cfg):
    """R6: every site that inlines a Value calls value_to_string (dispatching on the rendering backend), never the
    _common variant or another builder; String::push_param is decided under C02."""
    n = 0
    for name, fn in f.fns.items():
        if fn.get("kind") != "fn" or "::tests" in name:
            continue
        for c in H.calls(fn["hir"]):
            cal = c.get("callee") or ""
            if cal == QB + "::value_to_string_common":
                n += 1
                owner_ok = name.rsplit("::", 1)[-1] in ("value_to_string",) or name.endswith("::value_to_string")
                run.ob("C03.R6", "common-call:%s" % name, owner_ok,
                       "value_to_string_common is called only from value_to_string (default/override fallback), not directly by a renderer: %s" % name,
                       sp=c.get("sp"), cfg=cfg)
            if cal == QB + "::value_to_string" and c.get("k") == "mcall":
                n += 1
                recv = H.place(c["recv"])
                rt = f.ty(c.get("recv_ty")) or ""
                fixed = "CommonSqlQueryBuilder" in rt or "MysqlQueryBuilder" in rt and not name.startswith("crate::backend::mysql") \
                    or "PostgresQueryBuilder" in rt and not name.startswith("crate::backend::postgres") \
                    or "SqliteQueryBuilder" in rt and not name.startswith("crate::backend::sqlite")
                in_render = any("dyn crate::prepare::SqlWriter" in f.ty(p["ty"]) for p in fn.get("params") or [])
                if in_render:
                    run.ob("C03.R6", "value_to_string:%s" % name, not fixed,
                           "%s inlines values through value_to_string of its own receiver (%s)" % (name.rsplit("::", 1)[-1], recv), sp=c.get("sp"), cfg=cfg)
    # a Value formatted with `{}` inside a renderer goes through `impl Display for Value`, i.e. the fixed common
    # builder's literal syntax - not the rendering backend's
    nd = 0
    for name, t, err in T.sink_fns(f):
        if err is not None or not any(v == "writer" for v in t.sinks.values()):
            continue
        for sink in t.sinks:
            for a in T.atoms(T.project(t.effects, sink)):
                if a[0] == "hole" and a[1] in ("DISPLAY", "FORMATTED"):
                    nd += 1
                    ty = (a[2].get("ty") or "")
                    if T.strip_ref(ty) in ("crate::value::Value", "crate::value::Values", "crate::value::ValueTuple"):
                        run.ob("C03.R6", "display-value:%s" % name, False,
                               "%s writes a %s with `{}` (impl Display = CommonSqlQueryBuilder syntax) instead of value_to_string of the rendering backend" % (name.rsplit("::", 1)[-1], T.strip_ref(ty)),
                               sp=a[3], cfg=cfg)
    run.ob("C03.R6", "display-census", True, "%d Display holes in writer functions inspected: none formats a Value directly" % nd, cfg=cfg)
    run.floor("C03.R6", "inline-sites", n, 5, cfg)


def check(run):
    for cfg in run.tier_configs(["default", "all"], ["mysql", "postgres", "sqlite"]):
        f = run.facts(cfg)
        present = [a for a in BACKENDS if a in f.adts]
        for adt in present:
            d = BACKENDS[adt]
            check_escape(run, f, cfg, adt, d)
            check_bytes(run, f, cfg, adt, d)
        run.floor("C03.R1", "backends", len(present), 3 if cfg in ("default", "all") else 1, cfg)
        check_payload(run, f, cfg)
        check_quoted_holes(run, f, cfg)
        check_inline_sites(run, f, cfg)
    run.trusted.append("specs/lexical.json: string-literal lexers of MySQL 8.0 (default sql_mode), PostgreSQL 16 (standard_conforming_strings on), SQLite")
    run.assumptions.append("server defaults: MySQL NO_BACKSLASH_ESCAPES and ANSI_QUOTES off; PostgreSQL standard_conforming_strings on")
    run.assumptions.append("NUL is excluded for PostgreSQL and SQLite (no representation), as the property states")
