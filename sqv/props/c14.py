"""C14  MySQL and Postgres schema statements are complete and well-formed.  DESIGN.md section 4, C14."""
from ._structure import run_structure

META = ("other",
        "Structural conditions of the MySQL and PostgreSQL schema renderers: C14.R2 type tables - every ColumnType variant is a "
        "type the dialect defines, its parameters forwarded in order, UNSIGNED exactly on the unsigned variants, unsupported "
        "types refused; C14.R3 separator discipline (incl. the hand-managed commas of ALTER COLUMN, tabulated over all "
        "ColumnSpec variants), parentheses, adjacency; C14.R4 field consumption per backend with reviewed exceptions",
        "one obligation per type-table row, per struct field, per separated list, per function with parentheses")


def check(run):
    run_structure(run, "C14", "schema", ["mysql", "postgres"], run.tier_configs(["default", "all"], ["mysql", "postgres"]))
    run.assumptions.append("NOT decided: acceptance by the dialects' DDL parsers")
