"""C07  On SQLite, a built statement does what the builder calls say.  DESIGN.md section 4, C07.
Engine behaviour is not decidable statically; its structural preconditions are."""
from ._structure import run_structure

META = ("other",
        "Structural necessary conditions of the SQLite query renderers (shared default renderers + SQLite overrides), over the "
        "linked template IR: C07.R2 parentheses balanced on every consistent path, no two emissions fuse into one token, every "
        "separated list writes its separator iff an element is written; C07.R3 field consumption - every field of every query "
        "statement struct reaches the output guarded only by its own emptiness, or is a reviewed (dialect, field) exception; no "
        "clause vector is rendered partially; C07.R4 keyword tables (join kinds, set operations, ordering / NULLS, frames, "
        "subquery operators, functions, operators) against the dialect's accepted spellings, and forward, complete iteration "
        "of every clause vector",
        "one obligation per (struct field), per separated list, per function with parentheses, per keyword-table row")


def check(run):
    run_structure(run, "C07", "query", ["sqlite"], run.tier_configs(["default", "all"], ["sqlite"]))
    run.assumptions.append("NOT decided: acceptance by a real SQLite engine beyond these structural conditions (name resolution, typing), "
                           "returned rows, table contents, affected-row counts")
    run.assumptions.append("clause order / full grammar skeleton: see the grammar refinement rule C07.R1 when present in this evidence")
