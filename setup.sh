#!/bin/sh
# Builds the fact extractor (rustc_private driver). Offline; nothing else is needed.
set -e
cd "$(dirname "$0")/driver"
CARGO_NET_OFFLINE=true cargo +nightly build --release --offline
