"""C05  Rendered expressions re-parse to the expression tree that was built.  DESIGN.md section 4, C05.

The parenthesisation decision is a finite function of (backend, outer operator, operand side, inner expression kind /
inner operator).  It is tabulated completely by abstract interpretation of the extracted `binary_expr` and of the Unary
arm (the decider functions, the BETWEEN / ESCAPE / AS hacks and the operator spelling are whatever the code says), and
every dropped parenthesis is then justified against the dialect's precedence table (specs/precedence.json)."""
import json
import os

from .. import hir as H
from .. import tir as T
from ..facts import VERIF, nhir, walk
from ..interp import Interp, Opaque, Unsupported, Diverged, Var

META = ("other",
        "C05.R1/R2 complete decision table D(backend, outer operator, side, inner kind) -> parenthesised | bare, obtained by "
        "interpreting binary_expr / the Unary arm over every operator of the enabled enums (plain, Postgres, SQLite extension "
        "operators, a custom operator) and every SimpleExpr variant; R3 operator spelling per backend (operators a backend does "
        "not render are outside its domain); R4 every bare operand is justified by the dialect's precedence and associativity "
        "(left side: higher precedence, or equal and left-associative; right side: higher precedence), BETWEEN bounds by the "
        "dialect's bound grammar, atoms by being self-delimiting in the backend's template IR; R5 raw/transparent kinds (Custom, "
        "CustomWithExpr, AsEnum on non-Postgres, Unary, Binary) are never left bare outside the reviewed hacks; R6 implicit operator "
        "contexts - every renderer that itself writes an operator next to a whole expression (FIELD-order CASE ladder `expr = v`, "
        "MySQL NULLS emulation `expr IS NULL`) is found from the token automata, must be a registered site, and its parenthesis "
        "decision is tabulated and justified like a binary operator's",
        "one obligation per decision-table cell that drops parentheses (cells that keep them are safe by construction)")

QB = "crate::backend::query_builder::QueryBuilder"
SE = "crate::expr::SimpleExpr"
BO = "crate::types::BinOper"
BACKENDS = {
    "crate::backend::mysql::MysqlQueryBuilder": "mysql",
    "crate::backend::postgres::PostgresQueryBuilder": "postgres",
    "crate::backend::sqlite::SqliteQueryBuilder": "sqlite",
}
ATOM_KINDS = ["Column", "Tuple", "FunctionCall", "SubQuery", "Value", "Values", "Keyword", "Case", "Constant", "Custom", "CustomWithExpr", "AsEnum", "Unary"]


def spec():
    return json.load(open(os.path.join(VERIF, "specs", "precedence.json")))


def all_binopers(f):
    ops = []
    for v in f.adts[BO]["variants"]:
        if not v["fields"]:
            ops.append(Var(v["def"]))
        elif v["name"] == "Custom":
            ops.append(Var(v["def"], ["<=>custom"]))
        else:
            sub = f.ty(v["fields"][0]["ty"])
            for sv in f.adts[sub]["variants"]:
                ops.append(Var(v["def"], [Var(sv["def"])]))
    return ops


def opname(op):
    if op.fields and isinstance(op.fields[0], Var):
        return "%s(%s)" % (op.d.rsplit("::", 1)[-1], op.fields[0].d.rsplit("::", 1)[-1])
    return op.d.rsplit("::", 1)[-1]


class Tab:
    """interpreter set-up for one backend"""

    def __init__(self, f, adt):
        self.f = f
        self.adt = adt
        self.selfv = Opaque("self:" + adt)
        f_ = f

        def impl(trait, item):
            n = f_.impl_fn(trait, adt, item)
            return n if n else trait + "::" + item
        self.prec = impl("crate::backend::PrecedenceDecider", "inner_expr_well_known_greater_precedence")
        self.assoc = impl("crate::backend::OperLeftAssocDecider", "well_known_left_associative")
        self.binop = impl(QB, "prepare_bin_oper")
        self.binary_expr = impl(QB, "binary_expr")
        self.simple = impl(QB, "prepare_simple_expr")
        self.simple_common = QB + "::prepare_simple_expr_common"

    def builtins(self, markers):
        def emit(tag):
            def b(it, args):
                x = args[1]
                if id(x) in markers:
                    it.out.append(("sql", markers[id(x)]))
                elif isinstance(x, Var) and x.d == SE + "::Binary" and all(isinstance(fl, Var) for fl in x.fields):
                    # an unmarked nested binary expression (the `lo AND hi` of BETWEEN): render it with the real code
                    it.call_fn(self.simple_common, [args[0], x, args[2]], 1)
                else:
                    it.out.append(("sql", tag))
                return ()
            return b

        def prec(it, args):
            return it.call_fn(self.prec, args, 1)

        def assoc(it, args):
            return it.call_fn(self.assoc, args, 1)
        return {
            QB + "::prepare_simple_expr": emit("<E>"),
            QB + "::prepare_bin_oper": lambda it, a: it.out.append(("sql", "<op>")) or (),
            QB + "::prepare_un_oper": lambda it, a: it.out.append(("sql", "<unop>")) or (),
            "crate::backend::PrecedenceDecider::inner_expr_well_known_greater_precedence": prec,
            "crate::backend::OperLeftAssocDecider::well_known_left_associative": assoc,
        }

    def spelling(self, op):
        """token the backend writes for a binary operator, or None if it does not render it"""
        it = Interp(self.f)
        try:
            it.call_fn(self.binop, [self.selfv, op, Opaque("sql")])
        except Diverged:
            return None
        txt = "".join(t for _, t in it.out)
        return txt

    def binary(self, left, op, right):
        markers = {id(left): "<L>", id(right): "<R>"}
        it = Interp(self.f, builtins=self.builtins(markers))
        it.call_fn(self.binary_expr, [self.selfv, left, op, right, Opaque("sql")])
        txt = "".join(t for _, t in it.out)
        return ("(<L>)" in txt, "(<R>)" in txt, txt)

    def between(self, outer, lo, hi, andop):
        """render `x <outer> (lo AND hi)`; returns (lo parenthesised, hi parenthesised, text)"""
        x = mk_inner("Column")
        right = Var(SE + "::Binary", [lo, andop, hi])
        markers = {id(x): "<X>", id(lo): "<LO>", id(hi): "<HI>"}
        it = Interp(self.f, builtins=self.builtins(markers))
        it.call_fn(self.binary_expr, [self.selfv, x, outer, right, Opaque("sql")])
        txt = "".join(t for _, t in it.out)
        return ("(<LO>)" in txt, "(<HI>)" in txt, txt)

    def unary(self, inner):
        markers = {id(inner): "<E>"}
        it = Interp(self.f, builtins=self.builtins(markers))
        un = Var(SE + "::Unary", [Var("crate::types::UnOper::Not"), inner])
        it.call_fn(self.simple_common, [self.selfv, un, Opaque("sql")])
        txt = "".join(t for _, t in it.out)
        return ("(<E>)" in txt, txt)


def mk_inner(kind, op=None):
    if kind == "Binary":
        return Var(SE + "::Binary", [Var(SE + "::Column", [Opaque("l")]), op, Var(SE + "::Column", [Opaque("r")])])
    nf = {"Column": 1, "Tuple": 1, "FunctionCall": 1, "SubQuery": 2, "Value": 1, "Values": 1, "Keyword": 1, "Case": 1, "Constant": 1, "Custom": 1,
          "CustomWithExpr": 2, "AsEnum": 2, "Unary": 2}[kind]
    return Var(SE + "::" + kind, [Opaque(kind + str(i)) for i in range(nf)])


def level(sp, tok):
    if tok in sp["levels"]:
        return sp["levels"][tok]
    return sp.get("unknown_operator")


def delimited_kinds(run, f, cfg, adt, dialect):
    """which SimpleExpr kinds are self-delimiting in this backend's rendering (from the template IR of the arms)"""
    tab = Tab(f, adt)
    out = {}
    fns = [tab.simple, tab.simple_common] if tab.simple != QB + "::prepare_simple_expr" else [tab.simple_common]
    arms = {}
    for fname in fns:
        t = T.fn_tir(f, fname)
        s = T.project(t.effects, "sql")
        for a in T.flat(s):
            if a[0] == "alt":
                for g, x in a[1]:
                    for v in T.pat_variants(g.get("pat") or {}):
                        if v.startswith(SE + "::"):
                            arms.setdefault(v.rsplit("::", 1)[-1], x)
    memo = {}
    in_progress = set()
    tainted = [0]        # > 0 while the value being computed depends on a cut-off (recursion / depth): such values are not cached

    def fn_shape(callee, depth=0):
        """('paren'|'atom'|'open', ...) summary of a renderer: does everything it writes form one self-delimiting unit"""
        name = f.impl_fn(QB, adt, callee.rsplit("::", 1)[-1]) or callee
        if name in memo:
            return memo[name]
        if name in in_progress:
            tainted[0] += 1
            return "open"
        try:
            t = T.fn_tir(f, name)
        except KeyError:
            return "open"
        sink = [s for s, k in t.sinks.items() if k == "writer"]
        if not sink:
            return "open"
        in_progress.add(name)
        before = tainted[0]
        r = shape(T.project(t.effects, sink[0]), depth + 1)
        in_progress.discard(name)
        if tainted[0] == before:
            memo[name] = r
        return r

    def shape(S, depth=0):
        if depth > 12:
            tainted[0] += 1
            return "open"
        try:
            paths = T.expand_paths(strip_loops(S))
        except Exception:
            return "open"
        kinds = set()
        for _, atoms_ in paths:
            atoms_ = [a for a in atoms_ if a[0] not in ("ctl",) and a != ("seq", [])]
            if any(a[0] == "diverge" for a in atoms_):
                continue
            if not atoms_:
                kinds.add("empty")
                continue
            first, last = atoms_[0], atoms_[-1]
            if len(atoms_) == 1:
                a = first
                if a[0] == "hole" and a[1] in ("IDEN_QUOTED", "VALUE_PARAM"):
                    kinds.add("atom")
                elif a[0] == "hole" and a[1] == "IDEN_RAW":
                    kinds.add("atom")      # custom keyword / function name: one raw token by API contract (C04.R3)
                elif a[0] == "lit" and a[1] in ("*",):
                    kinds.add("atom")
                elif a[0] == "callv" and a[1].endswith("value_to_string"):
                    kinds.add("atom")
                elif a[0] == "lit" and a[1].strip() and all(ch.isalnum() or ch == "_" for ch in a[1].strip()) :
                    kinds.add("atom")
                elif a[0] == "lit" and a[1].startswith("(") and a[1].endswith(")"):
                    kinds.add("paren")
                elif a[0] == "call":
                    kinds.add(fn_shape(a[1], depth + 1))
                else:
                    kinds.add("open")
                continue
            starts = (first[0] == "lit" and first[1].lstrip().startswith("(")) or \
                (first[0] == "call" and first[1].endswith("prepare_function_name")) or \
                (first[0] == "lit" and first[1].rstrip().endswith("(") and first[1].rstrip()[:-1].replace("_", "").isalnum()) or \
                (first[0] == "call" and first[1].endswith("prepare_sub_query_oper")) or \
                (first[0] == "hole" and first[1] == "IDEN_QUOTED")
            ends = (last[0] == "lit" and last[1].rstrip().endswith(")")) or (last[0] == "call" and fn_shape(last[1], depth + 1) == "paren") or \
                (last[0] == "hole" and last[1] == "IDEN_QUOTED") or (last[0] == "lit" and last[1] in ("*", ".*"))
            # identifier paths a.b.c: only idens and dots
            if all((a[0] == "hole" and a[1] == "IDEN_QUOTED") or (a[0] == "lit" and a[1] in (".", ".*", "*")) for a in atoms_):
                kinds.add("atom")
            elif starts and ends:
                kinds.add("paren")
            else:
                kinds.add("open")
        kinds.discard("empty")
        if not kinds:
            return "open"
        if kinds <= {"atom"}:
            return "atom"
        if kinds <= {"atom", "paren"}:
            return "paren"
        return "open"

    for k, x in arms.items():
        out[k] = shape(x)
    return out


def strip_loops(S):
    """replace loops by one iteration (only first/last atoms matter for the shape)"""
    k = S[0]
    if k == "seq":
        return ("seq", [strip_loops(x) for x in S[1]])
    if k == "alt":
        return ("alt", [(g, strip_loops(x)) for g, x in S[1]])
    if k in ("loop", "star", "star1"):
        return strip_loops(S[1])
    if k == "sepby":
        return strip_loops(S[1])
    return S


def check_backend(run, f, cfg, adt, dialect):
    sp = spec()[dialect]
    tab = Tab(f, adt)
    ops = all_binopers(f)
    spell = {}
    try:
        for op in ops:
            spell[opname(op)] = tab.spelling(op)
    except Unsupported as e:
        run.anchor("C05.R3", "%s:spelling" % dialect, "operator spelling outside the tabulated fragment: %s" % e, cfg)
        return
    domain = [op for op in ops if spell[opname(op)] is not None]
    run.ob("C05.R3", "%s:spelling" % dialect, len(domain) >= 25, "%s renders %d binary operators: %s" % (dialect, len(domain), ", ".join(
        "%s=%s" % (opname(o), spell[opname(o)]) for o in domain)), cfg=cfg)
    # known spellings must be tokens of the dialect's table (custom operators excepted)
    for op in domain:
        nm = opname(op)
        tok = spell[nm]
        if nm in ("Custom", "As", "Escape"):
            continue
        run.ob("C05.R3", "%s:token:%s" % (dialect, nm), level(sp, tok) is not None,
               "%s writes %s as `%s`, an operator with a known precedence class in the dialect" % (dialect, nm, tok), cfg=cfg, trivial=True)
    delim = delimited_kinds(run, f, cfg, adt, dialect)
    cells = 0
    bare_cells = 0
    try:
        # ---- binary outer operators
        for outer in domain:
            on = opname(outer)
            otok = spell[on]
            olev = level(sp, otok)
            for side in ("left", "right"):
                # inner = another binary operator
                for inner_op in domain:
                    inn = opname(inner_op)
                    inner = mk_inner("Binary", inner_op)
                    other = mk_inner("Column")
                    lp, rp, txt = tab.binary(inner, outer, other) if side == "left" else tab.binary(other, outer, inner)
                    paren = lp if side == "left" else rp
                    cells += 1
                    if paren:
                        continue
                    bare_cells += 1
                    itok = spell[inn]
                    ilev = level(sp, itok)
                    key = "%s:%s:%s:%s" % (dialect, on, side, inn)
                    # reviewed ternary encodings
                    if on in ("Between", "NotBetween") and side == "right" and inn == "And":
                        run.ob("C05.R4", key, True, "%s: `x %s lo AND hi` - the AND is the separator of the ternary BETWEEN (bounds are checked separately)" % (dialect, otok), cfg=cfg)
                        continue
                    if on in ("Like", "NotLike") and side == "right" and inn == "Escape":
                        run.ob("C05.R4", key, True, "%s: `x %s p ESCAPE c` - ESCAPE belongs to the LIKE predicate" % (dialect, otok), cfg=cfg)
                        continue
                    if olev is None or ilev is None:
                        run.ob("C05.R4", key, False, "%s: `%s` operand of `%s` is left bare but the precedence of one of them is not known for this dialect" % (dialect, itok, otok), cfg=cfg)
                        continue
                    if side == "left":
                        ok = ilev[0] > olev[0] or (ilev[0] == olev[0] and olev[1] == "left" and ilev[1] == "left")
                    else:
                        ok = ilev[0] > olev[0]
                    run.ob("C05.R4", key, ok,
                           "%s: `a %s b` as the %s operand of `%s` is printed without parentheses; the dialect groups it first: %s (level %d vs %d, %s)"
                           % (dialect, itok, side, otok, "yes" if ok else "NO", ilev[0], olev[0], olev[1]), cfg=cfg)
                # inner = other expression kinds
                for kind in ATOM_KINDS:
                    inner = mk_inner(kind)
                    other = mk_inner("Column")
                    lp, rp, txt = tab.binary(inner, outer, other) if side == "left" else tab.binary(other, outer, inner)
                    paren = lp if side == "left" else rp
                    cells += 1
                    if paren:
                        continue
                    bare_cells += 1
                    key = "%s:%s:%s:%s" % (dialect, on, side, kind)
                    if on == "As" and side == "right" and kind == "Custom":
                        run.ob("C05.R4", key, True, "%s: `x AS <type>` - the custom type expression of a cast is raw by API contract" % dialect, cfg=cfg)
                        continue
                    sh = delim.get(kind, "open")
                    run.ob("C05.R5" if sh == "open" else "C05.R4", key, sh in ("atom", "paren"),
                           "%s: a %s operand of `%s` (%s side) is printed without parentheses; its rendering is %s" % (
                               dialect, kind, otok, side, {"atom": "a single token", "paren": "self-delimiting (parenthesised / call form)",
                                                           "open": "NOT self-delimiting - it may contain any operator"}[sh]), cfg=cfg)
        # ---- unary NOT
        ntok = "NOT"
        nlev = level(sp, ntok)
        for inner_op in domain:
            inn = opname(inner_op)
            paren, txt = tab.unary(mk_inner("Binary", inner_op))
            cells += 1
            if paren:
                continue
            bare_cells += 1
            ilev = level(sp, spell[inn])
            ok = ilev is not None and ilev[0] > nlev[0]
            run.ob("C05.R4", "%s:Not:operand:%s" % (dialect, inn), ok,
                   "%s: `NOT a %s b` is printed without parentheses; the dialect applies NOT to the whole `a %s b`: %s" % (dialect, spell[inn], spell[inn], "yes" if ok else "NO"), cfg=cfg)
        for kind in ATOM_KINDS:
            paren, txt = tab.unary(mk_inner(kind))
            cells += 1
            if paren:
                continue
            bare_cells += 1
            sh = delim.get(kind, "open")
            run.ob("C05.R5" if sh == "open" else "C05.R4", "%s:Not:operand:%s" % (dialect, kind), sh in ("atom", "paren"),
                   "%s: a %s operand of NOT is printed without parentheses; its rendering is %s" % (dialect, kind, sh), cfg=cfg)
        # ---- BETWEEN bounds: render `x BETWEEN lo AND hi` with the real code and look at each bound
        andop = [o for o in domain if opname(o) == "And"][0]
        bt = sp["between"]
        for outer in [o for o in domain if opname(o) in ("Between", "NotBetween")]:
            for bound in ("lo", "hi"):
                for inner_op in domain:
                    inn = opname(inner_op)
                    inner = mk_inner("Binary", inner_op)
                    other = mk_inner("Column")
                    lp, hp, txt = tab.between(outer, inner, other, andop) if bound == "lo" else tab.between(outer, other, inner, andop)
                    cells += 1
                    if "<LO>" not in txt or "<HI>" not in txt or " AND " not in txt.replace("<op>", "AND"):
                        run.ob("C05.R2", "%s:between-shape" % dialect, False, "%s: `x BETWEEN lo AND hi` is rendered as %r" % (dialect, txt), cfg=cfg)
                        continue
                    paren = lp if bound == "lo" else hp
                    if paren:
                        continue
                    bare_cells += 1
                    itok = spell[inn]
                    ilev = level(sp, itok)
                    ok = ilev is not None and (ilev[0] >= bt[bound + "_min_level"] or itok in bt[bound + "_also"])
                    cls = op_class(inn)
                    run.ob("C05.R4", "%s:between-bound:%s:%s" % (dialect, bound, cls), ok,
                           "%s: in `x %s lo AND hi` a %s bound of the form `a %s b` is printed without parentheses (%s); the dialect's BETWEEN grammar accepts it there: %s"
                           % (dialect, spell[opname(outer)], "lower" if bound == "lo" else "upper", itok, txt, "yes" if ok else "NO (%s)" % bt["note"]), cfg=cfg)
                for kind in ATOM_KINDS:
                    inner = mk_inner(kind)
                    other = mk_inner("Column")
                    lp, hp, txt = tab.between(outer, inner, other, andop) if bound == "lo" else tab.between(outer, other, inner, andop)
                    cells += 1
                    if (lp if bound == "lo" else hp):
                        continue
                    bare_cells += 1
                    sh = delim.get(kind, "open")
                    run.ob("C05.R5" if sh == "open" else "C05.R4", "%s:between-bound:%s:%s" % (dialect, bound, kind), sh in ("atom", "paren"),
                           "%s: a %s as %s bound of BETWEEN is printed without parentheses; its rendering is %s" % (dialect, kind, bound, sh), cfg=cfg)
    except (Unsupported, Diverged) as e:
        run.anchor("C05.R1", "%s:table" % dialect, "decision table outside the tabulated fragment: %s" % e, cfg)
        return
    run.ob("C05.R1", "%s:table" % dialect, True, "%s: %d decision cells tabulated, %d drop the parentheses" % (dialect, cells, bare_cells), cfg=cfg)
    run.floor("C05.R1", "%s:cells" % dialect, cells, 1500, cfg)
    run.floor("C05.R1", "%s:bare-cells" % dialect, bare_cells, 200, cfg)
    check_implicit_contexts(run, f, cfg, adt, dialect, tab, sp, spell, domain, delim)


# ---- R6: implicit operator contexts ---------------------------------------------------------------------------------------

OP_TOKENS = {"IS", "=", "<", ">", "<=", ">=", "<>", "!=", "AND", "OR", "NOT", "LIKE", "IN", "BETWEEN", "+", "-", "*", "/", "%", "||", "::", "ESCAPE",
             "<binop>", "<unop>"}
TABULATED = ("binary_expr", "prepare_simple_expr_common", "prepare_simple_expr")      # decided by R1 / R2 / R4
REVIEWED_CONTEXTS = {
    "prepare_logical_chain_oper": "#[doc(hidden)] legacy and_or_where chain (ConditionHolderContents::Chain): its own hand-written parenthesis rule; "
                                  "conditions of the documented API are Condition trees (C06) rendered through binary_expr",
}
IMPLICIT = {
    # renderer -> (operator the renderer itself puts next to the expression, side of the expression)
    "prepare_field_order": ("Equal", "left"),
    "prepare_order_expr": ("Is", "left"),
}


def expr_contexts(f, dialect):
    """(renderer, previous token, next token) for every place where a whole expression is written next to other tokens,
    from the token automata of the statement renderers (grammar.Builder)"""
    import collections
    from .. import grammar as G
    from .. import link as L
    from ._structure import QUERY_PRODUCTIONS
    out = set()
    for method, _prod in QUERY_PRODUCTIONS:
        lk = L.Linker(f, dialect)
        target = lk.resolve(QB + "::" + method)
        if target is None:
            continue
        t = T.fn_tir(f, target)
        sinks = [x for x, k in t.sinks.items() if k == "writer"]
        if not sinks:
            continue
        b = G.Builder(f, dialect, method)
        s, e = b.a.state(), b.a.state()
        b.fn_fragment(target, sinks[0], s, e, top=True)
        a = b.a
        incoming = collections.defaultdict(set)
        for p, trs in a.tr.items():
            for sym, ts in trs.items():
                for t_ in ts:
                    for q in a.closure([t_]):
                        incoming[q].add(sym)
        for p, trs in a.tr.items():
            for t_ in trs.get("<expr>", ()):
                info = a.info.get((p, "<expr>", t_)) or {}
                fn = (info.get("fn") or "?").rsplit("::", 1)[-1]
                nexts = set()
                for q in a.closure([t_]):
                    nexts |= set(a.tr.get(q, {}).keys())
                    if q == e:
                        nexts.add("$")
                for pv in (incoming.get(p) or {"^"}):
                    for nx in nexts:
                        out.add((fn, pv, nx, info.get("sp")))
    return out


def check_implicit_contexts(run, f, cfg, adt, dialect, tab, sp, spell, domain, delim):
    try:
        ctxs = expr_contexts(f, dialect)
    except Exception as ex:      # Anchor / Unsupported of the automaton builder
        run.anchor("C05.R6", "%s:contexts" % dialect, "expression contexts could not be enumerated: %s" % ex, cfg)
        return
    sites = {}
    # a private helper that only the renderers of IMPLICIT call is part of their table (the interpretation follows the call)
    callers = {}
    for name_, fn_ in f.fns.items():
        if fn_.get("kind") != "fn" or fn_.get("hir") is None:
            continue
        for c_ in H.calls(fn_["hir"]):
            for d_ in (c_.get("callee"), H.callee(c_)):
                if d_:
                    callers.setdefault(d_.rsplit("::", 1)[-1], set()).add(name_.rsplit("::", 1)[-1])

    def owner(fn, depth=0):
        if fn in IMPLICIT or fn in TABULATED or fn in REVIEWED_CONTEXTS:
            return fn
        cs = callers.get(fn) or set()
        if depth < 2 and cs:
            owners = set(owner(c_, depth + 1) for c_ in cs)
            if len(owners) == 1 and None not in owners:
                return owners.pop()
            if owners and owners <= set(TABULATED):
                return sorted(owners)[0]        # shared by renderers whose tables (R1 / R2 / R4) are interpreted through it
        return None
    for fn, pv, nx, spn in ctxs:
        fn = owner(fn) or fn
        if fn in TABULATED:
            continue
        left_op = nx in OP_TOKENS        # the expression is the LEFT operand of `nx`
        right_op = pv in OP_TOKENS
        if not (left_op or right_op):
            continue
        if right_op and pv == "=" and not left_op:
            # `column = <expr>` followed by a clause delimiter: an assignment, the expression extends to the delimiter
            sites.setdefault((fn, "assignment"), spn)
            continue
        sites.setdefault((fn, "operand"), spn)
    run.floor("C05.R6", "%s:expression-contexts" % dialect, len(ctxs), 100, cfg)
    for (fn, cls), spn in sorted(sites.items(), key=lambda x: x[0]):
        if cls == "assignment":
            run.ob("C05.R6", "%s:context:%s:assignment" % (dialect, fn), True, "%s: %s writes `target = <expr>` followed by a clause delimiter (assignment, no operand position)" % (dialect, fn), sp=spn, cfg=cfg, trivial=True)
            continue
        if fn in REVIEWED_CONTEXTS:
            run.ob("C05.R6", "%s:context:%s" % (dialect, fn), True, "%s: %s puts expressions next to operators: %s" % (dialect, fn, REVIEWED_CONTEXTS[fn]), sp=spn, cfg=cfg)
            continue
        if fn not in IMPLICIT:
            run.ob("C05.R6", "%s:context:%s" % (dialect, fn), False,
                   "%s: %s writes a whole expression as the operand of an operator it writes itself; no parenthesis decision is known for this site" % (dialect, fn), sp=spn, cfg=cfg)
            continue
        opn, side = IMPLICIT[fn]
        otok = spell.get(opn)
        olev = level(sp, otok) if otok else None
        target = f.impl_fn(QB, adt, fn) or (QB + "::" + fn)
        if olev is None:
            run.anchor("C05.R6", "%s:context:%s" % (dialect, fn), "operator %s has no spelling / level on this backend" % opn, cfg)
            continue
        cells = 0
        for inner_kind, inner_op in [("Binary", o) for o in domain] + [(k, None) for k in ATOM_KINDS]:
            inner = mk_inner(inner_kind, inner_op)
            try:
                paren, txt = implicit_render(tab, f, target, fn, inner)
            except (Unsupported, Diverged) as ex:
                run.anchor("C05.R6", "%s:context:%s" % (dialect, fn), "site outside the tabulated fragment: %s" % ex, cfg)
                break
            cells += 1
            if paren:
                continue
            if inner_kind == "Binary":
                inn = opname(inner_op)
                ilev = level(sp, spell[inn])
                ok = ilev is not None and (ilev[0] > olev[0] or (side == "left" and ilev[0] == olev[0] and olev[1] == "left" and ilev[1] == "left"))
                run.ob("C05.R6", "%s:%s:%s:%s" % (dialect, fn, side, inn), ok,
                       "%s: %s writes `a %s b` bare as the %s operand of its own `%s`; the dialect groups it first: %s" % (
                           dialect, fn, spell[inn], side, otok, "yes" if ok else "NO (%r)" % txt), cfg=cfg)
            else:
                sh = delim.get(inner_kind, "open")
                run.ob("C05.R6", "%s:%s:%s:%s" % (dialect, fn, side, inner_kind), sh in ("atom", "paren"),
                       "%s: %s writes a %s bare as the %s operand of its own `%s`; its rendering is %s" % (dialect, fn, inner_kind, side, otok, sh), cfg=cfg)
        run.ob("C05.R6", "%s:context:%s" % (dialect, fn), cells > 0, "%s: %s decides parentheses for the operand of its own `%s` (%d cells tabulated)" % (dialect, fn, otok, cells), sp=spn, cfg=cfg)


def implicit_render(tab, f, target, fn, inner):
    """run one of the renderers of IMPLICIT on an OrderExpr whose expression is `inner`; (parenthesised?, text)"""
    markers = {id(inner): "<E>"}
    b = tab.builtins(markers)
    b[QB + "::value_to_string"] = lambda it_, a: "<v>"
    b[QB + "::prepare_order"] = lambda it_, a: it_.out.append(("sql", " <order>")) or ()
    it = Interp(f, builtins=b, unknown_call=lambda it_, e_, env, depth: Opaque("call"))
    it.free_opaque = True
    some = lambda x: ("__some", x)
    if fn == "prepare_field_order":
        oe = {"expr": inner, "order": Var("crate::types::Order::Asc"), "nulls": None}
        it.call_fn(target, [tab.selfv, oe, ([Opaque("v")],), Opaque("sql")])
    elif fn == "prepare_order_expr":
        oe = {"expr": inner, "order": Var("crate::types::Order::Asc"), "nulls": some(Var("crate::types::NullOrdering::Last"))}
        it.call_fn(target, [tab.selfv, oe, Opaque("sql")])
    else:
        raise Unsupported("no driver for " + fn)
    txt = "".join(t for _, t in it.out if isinstance(t, str))
    if "<E>" not in txt:
        raise Unsupported("the expression is not rendered by %s: %r" % (fn, txt))
    # the operand position is the first rendering of the expression
    i = txt.index("<E>")
    paren = txt[:i].rstrip().endswith("(") and txt[i + 3:].lstrip().startswith(")")
    return paren, txt


def op_class(name):
    if name in ("And", "Or"):
        return "logical:" + name
    if name in ("Equal", "NotEqual"):
        return "equality"
    if name in ("SmallerThan", "GreaterThan", "SmallerThanOrEqual", "GreaterThanOrEqual"):
        return "relational"
    if name in ("Like", "NotLike", "In", "NotIn", "Is", "IsNot", "Between", "NotBetween"):
        return name
    if name in ("Add", "Sub", "Mul", "Div", "Mod"):
        return "arithmetic"
    if name in ("LShift", "RShift"):
        return "shift"
    return name


def check(run):
    cfgs = run.tier_configs(["default"], ["all", "moreparens"])
    for cfg in cfgs:
        f = run.facts(cfg)
        for adt, d in BACKENDS.items():
            if adt in f.adts:
                check_backend(run, f, cfg, adt, d)
    run.trusted.append("specs/precedence.json: operator precedence/associativity and BETWEEN bound grammar of MySQL 8.0, PostgreSQL 16, SQLite")
    run.assumptions.append("the decision only looks at the immediate inner operator, so arbitrary nesting reduces to (outer, side, inner) cells")
    run.assumptions.append("server defaults (MySQL: PIPES_AS_CONCAT, HIGH_NOT_PRECEDENCE off)")
