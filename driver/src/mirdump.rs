//! MIR bodies (optimized_mir at -Zmir-opt-level=0) as JSON.

use crate::json::J;
use crate::{obj, Ctx};
use rustc_hir::def_id::LocalDefId;
use rustc_middle::mir::{self, *};
use rustc_middle::ty::{self, Ty, TyCtxt};

fn place_j<'tcx>(cx: &mut Ctx<'tcx>, body: &Body<'tcx>, p: &Place<'tcx>) -> J {
    let tcx = cx.tcx;
    let mut proj = Vec::new();
    let mut pty = mir::PlaceTy::from_ty(body.local_decls[p.local].ty);
    for elem in p.projection.iter() {
        match elem {
            ProjectionElem::Deref => proj.push(J::s("deref")),
            ProjectionElem::Field(f, _) => {
                let mut name = f.as_u32().to_string();
                let mut adt_name = J::Null;
                if let Some(adt) = pty.ty.ty_adt_def() {
                    let vi = pty.variant_index.unwrap_or(rustc_abi::FIRST_VARIANT);
                    if vi.as_usize() < adt.variants().len() {
                        let var = adt.variant(vi);
                        if f.as_usize() < var.fields.len() {
                            name = var.fields[f].name.to_string();
                        }
                        adt_name = J::s(cx.def(adt.did()));
                    }
                }
                proj.push(obj! { "f": J::Int(f.as_u32() as i128), "name": J::s(name), "adt": adt_name });
            }
            ProjectionElem::Downcast(name, vi) => {
                proj.push(obj! { "downcast": J::Int(vi.as_u32() as i128),
                    "vname": match name { Some(n) => J::s(n.to_string()), None => J::Null } });
            }
            ProjectionElem::Index(l) => proj.push(obj! { "index": J::Int(l.as_u32() as i128) }),
            ProjectionElem::ConstantIndex { offset, from_end, .. } => {
                proj.push(obj! { "cindex": J::Int(offset as i128), "from_end": J::Bool(from_end) })
            }
            ProjectionElem::Subslice { from, to, from_end } => {
                proj.push(obj! { "subslice": J::Arr(vec![J::Int(from as i128), J::Int(to as i128)]), "from_end": J::Bool(from_end) })
            }
            ProjectionElem::OpaqueCast(_) => proj.push(J::s("opaque")),
            ProjectionElem::UnwrapUnsafeBinder(_) => proj.push(J::s("unwrap_binder")),
        }
        pty = pty.projection_ty(tcx, elem);
    }
    obj! { "l": J::Int(p.local.as_u32() as i128), "p": if proj.is_empty() { J::Null } else { J::Arr(proj) } }
}

fn const_j<'tcx>(cx: &mut Ctx<'tcx>, c: &ConstOperand<'tcx>) -> J {
    let tcx = cx.tcx;
    let ty = c.const_.ty();
    let mut v: Vec<(&'static str, J)> = vec![("k", J::s("const")), ("ty", cx.ty(ty))];
    if let ty::FnDef(did, args) = ty.kind() {
        v.push(("fn", J::s(cx.def(*did))));
        if !args.is_empty() {
            use rustc_middle::ty::print::{with_crate_prefix, with_no_trimmed_paths, with_no_visible_paths};
            v.push(("substs", J::Arr(args.iter().map(|g| J::s(with_crate_prefix!(with_no_visible_paths!(with_no_trimmed_paths!(g.to_string()))))).collect())));
        }
    } else {
        // scalar values
        let typing_env = ty::TypingEnv::fully_monomorphized();
        if ty.is_integral() || ty.is_bool() || ty.is_char() {
            if let Some(si) = c.const_.try_eval_scalar_int(tcx, typing_env) {
                let bits = si.to_bits_unchecked();
                let val: i128 = if ty.is_signed() {
                    let size = si.size();
                    size.sign_extend(bits)
                } else {
                    bits as i128
                };
                v.push(("v", J::Int(val)));
            }
        } else {
            use rustc_middle::ty::print::{with_crate_prefix, with_no_trimmed_paths, with_no_visible_paths};
            let s = with_crate_prefix!(with_no_visible_paths!(with_no_trimmed_paths!(format!("{}", c.const_))));
            let s = if s.len() > 200 { format!("{}…", &s[..s.char_indices().take_while(|(i, _)| *i < 200).last().map(|x| x.0).unwrap_or(0)]) } else { s };
            v.push(("text", J::s(s)));
        }
    }
    J::Obj(v)
}

fn operand_j<'tcx>(cx: &mut Ctx<'tcx>, body: &Body<'tcx>, o: &Operand<'tcx>) -> J {
    match o {
        Operand::Copy(p) => obj! { "k": J::s("copy"), "place": place_j(cx, body, p) },
        Operand::Move(p) => obj! { "k": J::s("move"), "place": place_j(cx, body, p) },
        Operand::Constant(c) => const_j(cx, c),
        #[allow(unreachable_patterns)]
        _ => obj! { "k": J::s("other") },
    }
}

fn rvalue_j<'tcx>(cx: &mut Ctx<'tcx>, body: &Body<'tcx>, rv: &Rvalue<'tcx>) -> J {
    let tcx = cx.tcx;
    match rv {
        Rvalue::Use(o, ..) => obj! { "k": J::s("use"), "op": operand_j(cx, body, o) },
        Rvalue::Repeat(o, _) => obj! { "k": J::s("repeat"), "op": operand_j(cx, body, o) },
        Rvalue::Ref(_, bk, p) => obj! { "k": J::s("ref"),
            "mut": J::Bool(matches!(bk, BorrowKind::Mut { .. })),
            "place": place_j(cx, body, p) },
        Rvalue::RawPtr(k, p) => obj! { "k": J::s("rawptr"), "mut": J::Bool(matches!(k, RawPtrKind::Mut)), "place": place_j(cx, body, p) },
        Rvalue::ThreadLocalRef(d) => obj! { "k": J::s("tls"), "def": J::s(cx.def(*d)) },
        Rvalue::Cast(kind, o, to) => {
            let from = o.ty(&body.local_decls, tcx);
            obj! { "k": J::s("cast"), "kind": J::s(format!("{:?}", kind)), "op": operand_j(cx, body, o),
                   "from": cx.ty(from), "to": cx.ty(*to) }
        }
        Rvalue::BinaryOp(op, ops) => obj! { "k": J::s("bin"), "op": J::s(format!("{:?}", op)),
            "a": operand_j(cx, body, &ops.0), "b": operand_j(cx, body, &ops.1) },
        Rvalue::UnaryOp(op, o) => obj! { "k": J::s("un"), "op": J::s(format!("{:?}", op)), "a": operand_j(cx, body, o) },
        Rvalue::Discriminant(p) => obj! { "k": J::s("discr"), "place": place_j(cx, body, p) },
        Rvalue::Aggregate(kind, ops) => {
            let mut v: Vec<(&'static str, J)> = vec![("k", J::s("agg"))];
            match &**kind {
                AggregateKind::Array(_) => v.push(("agg", J::s("array"))),
                AggregateKind::Tuple => v.push(("agg", J::s("tuple"))),
                AggregateKind::Adt(did, vi, _, _, _) => {
                    v.push(("agg", J::s("adt")));
                    v.push(("adt", J::s(cx.def(*did))));
                    let adt = tcx.adt_def(*did);
                    let var = adt.variant(*vi);
                    v.push(("variant", J::s(var.name.to_string())));
                    v.push(("vidx", J::Int(vi.as_u32() as i128)));
                    v.push(("fields", J::Arr(var.fields.iter().map(|f| J::s(f.name.to_string())).collect())));
                }
                AggregateKind::Closure(did, _) => {
                    v.push(("agg", J::s("closure")));
                    v.push(("def", J::s(cx.def(*did))));
                }
                _ => v.push(("agg", J::s("other"))),
            }
            v.push(("ops", J::Arr(ops.iter().map(|o| operand_j(cx, body, o)).collect())));
            J::Obj(v)
        }
        Rvalue::CopyForDeref(p) => obj! { "k": J::s("use"), "op": obj!{ "k": J::s("copy"), "place": place_j(cx, body, p) } },
        _ => obj! { "k": J::s("other"), "text": J::s(format!("{:?}", rv)) },
    }
}

pub fn dump_mir<'tcx>(cx: &mut Ctx<'tcx>, def: LocalDefId) -> J {
    let tcx: TyCtxt<'tcx> = cx.tcx;
    if !tcx.is_mir_available(def.to_def_id()) {
        return J::Null;
    }
    let body: &Body<'tcx> = tcx.optimized_mir(def.to_def_id());
    let mut locals = Vec::new();
    // names from debuginfo
    let mut names: Vec<Option<String>> = vec![None; body.local_decls.len()];
    for vdi in body.var_debug_info.iter() {
        if let VarDebugInfoContents::Place(p) = &vdi.value {
            if p.projection.is_empty() {
                names[p.local.as_usize()] = Some(vdi.name.to_string());
            }
        }
    }
    for (l, d) in body.local_decls.iter_enumerated() {
        let t: Ty<'tcx> = d.ty;
        locals.push(obj! { "ty": cx.ty(t), "name": J::opt_s(names[l.as_usize()].clone()) });
    }
    let mut blocks = Vec::new();
    for (_bb, data) in body.basic_blocks.iter_enumerated() {
        let mut stmts = Vec::new();
        for s in data.statements.iter() {
            match &s.kind {
                StatementKind::Assign(b) => {
                    let (p, rv) = &**b;
                    let (sp, _) = cx.sp_j(s.source_info.span);
                    stmts.push(obj! { "k": J::s("assign"), "place": place_j(cx, body, p), "rv": rvalue_j(cx, body, rv), "sp": sp });
                }
                StatementKind::SetDiscriminant { place, variant_index } => {
                    stmts.push(obj! { "k": J::s("setdiscr"), "place": place_j(cx, body, place), "vidx": J::Int(variant_index.as_u32() as i128) });
                }
                _ => {}
            }
        }
        let term = data.terminator();
        let (tsp, tmac) = cx.sp_j(term.source_info.span);
        let tj = match &term.kind {
            TerminatorKind::Goto { target } => obj! { "k": J::s("goto"), "target": J::Int(target.as_u32() as i128) },
            TerminatorKind::SwitchInt { discr, targets } => {
                let ts: Vec<J> = targets.iter().map(|(v, bb)| J::Arr(vec![J::Int(v as i128), J::Int(bb.as_u32() as i128)])).collect();
                obj! { "k": J::s("switch"), "op": operand_j(cx, body, discr), "targets": J::Arr(ts),
                       "otherwise": J::Int(targets.otherwise().as_u32() as i128) }
            }
            TerminatorKind::Return => obj! { "k": J::s("return") },
            TerminatorKind::Unreachable => obj! { "k": J::s("unreachable") },
            TerminatorKind::UnwindResume | TerminatorKind::UnwindTerminate(_) => obj! { "k": J::s("unwind") },
            TerminatorKind::Drop { place, target, .. } => obj! { "k": J::s("drop"), "place": place_j(cx, body, place), "target": J::Int(target.as_u32() as i128) },
            TerminatorKind::Call { func, args, destination, target, .. } => {
                let fj = operand_j(cx, body, func);
                let mut resolved = J::Null;
                let mut in_trait = J::Null;
                if let Operand::Constant(c) = func {
                    if let ty::FnDef(did, gargs) = c.const_.ty().kind() {
                        if let Some(tr) = tcx.trait_of_assoc(*did) {
                            in_trait = J::s(cx.def(tr));
                            let typing_env = ty::TypingEnv::post_analysis(tcx, def.to_def_id());
                            if tcx.generics_of(*did).count() != gargs.len() {
                            } else if let Ok(Some(inst)) = ty::Instance::try_resolve(tcx, typing_env, *did, gargs) {
                                let rd = inst.def_id();
                                resolved = if rd != *did { J::s(cx.def(rd)) } else { J::s("=") };
                            }
                        }
                    }
                }
                obj! { "k": J::s("call"), "func": fj, "resolved": resolved, "trait": in_trait,
                    "args": J::Arr(args.iter().map(|a| operand_j(cx, body, &a.node)).collect()),
                    "dest": place_j(cx, body, destination),
                    "target": match target { Some(t) => J::Int(t.as_u32() as i128), None => J::Null } }
            }
            TerminatorKind::Assert { cond, expected, target, msg, .. } => obj! { "k": J::s("assert"),
                "cond": operand_j(cx, body, cond), "expected": J::Bool(*expected), "target": J::Int(target.as_u32() as i128),
                "msg": J::s(format!("{:?}", msg).chars().take(60).collect::<String>()) },
            TerminatorKind::FalseEdge { real_target, .. } => obj! { "k": J::s("goto"), "target": J::Int(real_target.as_u32() as i128) },
            TerminatorKind::FalseUnwind { real_target, .. } => obj! { "k": J::s("goto"), "target": J::Int(real_target.as_u32() as i128) },
            other => obj! { "k": J::s("other"), "text": J::s(format!("{:?}", other).chars().take(80).collect::<String>()) },
        };
        blocks.push(obj! { "stmts": J::Arr(stmts), "term": tj, "cleanup": if data.is_cleanup { J::Bool(true) } else { J::Null }, "sp": tsp, "mac": tmac });
    }
    // immediate dominators
    let doms = body.basic_blocks.dominators();
    let idom: Vec<J> = body
        .basic_blocks
        .indices()
        .map(|bb| match doms.immediate_dominator(bb) {
            Some(d) => J::Int(d.as_u32() as i128),
            None => J::Null,
        })
        .collect();
    obj! { "argc": J::Int(body.arg_count as i128), "locals": J::Arr(locals), "blocks": J::Arr(blocks), "idom": J::Arr(idom) }
}
