"""Shared driver for the statement-structure properties C07 / C08 / C13 / C14."""
from .. import coltypes, grammar, kw, stmt

QUERY_KW = ["JoinType", "UnionType", "Order", "NullOrdering", "Frame", "SubQueryOper", "Keyword", "SelectDistinct", "Function", "LockType", "LockBehavior",
            "UnOper", "BinOper", "PgFunction", "PgBinOper", "SqliteBinOper"]
SCHEMA_KW = ["ForeignKeyAction"]


QUERY_PRODUCTIONS = [("prepare_select_statement", "select"), ("prepare_insert_statement", "insert"), ("prepare_update_statement", "update"),
                     ("prepare_delete_statement", "delete"), ("prepare_with_query", "with_query"), ("prepare_table_ref", "table_ref"),
                     ("prepare_function_arguments", "arguments"), ("prepare_case_statement", "case_expr"), ("prepare_column_ref", "column_ref"),
                     ("prepare_tuple", "tuple"), ("prepare_simple_expr_common", "expr_forms"), ("prepare_simple_expr", "expr_hook")]


SCHEMA_PRODUCTIONS = [(stmt.TB, "prepare_table_create_statement", "table_create"), (stmt.TB, "prepare_table_alter_statement", "table_alter"),
                      (stmt.TB, "prepare_table_drop_statement", "table_drop"), (stmt.TB, "prepare_table_rename_statement", "table_rename"),
                      (stmt.TB, "prepare_table_truncate_statement", "table_truncate"), (stmt.IB, "prepare_index_create_statement", "index_create"),
                      (stmt.IB, "prepare_index_drop_statement", "index_drop"), (stmt.FKB, "prepare_foreign_key_create_statement", "fk_create"),
                      (stmt.FKB, "prepare_foreign_key_drop_statement", "fk_drop"),
                      ("crate::extension::postgres::types::TypeBuilder", "prepare_type_create_statement", "type_create"),
                      ("crate::extension::postgres::types::TypeBuilder", "prepare_type_drop_statement", "type_drop"),
                      ("crate::extension::postgres::types::TypeBuilder", "prepare_type_alter_statement", "type_alter"),
                      ("crate::extension::postgres::extension::ExtensionBuilder", "prepare_extension_create_statement", "extension_create"),
                      ("crate::extension::postgres::extension::ExtensionBuilder", "prepare_extension_drop_statement", "extension_drop")]


def run_structure(run, pid, kind, dialects, cfgs):
    unsupported = stmt.load_table("unsupported.json")
    guards = stmt.load_table("guards.json")
    partial = stmt.load_table("partial.json")
    registry = stmt.QUERY_STRUCTS if kind == "query" else stmt.SCHEMA_STRUCTS
    backends = set(dialects) | {"common"}
    sel = stmt.selector(kind, backends)
    for cfg in cfgs:
        f = run.facts(cfg)
        present = [d for d in dialects if stmt.L.BACKENDS[d] in f.adts]
        for d in present:
            n = stmt.check_fields(run, pid + ".R3", f, cfg, d, registry, unsupported, guards)
            run.floor(pid + ".R3", "%s:fields" % d, n, 60 if kind == "query" else 30, cfg)
            stmt.check_adjacency(run, pid + ".R2", f, cfg, d, select=sel)
            nk = kw.check_tables(run, pid + (".R4" if pid in ("C07", "C13") else ".R5"), f, cfg, d, QUERY_KW if kind == "query" else SCHEMA_KW)
            run.floor(pid + (".R4" if pid in ("C07", "C13") else ".R5"), "%s:keyword-rows" % d, nk, 50 if kind == "query" else 5, cfg)
        if kind == "query":
            for d in present:
                total = 0
                for method, production in QUERY_PRODUCTIONS:
                    total += grammar.check_production(run, pid + ".R1", f, cfg, d, stmt.QB, method, production)
                total += grammar.check_production(run, pid + ".R1", f, cfg, d, "crate::backend::table_ref_builder::TableRefBuilder", "prepare_table_ref_iden", "table_name")
                run.floor(pid + ".R1", "%s:grammar-nfa-states" % d, total, 400, cfg)
        if kind == "schema":
            for d in present:
                total = 0
                for trait, method, production in SCHEMA_PRODUCTIONS:
                    if production in grammar.grammar(d).ast:
                        total += grammar.check_production(run, pid + ".R1", f, cfg, d, trait, method, production)
                run.floor(pid + ".R1", "%s:grammar-nfa-states" % d, total, 200, cfg)
        ns = stmt.check_separators(run, pid + ".R2", f, cfg, select=sel)
        run.floor(pid + ".R2", "separated-lists", ns, 8 if kind == "query" else 3, cfg)
        npar = stmt.check_parens(run, pid + ".R2", f, cfg, select=sel)
        run.floor(pid + ".R2", "paren-fns", npar, 8 if kind == "query" else 4, cfg)
        stmt.check_partial_consumption(run, pid + ".R3", f, cfg, partial, select=sel)
        no = stmt.check_order(run, pid + (".R4" if kind == "query" else ".R3"), f, cfg, sel)
        run.floor(pid + (".R4" if kind == "query" else ".R3"), "renderer-calls", no, 200 if kind == "query" else 80, cfg)
        ne = stmt.check_element_sites(run, pid + ".R3", f, cfg, select=sel)
        run.floor(pid + ".R3", "element-sites", ne, 25 if kind == "query" else 4, cfg)
        nh = stmt.check_hooks(run, pid + ".R6", f, cfg, select=sel)
        run.floor(pid + ".R6", "hook-calls", nh, {"full": 10, "single": 8} if kind == "query" else 3, cfg)
        if kind == "schema":
            for d in present:
                if cfg != cfgs[0] and run.tier != "thorough":
                    continue          # the table does not depend on the value-type features of `all`: once per quick run
                npairs = coltypes.check_spec_pairs(run, pid + ".R3", f, cfg, d)
                run.floor(pid + ".R3", "%s:spec-pairs" % d, npairs, 80, cfg)
            if "sqlite" in present:
                nt = coltypes.check_sqlite(run, pid + ".R2", f, cfg)
                run.floor(pid + ".R2", "sqlite:type-rows", nt, 40, cfg)
            for d in present:
                if d != "sqlite":
                    nt = coltypes.check_dialect(run, pid + ".R2", f, cfg, d)
                    run.floor(pid + ".R2", "%s:type-rows" % d, nt, 40, cfg)
    if True:
        run.trusted.append("specs/{%s}.ebnf (clause-level grammar skeletons written from the dialect manuals, permissive where marked) and specs/domain.json "
                           "(feature-set assumptions)" % ",".join(dialects))
        run.assumptions.append("R1 decides the token language of the renderers with guards free (correlated boolean flags, loop-index guards and variants "
                               "excluded by a calling match are tracked); clause lists are taken as non-empty where they are rendered")
    run.trusted.append("specs/keywords.json, specs/unsupported.json, specs/guards.json (reviewed tables, one named symbol per entry)")
