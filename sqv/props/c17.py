"""C17  escape_string and unescape_string are inverse on every backend.  DESIGN.md section 4, C17."""
from .. import strfun as S
from ..core import Anchor

META = ("proof",
        "Per backend the resolved EscapeBuilder::escape_string/unescape_string pair is extracted (str::replace chain; "
        "per-character loop tabulated as a finite-state transducer over the characters occurring in either function plus "
        "representatives of 'every other character'). C17.R1: the escape chain equals one simultaneous per-character "
        "substitution h. C17.R2: the unescape transducer, started in its initial state, maps h(c) to c and returns to the "
        "initial state, for every character class c - by induction unescape(escape(s)) = s for all strings. C17.R3 "
        "(quote-doubling pair): escape is q -> qq and unescape is qq -> q (left-to-right non-overlapping replacement inverts "
        "doubling on every run of quotes). C17.R4: no other EscapeBuilder impls exist.",
        "one obligation per (backend, character class) and per structural condition; exhaustive over the finite case split")

EB = "crate::backend::EscapeBuilder"
OTHERS = ["x", "Z", "7", "é", "中", " ", "%", "_", "\u0001"]


def resolve(f, adt, item):
    n = f.impl_fn(EB, adt, item)
    if n:
        return n, True
    return EB + "::" + item, False


def check_backend(run, f, cfg, adt):
    short = adt.rsplit("::", 1)[-1]
    esc, eo = resolve(f, adt, "escape_string")
    une, uo = resolve(f, adt, "unescape_string")
    for n in (esc, une):
        if n not in f.fns:
            run.anchor("C17.R4", "%s:%s" % (short, n), "function %s not found" % n, cfg)
            return
    try:
        chain = S.escape_chain(f, esc)
        # the unescape side must be extractable too, else both are interpreted
        try:
            S.replace_chain(f, une)
        except Anchor:
            S.char_loop(f, une)
    except Anchor as e:
        return check_backend_interpreted(run, f, cfg, short, esc, une, str(e))
    sp = f.fns[esc]["sp"]
    hom, why = S.chain_is_homomorphism(chain)
    # is unescape a replace chain (doubling form) or a per-character loop?
    try:
        uchain = S.replace_chain(f, une)
    except Anchor:
        uchain = None
    if uchain is not None:
        # R3: quote-doubling pair
        ok = len(chain) == 1 and len(uchain) == 1
        if ok:
            (a, b), (ua, ub) = chain[0], uchain[0]
            ok = len(a) == 1 and b == a + a and ua == b and ub == a
        run.ob("C17.R3", "%s:doubling-pair" % short, ok,
               "%s: escape is the single replacement q -> qq and unescape the single replacement qq -> q of the same character "
               "(every maximal run of n quotes becomes 2n and is halved back by left-to-right non-overlapping replacement)" % short,
               sp=sp, cfg=cfg, detail={"escape": chain, "unescape": uchain})
        return
    run.ob("C17.R1", "%s:homomorphism" % short, hom,
           "%s: the escape chain (%d replacements) is one simultaneous per-character substitution (no replacement re-escapes the output of an earlier one)%s"
           % (short, len(chain), "" if hom else ": " + why), sp=sp, cfg=cfg, detail=chain)
    if not hom:
        return
    h = dict(chain)
    alphabet = set(h) | set("".join(h.values())) | S.literal_chars(f, une) | set(OTHERS)
    try:
        names, init, table = S.transducer(f, une, sorted(alphabet))
    except Anchor as e:
        run.anchor("C17.R2", "%s:unescape" % short, str(e), cfg)
        return
    run.ob("C17.R2", "%s:initial-state" % short, not any(init), "%s: unescape starts in the plain state (%s all false)" % (short, ", ".join(names)),
           sp=f.fns[une]["sp"], cfg=cfg)
    for c in sorted(alphabet):
        img = h.get(c, c)
        st, out = S.run_transducer(init, table, img)
        cls = "mapped %r -> %r" % (c, img) if c in h else ("other character (representative %r)" % c if c in OTHERS else "unmapped %r" % c)
        run.ob("C17.R2", "%s:char:%s" % (short, "U+%04X" % ord(c)), st == init and out == c,
               "%s: unescape decodes the image of %s back to the character and returns to the plain state" % (short, cls),
               sp=f.fns[une]["sp"], cfg=cfg, detail={"image": img, "decoded": out, "state": st}, trivial=(c not in h))


def check_backend_interpreted(run, f, cfg, short, esc, une, why):
    """escape / unescape whose bodies are not of the extractable forms: both are interpreted on every string up to length 3
    over the alphabet of their own character literals (plus representatives of all other characters)"""
    try:
        E = S.InterpStrFn(f, esc)
        U = S.InterpStrFn(f, une)
        alphabet = E.alphabet(extra=S.literal_chars(f, une))
        m, problems = E.per_char(alphabet)
    except Anchor as e2:
        from .. import scope
        scope.check_bound(run, "C17.R1", "%s:scope" % short, f, [esc, une], 3, cfg, "%s escape / unescape (neither extractable nor interpretable)" % short)
        run.anchor("C17.R1", "%s:escape" % short, "%s; %s" % (why, e2), cfg)
        return
    run.notes.append("%s: escape/unescape pair decided by interpretation of the bodies (%s)" % (short, why))
    from .. import scope
    scope.check_bound(run, "C17.R1", "%s:scope" % short, f, [esc, une], 3, cfg, "%s escape / unescape (strings of length <= 3)" % short)
    run.ob("C17.R1", "%s:homomorphism" % short, not problems,
           "%s: escape_string is one simultaneous per-character substitution (tabulated on all strings of length <= 2 over %d characters)%s" % (
               short, len(alphabet), "" if not problems else ": " + "; ".join(problems)), sp=f.fns[esc]["sp"], cfg=cfg)
    try:
        for c in alphabet:
            img = m[c]
            out = U(img)
            cls = "mapped %r -> %r" % (c, img) if img != c else "unmapped %r" % c
            run.ob("C17.R2", "%s:char:%s" % (short, "U+%04X" % ord(c)), out == c,
                   "%s: unescape decodes the image of %s back to the character" % (short, cls), sp=f.fns[une]["sp"], cfg=cfg,
                   detail={"image": img, "decoded": out}, trivial=(img == c))
        mapped = [c for c in alphabet if m[c] != c]
        images = sorted(set(ch for c in mapped for ch in m[c] if ch in alphabet and ch not in mapped))
        # every pair over the whole alphabet; triples over a selection with one member of every class: mapped characters,
        # characters that occur in images, an ordinary ASCII and a multi-byte character
        hot = (mapped[:3] + [c for c in ("\\", "'") if c in mapped and c not in mapped[:3]] + images[:2] + ["a", "\u00e9"])
        bad = []
        from itertools import product
        for tup in list(product(alphabet, repeat=2)) + list(product(hot, repeat=3)):
            s_ = "".join(tup)
            if U(E(s_)) != s_:
                bad.append(s_)
        run.ob("C17.R2", "%s:strings" % short, not bad,
               "%s: unescape(escape(s)) == s for every string of length 2 over the %d-character alphabet and of length 3 over %r%s" % (
                   short, len(alphabet), hot, "" if not bad else " - EXCEPT %r" % bad[:5]),
               sp=f.fns[une]["sp"], cfg=cfg)
    except Anchor as e3:
        from .. import scope
        scope.check_bound(run, "C17.R2", "%s:unescape:scope" % short, f, [une], 3, cfg, "%s unescape (outside the interpreter's fragment)" % short)
        run.anchor("C17.R2", "%s:unescape" % short, str(e3), cfg)


def check(run):
    for cfg in run.tier_configs(["default"], ["all", "mysql", "postgres", "sqlite"]):
        f = run.facts(cfg)
        impls = f.trait_impls(EB)
        adts = sorted(i["self_adt"] for i in impls if i.get("self_adt"))
        want = {"default": 4, "all": 4, "mysql": 2, "postgres": 2, "sqlite": 2}[cfg]
        run.floor("C17.R4", "escape-builder-impls", len(adts), want, cfg)
        for i in impls:
            extra = set(i["items"]) - {"escape_string", "unescape_string"}
            run.ob("C17.R4", "impl:%s" % (i.get("self_adt") or i["self_ty"]).rsplit("::", 1)[-1], not extra and i.get("self_adt") is not None,
                   "EscapeBuilder impl for %s overrides only escape_string/unescape_string (%s)" % (i["self_ty"], ", ".join(sorted(i["items"])) or "nothing"),
                   sp=i["sp"], cfg=cfg, trivial=True)
        for adt in adts:
            check_backend(run, f, cfg, adt)
    run.trusted.append("semantics of str::replace (left-to-right, non-overlapping) and str::chars as documented by std")
    run.assumptions.append("'every other character' is represented by %r: the extracted code compares characters only against the literals it contains" % OTHERS)
