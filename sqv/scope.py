"""Small-scope justification for the bounded tabulations.

A table obtained by interpreting a function on all inputs up to a bound (strings of length <= 3, lists of <= 3 elements,
token tapes of length <= 3, counters 0..3) decides the function for all sizes only if the function does not itself
distinguish larger sizes.  This module collects the integer constants a function (and the crate functions it calls)
compares sizes / counters / positions with: literal operands of comparisons, of `%`, of nth / take / skip / step_by /
chunks / windows / truncate / split_at / repeat, and integer literals and ranges in patterns.  A rule states the bound
its table covers and fails closed when a constant reaches it."""
from . import hir as H
from .facts import nhir, walk

CMP = ("<", "<=", ">", ">=", "==", "!=")
SIZE_METHODS = ("nth", "take", "skip", "step_by", "chunks", "chunks_exact", "rchunks", "windows", "truncate", "split_at", "get", "split_off", "resize", "splitn",
                "rsplitn", "min", "max", "saturating_sub", "checked_sub", "with_capacity_")


# sizes, positions and counters; byte and character values (u8, u16, char) are data, not sizes
SIZE_TYPES = ("usize", "isize", "u32", "i32", "u64", "i64", "u128", "i128")
UNKNOWN_CONST = 1 << 62        # a named constant whose value the extractor cannot see: treated as arbitrarily large


def _int_lit(e, f=None, lets=None, depth=0):
    """the integer a (peeled) expression denotes when it is a literal, a named constant of the crate, or a local bound once
    to such a value (`let limit = 8;`)"""
    e = H.peel_ref(e) if isinstance(e, dict) else e
    while isinstance(e, dict) and e.get("k") == "cast":
        e = H.peel_ref(e["e"])
    if not isinstance(e, dict) or depth > 4:
        return None
    if e.get("k") == "lit" and e["lit"]["t"] == "int" and isinstance(e["lit"]["v"], int):
        return e["lit"]["v"]
    if e.get("k") == "path" and "Const" in (e.get("dk") or "") and f is not None:
        c = f.fns.get(e.get("def") or "")
        ty = f.ty(e.get("ty")) or ""
        if ty in ("usize", "isize", "u8", "u16", "u32", "u64", "i8", "i16", "i32", "i64", "u128", "i128"):
            if c is not None and c.get("hir") is not None:
                v = _int_lit(c["hir"], f, None, depth + 1)
                return v if v is not None else UNKNOWN_CONST
            return UNKNOWN_CONST
    if e.get("k") == "local" and lets is not None and e.get("name") in lets:
        return _int_lit(lets[e["name"]], f, None, depth + 1)
    return None


def _show(v):
    return "<a named constant of unknown value>" if v == UNKNOWN_CONST else str(v)


def thresholds(f, fname, depth=3, seen=None):
    """[(constant, span, description)] of the size-distinguishing constants of `fname` and of the crate functions it calls"""
    seen = seen if seen is not None else set()
    if fname in seen or fname not in f.fns or f.fns[fname].get("hir") is None:
        return []
    seen.add(fname)
    out = []
    try:
        body = nhir(f, fname)
    except KeyError:
        return []
    short = fname.rsplit("::", 1)[-1]
    lets, assigned = {}, set()
    for n in walk(body):
        if n.get("k") == "stmt_let" and n["pat"].get("k") == "bind" and n.get("init") is not None and not n["pat"].get("mut"):
            lets.setdefault(n["pat"]["name"], n["init"])
        if n.get("k") in ("assign", "assignop") and H.place(n.get("l")):
            assigned.add(H.place(n["l"]))
    lets = {k_: v_ for k_, v_ in lets.items() if k_ not in assigned}
    all_lets = {}
    for n in walk(body):
        if n.get("k") == "stmt_let" and n["pat"].get("k") == "bind" and n.get("init") is not None:
            all_lets.setdefault(n["pat"]["name"], n["init"])
    # constants inside capacity hints (`with_capacity(len + 16)`, `reserve(2 * n + 1)`) say nothing about behaviour
    capacity = set()
    for n in walk(body):
        if n.get("k") in ("call", "mcall") and (n.get("name") or (n.get("callee") or "").rsplit("::", 1)[-1]) in ("with_capacity", "reserve", "reserve_exact"):
            for a in n.get("args") or []:
                for x in walk(a):
                    capacity.add(id(x))

    def is_data(e, depth=0):
        """the expression is a character / byte VALUE (or computed from one): `c as u32`, `b`, `code`, `b >> 4` - comparing it
        with a constant classifies data, it does not test a size"""
        e = H.peel_ref(e) if isinstance(e, dict) else e
        if not isinstance(e, dict) or depth > 5:
            return False
        k_ = e.get("k")
        ty = (f.ty(e.get("ty")) or "").lstrip("&")
        if ty in ("char", "u8", "i8"):
            return True
        if k_ == "cast":
            return (f.ty(e.get("from")) or "") in ("char", "u8", "i8") or is_data(e["e"], depth + 1)
        if k_ == "local" and e.get("name") in all_lets:
            return is_data(all_lets[e["name"]], depth + 1)
        if k_ == "binary" and e.get("op") in (">>", "<<", "&", "|", "^", "+", "-"):
            return is_data(e["l"], depth + 1) or is_data(e["r"], depth + 1)
        if k_ == "mcall" and e.get("name") in ("into", "to_digit", "to_ascii_lowercase", "to_ascii_uppercase") and not e.get("args"):
            return is_data(e["recv"], depth + 1)
        if k_ == "call" and len(e.get("args") or []) == 1 and (e.get("callee") or "").endswith("From::from"):
            return is_data(e["args"][0], depth + 1)
        return False

    def lit(e):
        return _int_lit(e, f, lets)
    for n in walk(body):
        k = n.get("k")
        if id(n) in capacity:
            continue
        if k == "binary" and (is_data(n.get("l")) or is_data(n.get("r"))):
            continue
        if k == "match" and is_data(n.get("scrut")):
            continue
        if k == "binary" and n.get("op") in CMP + ("%",) and (f.ty(n.get("lty")) or "usize").lstrip("&") in SIZE_TYPES:
            for side in ("l", "r"):
                v = lit(n.get(side))
                if v is not None:
                    out.append((abs(v), n.get("sp"), "%s: `%s` against the constant %s" % (short, n["op"], _show(v))))
        elif k == "binary" and n.get("op") in ("+", "-") and (f.ty(n.get("ty")) or "") in ("usize", "isize", "u32", "i32", "u64", "i64"):
            # an offset from a position / counter (`tokens[i + 1]`, `values[n - 1]`): the table must reach that far
            for side in ("l", "r"):
                v = lit(n.get(side))
                if v is not None:
                    out.append((abs(v), n.get("sp"), "%s: offset `%s %s`" % (short, n["op"], _show(v))))
        elif k == "assignop" and n.get("op") in ("+=", "-="):
            v = lit(n.get("r"))
            if v is not None:
                out.append((abs(v), n.get("sp"), "%s: step `%s %s`" % (short, n["op"], _show(v))))
        elif k == "mcall" and n.get("name") in SIZE_METHODS:
            for a in ([n["recv"]] if n.get("name") in ("min", "max", "saturating_sub", "checked_sub") else []) + list(n.get("args") or []):
                v = lit(a)
                if v is not None:
                    out.append((abs(v), n.get("sp"), "%s: .%s(%s)" % (short, n["name"], _show(v))))
        elif k in ("match", "let", "stmt_let") and (k != "match" or (f.ty(n.get("scrut_ty")) or "usize").lstrip("&") in SIZE_TYPES or
                                                    any(q.get("k") == "slice" for a in n.get("arms") or [] for q in walk(a["pat"]))):
            pats = [a["pat"] for a in n.get("arms") or []] if k == "match" else [n.get("pat")]
            for p in pats:
                for q in walk(p or {}):
                    if q.get("k") == "lit" and isinstance(q.get("lit"), dict) and q["lit"].get("t") == "int":
                        out.append((abs(q["lit"]["v"]), n.get("sp"), "%s: integer pattern %d" % (short, q["lit"]["v"])))
                    if q.get("k") == "slice":
                        m = len(q.get("before") or []) + len(q.get("after") or [])
                        out.append((m, n.get("sp"), "%s: slice pattern of %d elements" % (short, m)))
        if depth > 0 and k in ("call", "mcall"):
            for d in (n.get("callee"), H.callee(n)):
                if d and d in f.fns and d.startswith("crate::") and "::tests" not in d:
                    out += thresholds(f, d, depth - 1, seen)
    return out


def check_bound(run, rule, key, f, fnames, bound, cfg, what):
    """obligation: no size-distinguishing constant of the functions reaches `bound` (the largest size the table covers)"""
    ts = []
    for fn in fnames:
        ts += thresholds(f, fn)
    worst = max([t[0] for t in ts] or [0])
    bad = sorted(set(t[2] for t in ts if t[0] >= bound))
    run.ob(rule, key, not bad,
           "%s: the table covers sizes up to %d and the code compares sizes / positions only with constants below that (largest: %d)%s" % (
               what, bound, min(worst, 10 ** 9), "" if not bad else " - NOT: " + "; ".join(bad[:3])), cfg=cfg, trivial=not bad)
    return not bad
