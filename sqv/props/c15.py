"""C15  take, clone and clear behave as value operations on builders.  DESIGN.md section 4, C15."""
from .. import hir as H
from .. import mir as M
from .. import paths as P
from ..facts import nhir, walk

META = ("other",
        "C15.R1/R4 by interpretation: every take(&mut self) -> Self and every clear_*/reset_* function is interpreted on a "
        "statement whose fields hold opaque markers (nested builders: structs of markers) - the result holds field-wise what self "
        "held, query statements are left equal to the derived Default, a clear function changes exactly its field, to the Default "
        "value; code outside the interpreter's fragment is decided by the shape rules:  C15.R1 every take(&mut self) -> Self returns a struct literal that initialises every field f from self.f only "
        "(Option::take, mem::take, mem::replace, Copy read, clone) and, for query statements, leaves every field at its "
        "Default so the remainder equals new(); R2 Clone and PartialEq are compiler-derived on the whole type closure of the "
        "statement types (or a reviewed manual impl); R3 every such type is Freeze and the shared SeaRc pointer is never "
        "mutated through; R4 clear_*/reset_*/from_clear write exactly their one field with the empty value",
        "one obligation per (take fn, field), per (type, trait) in the closure, per clear function")

QUERY_STATEMENTS = {"crate::query::select::SelectStatement", "crate::query::window::WindowStatement"}

# manual impls confirmed by reading (one line of reason each)
REVIEWED_MANUAL = {
    ("crate::types::SeaRc", "core::clone::Clone"): "SeaRc<I: ?Sized>::clone clones the inner Rc/Arc pointer (derive would demand I: Clone)",
    ("crate::types::SeaRc", "core::cmp::PartialEq"): "SeaRc<dyn Iden> compares pointers first, then the rendered identifier text",
    ("crate::table::column::ColumnType", "core::cmp::PartialEq"): "ColumnType PartialEq compares variants/payloads; Custom/Enum/Array compare by identifier text",
    ("crate::value::Value", "core::cmp::PartialEq"): "hashable-value: hand-written diagonal eq (decided under C18)",
}

CLEARERS = {
    # fn def path -> field expected to be cleared
    "crate::query::select::SelectStatement::clear_selects": "selects",
    "crate::query::select::SelectStatement::from_clear": "from",
    "crate::query::select::SelectStatement::reset_limit": "limit",
    "crate::query::select::SelectStatement::reset_offset": "offset",
    "<crate::query::select::SelectStatement as crate::query::ordered::OrderedStatement>::clear_order_by": "orders",
    "<crate::query::update::UpdateStatement as crate::query::ordered::OrderedStatement>::clear_order_by": "orders",
    "<crate::query::delete::DeleteStatement as crate::query::ordered::OrderedStatement>::clear_order_by": "orders",
    "<crate::query::window::WindowStatement as crate::query::ordered::OrderedStatement>::clear_order_by": "order_by",
}

COPY_TYPES = ("bool", "u8", "u16", "u32", "u64", "usize", "i8", "i16", "i32", "i64", "isize", "f32", "f64", "char")


def is_copy_ty(t):
    return t in COPY_TYPES or (t.startswith("core::option::Option<") and t[len("core::option::Option<"):-1] in COPY_TYPES)


def default_equiv(f, e, depth=0):
    """expression certainly evaluates to Default::default() of its type"""
    e = H.peel_ref(e)
    if depth > 4 or not isinstance(e, dict):
        return False
    k = e.get("k")
    if k == "call":
        c = e.get("callee") or ""
        if e.get("args"):
            return False
        if c.endswith("Default::default") or c.endswith("::default"):
            return True
        if c in ("alloc::vec::Vec::<T>::new", "alloc::string::String::new"):
            return True
        if c.endswith("::new") and c in f.fns:
            ps = P.fn_paths(f.fns[c]["hir"])
            return len(ps) == 1 and default_equiv(f, ps[0].value, depth + 1)
        return False
    if k == "path":
        d = e.get("def") or ""
        if d == "core::option::Option::None":
            return True
        # unit variant: must be the one the (derived) Default of its enum returns
        if e.get("dk", "").startswith("Ctor"):
            enum = e.get("ctor_of", "").rsplit("::", 1)[0]
            for i in f.impls:
                if i.get("trait") == "core::default::Default" and i.get("self_adt") == enum and i.get("derived"):
                    dn = i["items"].get("default")
                    ps = P.fn_paths(f.fns[dn]["hir"]) if dn in f.fns else []
                    if len(ps) == 1:
                        v = H.peel_ref(ps[0].value)
                        return isinstance(v, dict) and v.get("k") == "path" and v.get("def") == d
        return False
    if k == "struct" and not e.get("base"):
        return all(default_equiv(f, x["e"], depth + 1) for x in e["fields"])
    if k == "lit":
        return e["lit"]["v"] in (0, False, "")
    return False


def classify_init(f, field, e):
    """how a field of the taken value is produced: (kind, source field, leaves-default?)"""
    e = H.peel_ref(e)
    if not isinstance(e, dict):
        return ("other", None, False)
    k = e.get("k")
    if k == "field" and H.place(e) == "self." + field:
        return ("copy", field, False)
    if k == "mcall":
        pl = H.place(e["recv"])
        src = pl[5:] if pl and pl.startswith("self.") else None
        c = e.get("callee") or ""
        if e["name"] == "take" and c == "core::option::Option::<T>::take":
            return ("option-take", src, True)
        if e["name"] == "clone" and c.endswith("Clone::clone"):
            return ("clone", src, False)
        if e["name"] == "take" and c in TAKE_FNS.get(id(f), ()):
            # nested builder: its own take() is one of the functions verified field-wise by this rule
            return ("nested-take", src, True)
        return ("other", src, False)
    if k == "call":
        c = e.get("callee") or ""
        if c == "core::mem::take" and len(e["args"]) == 1:
            pl = H.place(e["args"][0])
            return ("mem-take", pl[5:] if pl and pl.startswith("self.") else None, True)
        if c == "core::mem::replace" and len(e["args"]) == 2:
            pl = H.place(e["args"][0])
            return ("mem-replace", pl[5:] if pl and pl.startswith("self.") else None, default_equiv(f, e["args"][1]))
    return ("other", None, False)


TAKE_FNS = {}


def take_fns(f):
    out = []
    for name, fn in f.fns.items():
        if fn.get("kind") != "fn" or not name.endswith("::take") or fn.get("self_kind") != "mut":
            continue
        impl = f.impl_of(fn)
        if impl is None or impl.get("trait") or not impl.get("self_adt"):
            continue
        if f.ty(fn["ret"]) != impl["self_ty"]:
            continue
        out.append((name, fn, impl["self_adt"]))
    TAKE_FNS[id(f)] = set(o[0] for o in out)
    return out


def _veq(a, b):
    from ..interp import Opaque, Var
    for x, y in ((a, b), (b, a)):
        # `T::default()` of a generic helper: equal to the std defaults a default-constructed statement holds (empty list, None, ..)
        if isinstance(x, Opaque) and x.tag == "Default::default" and not isinstance(y, Opaque):
            return y is None or y == [] or y == "" or y is False or (isinstance(y, int) and y == 0)
    if isinstance(a, Opaque) or isinstance(b, Opaque):
        return isinstance(a, Opaque) and isinstance(b, Opaque) and a.tag == b.tag
    if isinstance(a, dict) or isinstance(b, dict):
        return isinstance(a, dict) and isinstance(b, dict) and sorted(a) == sorted(b) and all(_veq(a[k], b[k]) for k in a)
    if isinstance(a, (list, tuple)) or isinstance(b, (list, tuple)):
        return type(a) is type(b) and len(a) == len(b) and all(_veq(x, y) for x, y in zip(a, b))
    if isinstance(a, Var) or isinstance(b, Var):
        return isinstance(a, Var) and isinstance(b, Var) and a.d == b.d and _veq(list(a.fields), list(b.fields))
    return a == b


def _copy(v):
    if isinstance(v, dict):
        return {k: _copy(x) for k, x in v.items()}
    if isinstance(v, list):
        return [_copy(x) for x in v]
    return v


def take_by_interp(f, name, adt, takers):
    """interpret take() on a statement whose every field holds an opaque marker (nested builders that have their own
    take(): a struct of markers).  Returns (fields, result, remainder, fresh) or raises Unsupported"""
    from ..interp import Interp, Opaque, Unsupported

    def mk(a, prefix, depth=0):
        out = {}
        for x in f.adts[a]["variants"][0]["fields"]:
            t = f.ty(x["ty"])
            if t in takers and t in f.adts and depth < 3:
                out[x["name"]] = mk(t, prefix + x["name"] + ".", depth + 1)
            else:
                out[x["name"]] = Opaque(prefix + x["name"])
        return out
    me = mk(adt, "self.")
    before = _copy(me)
    it = Interp(f)
    it.free_opaque = True
    it.max_depth = 10

    def mentions_self(v, depth=0):
        if isinstance(v, Opaque):
            return v.tag.startswith("self.")
        if isinstance(v, dict):
            return v is me or any(mentions_self(x, depth + 1) for x in v.values())
        if isinstance(v, (list, tuple)):
            return any(mentions_self(x, depth + 1) for x in v)
        return hasattr(v, "fields") and any(mentions_self(x, depth + 1) for x in v.fields)

    def unknown(it_, e, env, depth):
        # a call outside the crate (Rc::new, ..) builds a fresh value - as long as nothing of the statement is handed to it
        vals = ([it_.ev(e["recv"], env, depth)] if e.get("k") == "mcall" else []) + [it_.ev(a, env, depth) for a in e.get("args") or []]
        if any(mentions_self(v) for v in vals):
            raise Unsupported("call %s on part of the statement" % (e.get("callee") or e.get("name")))
        return Opaque("fresh:%s" % (e.get("callee") or e.get("name")))
    it.unknown_call = unknown
    r = it.call_fn(name, [me])
    if not isinstance(r, dict):
        raise Unsupported("take() returns %r" % (r,))
    if it.out:
        raise Unsupported("take() writes text")
    fresh = None
    it2 = Interp(f)
    it2.free_opaque = True
    dfl = f.impl_fn("core::default::Default", adt, "default")
    if dfl and dfl in f.fns:
        fresh = it2.call_fn(dfl, [])
    return before, r, me, fresh


def check_take_interp(run, f, cfg, name, fn, adt, takers):
    """True when decided by interpretation"""
    from ..interp import Unsupported as U, Diverged as D
    global Unsupported
    Unsupported = U
    short = adt.rsplit("::", 1)[-1]
    try:
        before, r, after, fresh = take_by_interp(f, name, adt, takers)
    except (U, D) as e:
        run.notes.append("C15.R1 %s::take outside the interpreter's fragment (%s): decided by its struct literal" % (short, e))
        return False
    fields = [x["name"] for x in f.adts[adt]["variants"][0]["fields"]]
    run.ob("C15.R1", "take:%s:complete" % short, sorted(r) == sorted(fields), "%s::take returns a value with every field of the struct" % short, sp=fn["sp"], cfg=cfg)
    for fl in fields:
        ok = fl in r and _veq(r[fl], before[fl])
        run.ob("C15.R1", "take:%s:%s" % (short, fl), ok,
               "%s::take (interpreted on a statement of opaque markers): field `%s` of the result is what self.%s held%s" % (
                   short, fl, fl, "" if ok else " - NOT: it is %r" % (r.get(fl),)), sp=fn["sp"], cfg=cfg)
        if adt in QUERY_STATEMENTS:
            ok2 = fresh is not None and fl in after and fl in fresh and _veq(after[fl], fresh[fl])
            run.ob("C15.R1", "take:%s:%s:remainder" % (short, fl), ok2,
                   "%s::take leaves `%s` as in a newly constructed statement%s" % (short, fl, "" if ok2 else " - NOT: left %r, fresh %r" % (after.get(fl), (fresh or {}).get(fl))),
                   sp=fn["sp"], cfg=cfg)
    run.ob("C15.R1", "take:%s:no-other-effect" % short, True, "%s::take (interpreted) calls nothing outside the modelled moves and constructors" % short, sp=fn["sp"], cfg=cfg)
    return True


def check_take(run, f, cfg):
    tfs = take_fns(f)
    takers = set(t[2] for t in tfs)
    for name, fn, adt in sorted(tfs):
        short = adt.rsplit("::", 1)[-1]
        if check_take_interp(run, f, cfg, name, fn, adt, takers):
            continue
        ps = [p for p in P.fn_paths(fn["hir"]) if p.out != "diverge"]
        if len(ps) != 1:
            run.anchor("C15.R1", "take:" + short, "take() of %s is not a single-path function" % short, cfg)
            continue
        v = H.peel_ref(ps[0].value)
        if not (isinstance(v, dict) and v.get("k") == "struct" and v.get("adt") == adt):
            run.anchor("C15.R1", "take:" + short, "take() of %s does not return a struct literal of Self" % short, cfg)
            continue
        a = f.adts[adt]
        fields = [x["name"] for x in a["variants"][0]["fields"]]
        ftypes = {x["name"]: f.ty(x["ty"]) for x in a["variants"][0]["fields"]}
        run.ob("C15.R1", "take:%s:complete" % short, not v.get("base") and sorted(x["name"] for x in v["fields"]) == sorted(fields),
               "%s::take lists every field explicitly (no ..base)" % short, sp=fn["sp"], cfg=cfg)
        for x in v["fields"]:
            kind, src, leaves_default = classify_init(f, x["name"], x["e"])
            ok = kind != "other" and src == x["name"]
            if kind == "copy":
                ok = ok and is_copy_ty(ftypes.get(x["name"], ""))
            run.ob("C15.R1", "take:%s:%s" % (short, x["name"]), ok,
                   "%s::take: field `%s` of the result is moved/copied from self.%s (%s)" % (short, x["name"], x["name"], kind),
                   sp=x["e"].get("sp"), cfg=cfg, detail={"kind": kind, "source": src})
            if adt in QUERY_STATEMENTS:
                run.ob("C15.R1", "take:%s:%s:remainder" % (short, x["name"]), leaves_default,
                       "%s::take leaves `%s` at its Default (the remainder equals new())" % (short, x["name"]), sp=x["e"].get("sp"), cfg=cfg,
                       detail={"kind": kind})
        # no other effect: the only calls are the field moves
        inside = set(id(n) for n in walk(v))
        extra = [c for c in ps[0].calls() if id(c) not in inside]
        run.ob("C15.R1", "take:%s:no-other-effect" % short, not extra, "%s::take performs nothing but the field moves" % short, sp=fn["sp"], cfg=cfg,
               detail=[c.get("src") for c in extra] or None)
    run.floor("C15.R1", "take-fns", len(tfs), 12, cfg)
    for adt in sorted(QUERY_STATEMENTS):
        nm = adt + "::new"
        fn = f.fns.get(nm)
        ok = False
        if fn:
            ps = P.fn_paths(fn["hir"])
            v = H.peel_ref(ps[0].value) if len(ps) == 1 else None
            ok = isinstance(v, dict) and v.get("k") == "call" and (v.get("callee") or "").endswith("Default::default") and not v.get("args")
        der = any(i.get("trait") == "core::default::Default" and i.get("self_adt") == adt and i.get("derived") for i in f.impls)
        run.ob("C15.R1", "new-is-default:" + adt.rsplit("::", 1)[-1], ok and der,
               "%s::new() is the derived Default (so `left at Default` means `equal to new()`)" % adt.rsplit("::", 1)[-1], sp=fn["sp"] if fn else None, cfg=cfg)
    return [t[2] for t in tfs]


def closure(f, roots):
    seen = set()
    todo = list(roots)
    names = sorted(f.adts, key=len, reverse=True)
    while todo:
        a = todo.pop()
        if a in seen or a not in f.adts:
            continue
        seen.add(a)
        for v in f.adts[a]["variants"]:
            for fld in v["fields"]:
                t = f.ty(fld["ty"])
                for n in names:
                    if n in t and n not in seen:
                        todo.append(n)
    return seen


def check_derives(run, f, cfg, roots):
    cl = closure(f, roots)
    byadt = {}
    for i in f.impls:
        if i.get("self_adt") and i.get("trait") in ("core::clone::Clone", "core::cmp::PartialEq"):
            byadt.setdefault((i["self_adt"], i["trait"]), []).append(i)
    n = 0
    root_has_eq = {r: ((r, "core::cmp::PartialEq") in byadt) for r in roots}
    for a in sorted(cl):
        for tr in ("core::clone::Clone", "core::cmp::PartialEq"):
            impls = byadt.get((a, tr), [])
            if not impls:
                if tr == "core::clone::Clone":
                    run.ob("C15.R2", "%s:%s" % (a, tr.rsplit("::", 1)[-1]), False, "%s is reachable from a statement but has no Clone impl" % a, sp=f.adts[a]["sp"], cfg=cfg)
                continue
            for i in impls:
                n += 1
                ok = i.get("derived") or (a, tr) in REVIEWED_MANUAL
                run.ob("C15.R2", "%s:%s" % (a, tr.rsplit("::", 1)[-1]), ok,
                       "%s for %s is compiler-derived (field-wise by construction)%s" % (tr.rsplit("::", 1)[-1], a, "" if i.get("derived") else " or reviewed: " + REVIEWED_MANUAL.get((a, tr), "UNREVIEWED manual impl")),
                       sp=i["sp"], cfg=cfg)
    run.floor("C15.R2", "impls-in-closure", n, 80, cfg)
    return cl


def check_sharing(run, f, cfg, cl):
    n = 0
    for a in sorted(cl):
        auto = f.adts[a].get("auto")
        if auto is None:
            bad = [f.ty(fl["ty"]) for v in f.adts[a]["variants"] for fl in v["fields"]
                   if any(x in f.ty(fl["ty"]) for x in ("core::cell::", "std::sync::Mutex", "std::sync::RwLock", "core::sync::atomic"))]
            run.ob("C15.R3", "freeze:" + a, not bad, "%s has no interior-mutability field" % a, sp=f.adts[a]["sp"], cfg=cfg)
        else:
            run.ob("C15.R3", "freeze:" + a, auto.get("Freeze") is True, "%s: Freeze" % a, sp=f.adts[a]["sp"], cfg=cfg)
        n += 1
    deny = ("get_mut", "make_mut", "get_mut_unchecked", "as_ptr", "into_raw", "from_raw", "increment_strong_count", "decrement_strong_count")
    nc = 0
    for name, fn in f.fns.items():
        if fn.get("kind") != "fn":
            continue
        for c in H.calls(fn["hir"]):
            cal = H.callee(c) or ""
            if cal.startswith("alloc::rc::Rc") or cal.startswith("alloc::sync::Arc"):
                nc += 1
                if cal.rsplit("::", 1)[-1] in deny:
                    run.ob("C15.R3", "rc-mutation:%s:%s" % (name, cal.rsplit("::", 1)[-1]), False,
                           "%s calls %s: a shared identifier could be mutated through a clone" % (name, cal), sp=c.get("sp"), cfg=cfg)
    run.ob("C15.R3", "rc-census", True, "%d Rc/Arc calls in the crate, none mutates through the shared pointer" % nc, cfg=cfg)


def clear_by_interp(run, f, cfg, name, fn, field, short):
    """interpret a clear_* / reset_* function on a statement of opaque markers: exactly `field` changes, to the value it has
    in a default-constructed statement.  True when decided"""
    from ..interp import Interp, Opaque, Unsupported, Diverged
    impl = f.impl_of(fn)
    adt = (impl or {}).get("self_adt")
    if not adt or adt not in f.adts:
        return False
    me = {x["name"]: Opaque("self." + x["name"]) for x in f.adts[adt]["variants"][0]["fields"]}
    before = dict(me)
    try:
        it = Interp(f)
        it.free_opaque = True
        it.call_fn(name, [me])
        dfl = f.impl_fn("core::default::Default", adt, "default")
        it2 = Interp(f)
        it2.free_opaque = True
        fresh = it2.call_fn(dfl, []) if dfl and dfl in f.fns else None
    except (Unsupported, Diverged) as e:
        run.notes.append("C15.R4 %s outside the interpreter's fragment (%s): decided on its MIR" % (short, e))
        return False
    if fresh is None or field not in fresh:
        return False
    changed = sorted(k for k in before if not _veq(me.get(k), before[k]))
    run.ob("C15.R4", "clear:%s:only-field" % short, changed == [field], "%s changes exactly the field `%s` (interpreted on a statement of opaque markers)" % (short, field),
           sp=fn["sp"], cfg=cfg, detail=changed)
    ok = _veq(me.get(field), fresh[field])
    run.ob("C15.R4", "clear:%s:empty" % short, ok, "%s leaves `%s` as in a default-constructed statement%s" % (short, field, "" if ok else " - NOT: %r" % (me.get(field),)),
           sp=fn["sp"], cfg=cfg)
    return True


def check_clear(run, f, cfg):
    n = 0
    for name, field in sorted(CLEARERS.items()):
        fn = f.fns.get(name)
        short = name.replace("crate::query::", "").replace("crate::query::ordered::", "")
        if fn is None or not fn.get("mir"):
            run.anchor("C15.R4", "clear:" + short, "%s not found" % name, cfg)
            continue
        n += 1
        if clear_by_interp(run, f, cfg, name, fn, field, short):
            continue
        b = M.Body(f, name)
        ws = M.self_writes(b)
        fields = sorted(set(w[2] for w in ws))
        run.ob("C15.R4", "clear:%s:only-field" % short, fields == [field], "%s writes exactly the field `%s`" % (short, field), sp=fn["sp"], cfg=cfg, detail=fields)
        # value written is empty
        ok = True
        what = []
        for bi, kind, fld, sp in ws:
            blk = b.blocks[bi]
            if kind == "assign":
                for s in blk["stmts"]:
                    if s["k"] == "assign" and s.get("sp") == sp:
                        e = b.dest_place(s["place"])
                        if isinstance(e, tuple) and e[0] == "field" and e[2] == fld:
                            rv = M.show(b.expand_def(("stmt", bi, 0, s["rv"])))
                            what.append(rv)
                            if not (rv in ("new()", "Option::None{}", "default()")):
                                ok = False
            elif kind == "borrow_mut":
                # must be passed to Vec::clear
                t = blk["term"]
                cal = (M.callee_of(t) or "") if t["k"] == "call" else ""
                what.append(cal)
                if not cal.endswith("::clear"):
                    ok = False
            else:
                ok = False
        run.ob("C15.R4", "clear:%s:empty" % short, ok and bool(ws), "%s stores the empty value (%s)" % (short, ", ".join(what)), sp=fn["sp"], cfg=cfg)
    run.floor("C15.R4", "clear-fns", n, 8, cfg)


def check(run):
    for cfg in run.tier_configs(["default", "all"], ["mysql", "postgres", "sqlite"]):
        f = run.facts(cfg)
        takers = check_take(run, f, cfg)
        roots = set(takers) | {"crate::query::insert::InsertStatement", "crate::query::update::UpdateStatement",
                                "crate::query::delete::DeleteStatement", "crate::query::with::WithQuery"}
        roots = set(r for r in roots if r in f.adts)
        cl = check_derives(run, f, cfg, roots)
        check_sharing(run, f, cfg, cl)
        check_clear(run, f, cfg)
    run.assumptions.append("derive(Clone)/derive(PartialEq) expansions are field-wise (compiler-generated)")
    run.assumptions.append("'renders identically' follows from equality of all fields because renderers read only the statement (C02.R4)")
