"""Grammar refinement: the set of token strings a renderer can write (its linked template IR, an over-approximation
with all guards free) is compiled into an NFA over SQL tokens and checked for inclusion in the dialect's grammar
skeleton (specs/<dialect>.ebnf).  A counterexample is a shortest token string the renderer can emit that the grammar
rejects, reported with the code location that writes the offending token."""
import os
import re

from . import hir as H
from . import link as L
from . import stmt
from . import tir as T
from .automata import NFA, included
from .core import Anchor
from .ebnf import Grammar
from .facts import VERIF, walk

# renderer (method name) -> nonterminal symbol at which the expansion is cut
NONTERMINALS = {
    "prepare_simple_expr": "<expr>", "prepare_simple_expr_common": "<expr>", "prepare_select_statement": "<select>",
    "prepare_query_statement": "<query>", "prepare_value": "<value>", "prepare_column_ref": "<column_ref>",
    "prepare_table_ref": "<table_ref>", "prepare_table_ref_table_stmt": "<table_name>", "prepare_table_ref_index_stmt": "<table_name>",
    "prepare_table_ref_fk_stmt": "<table_name>", "prepare_table_ref_iden": "<table_name>",
    "prepare_column_type": "<type>", "prepare_column_auto_increment": "<type>", "prepare_column_type_check_auto_increment": "<type>",
    "prepare_constant": "<value>", "prepare_function_name": "<function>", "prepare_function_arguments": "<arguments>",
    "prepare_condition_where": "<expr>", "prepare_type_ref": "<type_ref>",
    "prepare_bin_oper": "<binop>", "prepare_un_oper": "<unop>", "prepare_sub_query_oper": "<subop>", "prepare_keyword": "<keyword>",
    "prepare_with_query": "<query>", "prepare_insert_statement": "<query>", "prepare_update_statement": "<query>", "prepare_delete_statement": "<query>",
}

HOLE_SYMBOL = {
    "IDEN_QUOTED": "<iden>", "QUOTE_L": "<ql>", "QUOTE_R": "<qr>", "IDEN_QUOTED_BODY": "<iden-body>", "VALUE_PARAM": "<value>",
    "NUM": "<num>", "FLOAT": "<num>", "HEX2": "<hex>", "BOOL": "<raw>", "ESCAPED_STR": "<escaped>", "FMT_SAFE": "<raw>",
    "STR": "<raw>", "IDEN_RAW": "<raw-iden>", "IDEN_DISPLAY": "<raw-iden>", "DISPLAY": "<raw>", "UNKNOWN": "<raw>", "FORMATTED": "<raw>", "CHAR": "<raw>",
}

LEX = re.compile(r"\s*(?:([A-Za-z_][A-Za-z_0-9]*)|([0-9]+)|(<>|<=|>=|!=|\|\||::|[^\sA-Za-z_0-9]))")


def lex(text):
    out = []
    pos = 0
    while pos < len(text):
        if text[pos:].strip() == "":
            break
        m = LEX.match(text, pos)
        if not m:
            raise Anchor("cannot lex literal %r" % text)
        pos = m.end()
        if m.group(1):
            out.append(m.group(1).upper())
        elif m.group(2):
            out.append("<num>")
        else:
            out.append(m.group(3))
    return out


def variant_test(ge):
    """(pattern, scrutinee) of a boolean test of the form `let PAT = X` or `matches!(X, PAT)`"""
    if not isinstance(ge, dict):
        return None
    if ge.get("k") == "let":
        return ge.get("pat") or {}, ge.get("init")
    if ge.get("k") == "match" and "matches" in (ge.get("mac") or []) and len(ge.get("arms") or []) == 2:
        a0, a1 = ge["arms"]
        b0, b1 = H.peel_ref(a0["body"]), H.peel_ref(a1["body"])
        if a0.get("guard") is None and a1["pat"].get("k") == "wild" and b0.get("k") == "lit" and b0["lit"].get("v") is True and \
                b1.get("k") == "lit" and b1["lit"].get("v") is False:
            return a0["pat"], ge["scrut"]
    return None


def _sep_loop(x):
    """(flag guard text, separator S, body items) of a loop whose iteration starts with `if !flag { write SEP }`"""
    if x[0] not in ("loop", "star", "star1"):
        return None
    items = [y for y in T.flat(x[1]) if y != ("seq", [])]
    if not items or items[0][0] != "alt" or len(items[0][1]) != 2:
        return None
    (g1, b1), (g2, b2) = items[0][1]
    e1 = b1[0] == "seq" and not b1[1]
    e2 = b2[0] == "seq" and not b2[1]
    sepb, g = (b1, g1) if e2 and not e1 else ((b2, g2) if e1 and not e2 else (None, None))
    if sepb is None or not all(a[0] == "lit" for a in T.atoms(sepb)) or not stmt.SEP_GUARD_STRICT.search((g.get("text") or "").strip()):
        return None
    return (g.get("text") or "").strip(), sepb, ("seq", items[1:])


def sepchain(S):
    """consecutive loops that share one first-flag (`let mut first = true; xs.for_each(|x| {if !first {", "} ..; first = false}); ys.for_each(..)`)
    render ONE separated list: rewrite them into ("sepchain", [(body, sep), ...]).  The flag discipline itself (set to false
    after every element, never reset) is what the separator rule R2 decides."""
    k = S[0]
    if k == "seq":
        items = [y for y in T.flat(S) if y != ("seq", [])]
        out = []
        i = 0
        while i < len(items):
            a = _sep_loop(items[i])
            if a is not None:
                group = [a]
                j = i + 1
                while j < len(items):
                    b = _sep_loop(items[j])
                    if b is None or b[0] != a[0]:
                        break
                    group.append(b)
                    j += 1
                if len(group) > 1:
                    out.append(("sepchain", [(sepchain(body), sep) for _, sep, body in group]))
                    i = j
                    continue
            out.append(sepchain(items[i]))
            i += 1
        return ("seq", out)
    if k == "alt":
        return ("alt", [(g, sepchain(x)) for g, x in S[1]])
    if k in ("loop", "star", "star1"):
        return (k, sepchain(S[1])) + tuple(S[2:])
    return S


class Builder:
    def __init__(self, f, dialect, entry_name):
        self.f = f
        self.linker = L.Linker(f, dialect)
        self.dialect = dialect
        self.a = NFA()
        self.stack = []
        self.entry_name = entry_name
        self.fixed = {}          # correlated boolean guards of the current function activation: guard text -> taken
        self.bind = {}           # &str parameters of the current activation bound to a string literal by the caller
        self.assigned = set()
        self.loop_ends = []
        self.iter_state = {}
        self.idx_lens = {}       # loop index -> names / texts that denote the length of the list it runs over
        self.last_lit = None
        self._ords = {}
        self.pending = {}        # closure span -> its write template (a closure defined here and handed to a callee)
        self.clos = {}           # parameter of the current activation -> (template, defining function) of the closure it was given
        self.cvar = {}           # local -> the unit enum variant (def path) it is known to hold (constant argument of the caller)
        self.excl = {}           # local -> enum variants it cannot hold here (an enclosing / calling match took them elsewhere)
        import json
        self.domain = {(e["fn"], e["guard"]): e["value"] for e in json.load(open(os.path.join(VERIF, "specs", "domain.json")))["entries"] if e["dialect"] == dialect}
        self.domain_used = set()

    def fn_fragment(self, fname, sink, s, e, top=False, bind=None, excl=None, cvar=None, clos=None, fixed=None):
        # a generic helper that is handed a closure may be entered again from inside that closure with another closure
        # (`write_list(rows, |row| write_list(row, |cell| ..))`): that is nesting, not recursion
        ckey = tuple(sorted((k_, id(v_[0]) if isinstance(v_, tuple) else id(v_)) for k_, v_ in (clos or {}).items()))
        if (fname, sink, ckey) in self.stack:
            raise Anchor("recursion through %s is not cut by a nonterminal" % fname)
        if len(self.stack) > 24:
            raise Anchor("expansion too deep at %s" % fname)
        self.stack.append((fname, sink, ckey))
        t, S = self.linker.body(fname, sink, keep_sets=True)
        S = stmt.sepify(sepchain(S), strict=True)
        if S[0] != "seq":
            S = ("seq", [S])        # the sequence-level idioms (first / rest iterators, correlated guards) apply to a lone statement too
        saved = (self.fixed, self.bind, self.assigned, self.excl, self.cvar, self.clos, self.pending)
        self.clos = dict(clos or {})
        self.pending = {}
        self.fixed, self.bind = dict(fixed or {}), dict(bind or {})
        self.excl = dict(excl or {})
        self.cvar = dict(cvar or {})
        self.assigned = {H.place(n["l"]) for n in walk(t.body) if n.get("k") in ("assign", "assignop") and n.get("l") is not None}
        self.build(S, s, e, e, fname)
        self.fixed, self.bind, self.assigned, self.excl, self.cvar, self.clos, self.pending = saved
        self.stack.pop()

    def corr_guard(self, x):
        """guard text of a two-way `if flag {..} else {..}` on an immutable boolean local, else None"""
        if x[0] != "alt" or len(x[1]) != 2:
            return None
        (g1, _), (g2, _) = x[1]
        if g1.get("text") != g2.get("text") or "taken" not in g1 or "taken" not in g2 or g1["taken"] == g2["taken"]:
            return None
        e = g1.get("e")
        neg = False
        while isinstance(e, dict) and e.get("k") == "unary" and e.get("op") in ("Not", "!", "not"):
            e = e["e"]
        e = H.peel_ref(e) if isinstance(e, dict) else e
        if not (isinstance(e, dict) and e.get("k") == "local"):
            return None
        if e["name"] in self.assigned:
            return None
        return g1["text"]

    def ordinal(self, fname, callee, sp):
        """1-based position of this call site among the calls to `callee` in `fname`, in source order (0 when it is the only one)"""
        key = (fname, callee)
        if key not in self._ords:
            fn = self.f.fns.get(fname) or {}
            sps = []
            for c in H.calls(fn.get("hir") or {}):
                if (c.get("callee") or "") == callee and c.get("sp"):
                    sps.append(c["sp"])

            def pos(x):
                parts = x.rsplit(":", 2)
                try:
                    return (parts[0], int(parts[1]), int(parts[2]))
                except (ValueError, IndexError):
                    return (x, 0, 0)
            self._ords[key] = sorted(set(sps), key=pos)
        lst = self._ords[key]
        if len(lst) <= 1 or sp not in lst:
            return 0
        return lst.index(sp) + 1

    def array_len(self, info, fname=None):
        it_e = (info or {}).get("e") if isinstance(info, dict) else None
        it_e = H.peel_ref(it_e) if isinstance(it_e, dict) else it_e
        while isinstance(it_e, dict) and it_e.get("k") == "mcall" and it_e["name"] in ("iter", "into_iter", "enumerate") and not it_e["args"]:
            it_e = H.peel_ref(it_e["recv"])
        if fname and isinstance(it_e, dict) and it_e.get("k") == "local" and it_e.get("name") not in self.assigned:
            # `let bounds = [lo, hi];` - an immutable local holding an array literal
            inits = [n for n in walk((self.f.fns.get(fname) or {}).get("hir") or {})
                     if n.get("k") == "stmt_let" and n["pat"].get("k") == "bind" and n["pat"].get("name") == it_e["name"]]
            if len(inits) == 1 and not inits[0]["pat"].get("mut") and isinstance(inits[0].get("init"), dict) and H.peel_ref(inits[0]["init"]).get("k") == "array":
                it_e = H.peel_ref(inits[0]["init"])
        if isinstance(it_e, dict) and it_e.get("k") == "array":
            return len(it_e.get("es") or [])
        return 0

    def variant_of(self, node):
        """the enum variant a constant expression denotes: a unit variant path, `&Variant`, or a local known to hold one"""
        v = H.peel_ref(node)
        if not isinstance(v, dict):
            return None
        if v.get("k") == "path" and v.get("ctor_kind") == "Variant" and "Const" in (v.get("dk") or ""):
            return v.get("def")
        if v.get("k") == "local" and v.get("name") in self.cvar and v["name"] not in self.assigned:
            return self.cvar[v["name"]]
        return None

    def const_guard(self, gd):
        """value of `x == Variant` / `x != Variant` / `matches!(x, Variant)` when x is known to hold a unit variant"""
        e = gd.get("e")
        if not isinstance(e, dict) or "taken" not in gd:
            return None
        if e.get("k") == "binary" and e.get("op") in ("==", "!="):
            l, r = self.variant_of(e["l"]), self.variant_of(e["r"])
            if l is not None and r is not None:
                return (l == r) if e["op"] == "==" else (l != r)
        return None

    IDX_REPS = {
        # position class of an enumerate loop over a list of n >= 1 elements -> representative (index, n) pairs
        "#first": [(0, 1), (0, 2), (0, 5)], "#rest": [(1, 2), (1, 3), (2, 3), (4, 5)],
        "#only": [(0, 1)], "#head": [(0, 2), (0, 3), (0, 5)], "#middle": [(1, 3), (2, 5), (3, 5)], "#last": [(1, 2), (2, 3), (4, 5)],
    }

    def _eval_idx(self, e, idx, i, n, lens):
        """value of an integer / boolean expression over a loop index and the length of the iterated list; KeyError if the
        expression mentions anything else"""
        e = H.peel_ref(H.peel(e)) if isinstance(e, dict) else e
        k = e.get("k")
        if k == "lit" and e["lit"]["t"] in ("int", "bool"):
            return e["lit"]["v"]
        if k == "local":
            if e["name"] == idx:
                return i
            if e["name"] in lens:
                return n
            raise KeyError(e["name"])
        if k == "cast":
            return self._eval_idx(e["e"], idx, i, n, lens)
        if k == "mcall" and e["name"] == "len" and not e["args"] and ("*" in lens or T.text(e["recv"]) in lens):
            return n
        if k == "unary" and e["op"] == "not":
            return not self._eval_idx(e["e"], idx, i, n, lens)
        if k == "binary":
            l, r = self._eval_idx(e["l"], idx, i, n, lens), self._eval_idx(e["r"], idx, i, n, lens)
            op = e["op"]
            if op in ("&&", "||"):
                return (l and r) if op == "&&" else (l or r)
            if isinstance(l, bool) or isinstance(r, bool):
                raise KeyError("bool arithmetic")
            return {"+": l + r, "-": l - r, "<": l < r, "<=": l <= r, ">": l > r, ">=": l >= r, "==": l == r, "!=": l != r}[op]
        raise KeyError(k)

    def peek_guard(self, gd):
        """value of `it.peek().is_some()` / `.is_none()` inside a loop over the iterator local `it`, per position class"""
        ge = gd.get("e")
        if "taken" not in gd or not isinstance(ge, dict):
            return None
        neg = False
        ge = H.peel_ref(ge)
        while ge.get("k") == "unary" and ge.get("op") == "not":
            neg, ge = not neg, H.peel_ref(ge["e"])
        if ge.get("k") == "mcall" and ge.get("name") in ("is_some", "is_none") and not ge.get("args"):
            r = H.peel_ref(ge["recv"])
            if r.get("k") == "mcall" and r.get("name") == "peek" and not r.get("args") and H.peel_ref(r["recv"]).get("k") == "local":
                cls = self.bind.get("@peek:" + H.peel_ref(r["recv"])["name"])
                if cls in ("#only", "#last", "#head", "#middle"):
                    more = cls in ("#head", "#middle")
                    v = more if ge["name"] == "is_some" else not more
                    return v != neg
        return None

    def peek_aware(self, S, itname):
        def guards(x):
            if not isinstance(x, tuple) or not x:
                return
            if x[0] == "seq":
                for y in x[1]:
                    yield from guards(y)
            elif x[0] == "alt":
                for g, b in x[1]:
                    yield g
                    yield from guards(b)
            elif x[0] in ("loop", "star", "star1", "sepby"):
                yield from guards(x[1])
        for g in guards(S):
            ge = g.get("e")
            if isinstance(ge, dict) and any(n_.get("k") == "mcall" and n_.get("name") == "peek" and H.peel_ref(n_["recv"]).get("k") == "local" and
                                            H.peel_ref(n_["recv"])["name"] == itname for n_ in walk(ge)):
                return True
        return False

    def index_guard(self, gd):
        """value of a guard on the index of an enclosing enumerate loop - `i > 0`, `i >= 1`, `i != 0`, `i + 1 < n`,
        `i == xs.len() - 1` ... - when it is the same for every (index, length) of the position class being built"""
        ge = gd.get("e")
        if "taken" not in gd or not isinstance(ge, dict):
            return None
        names = set(n_["name"] for n_ in walk(ge) if n_.get("k") == "local")
        for idx in names:
            cls = self.bind.get(idx)
            if cls not in self.IDX_REPS:
                continue
            lens = self.idx_lens.get(idx, set())
            try:
                vals = set(bool(self._eval_idx(ge, idx, i, n, lens)) for i, n in self.IDX_REPS[cls])
            except (KeyError, TypeError):
                return None
            if len(vals) == 1:
                return vals.pop()
            return None
        return None

    def last_aware(self, S, idx, lens):
        """does the loop body test its index against the length of the list (`i + 1 < n`)"""
        def guards(x):
            if not isinstance(x, tuple) or not x:
                return
            if x[0] == "seq":
                for y in x[1]:
                    yield from guards(y)
            elif x[0] == "alt":
                for g, b in x[1]:
                    yield g
                    yield from guards(b)
            elif x[0] in ("loop", "star", "star1", "sepby"):
                yield from guards(x[1])
        for g in guards(S):
            ge = g.get("e")
            if not isinstance(ge, dict):
                continue
            locs = set(n_["name"] for n_ in walk(ge) if n_.get("k") == "local")
            has_len = bool(locs & lens) or any(n_.get("k") == "mcall" and n_["name"] == "len" and T.text(n_["recv"]) in lens for n_ in walk(ge))
            if idx in locs and has_len:
                return True
        return False

    def build_fold_table(self, S, s, e, fn_end, fname):
        """a `fold(flag, |flag, element| ..)` over an enum whose separator logic is more than `if !first`: the closure is
        tabulated by abstract interpretation per (flag value, element variant) - what is written and the flag returned -
        and becomes a two-state automaton"""
        from .interp import Interp, Opaque, Var, Unsupported, Diverged, _Continue
        info = S[2]
        for_mode = info.get("kind") == "for"
        if for_mode:
            # `for element in xs { if !flag .. {sep}; match element {..}; flag = .. }` with a mutable flag of the enclosing function
            body_hir = info.get("body")
            pat = info.get("pat") or {}
            subs = pat.get("subs") or []
            if body_hir is None or len(subs) != 1 or subs[0].get("k") != "bind":
                return False
            elem = subs[0]["name"]
            assigned_in = {H.place(n["l"]) for n in walk(body_hir) if n.get("k") in ("assign", "assignop") and n.get("l") is not None}
            cond_names = set()
            for n in walk(body_hir):
                if n.get("k") == "if":
                    for m in walk(n["cond"]):
                        if m.get("k") == "local" and (self.f.ty(m.get("ty")) or "") == "bool":
                            cond_names.add(m["name"])
            flags = sorted(assigned_in & cond_names)
            if len(flags) != 1:
                return False
            flag = flags[0]
            ety = None
            for n in walk(body_hir):
                if n.get("k") == "local" and n.get("name") == elem:
                    ety = (self.f.ty(n.get("ty")) or "").lstrip("&")
                    break
            adt = ety
            body_node = body_hir
        else:
            clo = info.get("closure") or {}
            params = clo.get("params") or []
            if len(params) != 2 or any(p["pat"].get("k") != "bind" for p in params):
                return False
            flag, elem = params[0]["pat"]["name"], params[1]["pat"]["name"]
            if (self.f.ty(params[0].get("ty")) or "") != "bool":
                return False
            adt = (self.f.ty(params[1].get("ty")) or "").lstrip("&")
            body_node = clo["body"]
        if adt not in self.f.adts or self.f.adts[adt].get("kind") != "enum":
            return False
        sinks = set(T.fn_tir(self.f, fname).sinks)
        atoms = {}
        for at in T.atoms(S[1]):
            if len(at) > 3 and at[3]:
                atoms.setdefault(at[3], at)

        def hands_sink(e_):
            args = ([e_["recv"]] if e_.get("k") == "mcall" else []) + list(e_.get("args") or [])
            for a_ in args:
                pa = H.peel_ref(a_)
                while isinstance(pa, dict) and pa.get("k") == "mcall" and pa["name"] in ("as_writer",):
                    pa = H.peel_ref(pa["recv"])
                if isinstance(pa, dict) and pa.get("k") == "local" and pa.get("name") in sinks:
                    return True
            return False

        def unknown(it, e_, env, depth):
            if hands_sink(e_) and not (e_.get("k") == "mcall" and e_["name"] == "as_writer"):
                it.out.append(("@", e_.get("sp")))
            return Opaque("call")
        rows = {}
        for v in self.f.adts[adt]["variants"]:
            for fv in (True, False):
                it = Interp(self.f, unknown_call=unknown)
                it.free_opaque = True
                it.opaque_call = hands_sink
                env = {flag: fv, elem: Var(v["def"], [Opaque("x")] * len(v["fields"]))}
                for sk in sinks:
                    env[sk] = Opaque("sink")
                try:
                    try:
                        r = it.ev(body_node, env)
                    except _Continue:
                        r = None        # `continue`: the iteration ends here
                    if for_mode:
                        r = env.get(flag)
                except Diverged:
                    continue
                except Unsupported:
                    return False
                if not isinstance(r, bool):
                    return False
                rows[(fv, v["name"])] = (list(it.out), r)
        # initial flag
        init = info.get("init") if not for_mode else {"k": "local", "name": flag}
        iv = H.peel_ref(init) if isinstance(init, dict) else None
        starts = None
        if isinstance(iv, dict) and iv.get("k") == "lit" and iv["lit"]["t"] == "bool":
            starts = [bool(iv["lit"]["v"])]
        elif isinstance(iv, dict) and iv.get("k") == "local":
            key = self.option_flag(fname, iv["name"], allow_assigned=for_mode)
            if key is not None and key[0] in self.fixed:
                some = self.fixed[key[0]]
                starts = [(not some) if key[1] == "is_none" else some]
        if starts is None:
            starts = [True, False]
        a = self.a
        Q = {True: a.state(), False: a.state()}
        for st in starts:
            a.add_eps(s, Q[st])
        done = a.state()
        vdef = {v["name"]: v["def"] for v in self.f.adts[adt]["variants"]}
        for (fv, vn), (out, r) in rows.items():
            cur = Q[fv]
            old_cv = self.cvar.get(elem)
            self.cvar[elem] = vdef[vn]        # renderers called in this row see the element as this variant
            for item in out:
                nxt = a.state()
                if item[0] == "@":
                    at = atoms.get(item[1])
                    if at is None:
                        a.add(cur, "<raw>", nxt, {"fn": fname, "call": "?", "sp": item[1]})
                    else:
                        self.build(at, cur, nxt, fn_end, fname)
                else:
                    text = item[1]
                    if not isinstance(text, str):
                        a.add(cur, "<raw>", nxt, {"fn": fname, "buf": "?"})
                    else:
                        parts = [p_ for p_ in re.split(r"(<[A-Za-z_][A-Za-z_0-9:]*>)", text) if p_ != ""]
                        c2 = cur
                        for pi_, part in enumerate(parts):
                            n2 = nxt if pi_ == len(parts) - 1 else a.state()
                            if re.fullmatch(r"<[A-Za-z_][A-Za-z_0-9:]*>", part):
                                a.add(c2, "<raw>", n2, {"fn": fname, "lit": text})
                            else:
                                self.lit(part, c2, n2, {"fn": fname, "lit": text})
                            c2 = n2
                        if not parts:
                            a.add_eps(cur, nxt)
                cur = nxt
            if old_cv is None:
                self.cvar.pop(elem, None)
            else:
                self.cvar[elem] = old_cv
            a.add_eps(cur, Q[r])
            a.add_eps(cur, done)
        a.add_eps(done, e)
        return True

    def option_flag(self, fname, name, allow_assigned=False):
        """`let name = PLACE.is_none()` / `.is_some()`: ("some:PLACE", method)"""
        fn = self.f.fns.get(fname)
        if not fn or (name in self.assigned and not allow_assigned):
            return None
        found = None
        for n in walk(fn["hir"]):
            if n.get("k") == "stmt_let" and n["pat"].get("k") == "bind" and n["pat"].get("name") == name and n.get("init") is not None:
                if found is not None:
                    return None
                iv = H.peel_ref(n["init"])
                if iv.get("k") == "mcall" and iv["name"] in ("is_none", "is_some") and not iv["args"]:
                    pl = H.place(iv["recv"])
                    if pl:
                        found = ("some:" + pl.lstrip("*&"), iv["name"])
        return found

    def next_guard(self, x):
        """name of the iterator local of a two-way `if let Some(..) = it.next()`"""
        if x[0] != "alt" or len(x[1]) != 2:
            return None
        for g, b in x[1]:
            ge = g.get("e")
            if g.get("taken") is True and isinstance(ge, dict) and ge.get("k") == "let":
                pt = ge.get("pat") or {}
                iv = H.peel_ref(ge.get("init")) if isinstance(ge.get("init"), dict) else None
                if (pt.get("path") or {}).get("def") == "core::option::Option::Some" and isinstance(iv, dict) and iv.get("k") == "mcall" \
                        and iv["name"] == "next" and not iv["args"]:
                    r = H.peel_ref(iv["recv"])
                    if isinstance(r, dict) and r.get("k") == "local":
                        return r["name"]
        return None

    def loops_over_inside(self, x, name, depth=0):
        """does the tree contain a loop over the iterator local `name` (`if let Some(h) = it.next() { ..; for y in it {..} }`)"""
        if not isinstance(x, tuple) or not x or depth > 8:
            return False
        if self.loop_over(x) == name:
            return True
        k = x[0]
        if k == "seq":
            return any(self.loops_over_inside(y, name, depth + 1) for y in x[1])
        if k == "alt":
            return any(self.loops_over_inside(b, name, depth + 1) for _, b in x[1])
        if k in ("loop", "star", "star1", "sepby"):
            return self.loops_over_inside(x[1], name, depth + 1)
        return False

    def first_of_list(self, gd):
        """is the guard `let Some(..) = X.split_first()` / `.first()` / `.split_last()` / `.last()` (X not an iterator)"""
        ge = gd.get("e")
        if not (isinstance(ge, dict) and ge.get("k") == "let"):
            return False
        pt = ge.get("pat") or {}
        iv = H.peel_ref(ge.get("init")) if isinstance(ge.get("init"), dict) else None
        return (pt.get("path") or {}).get("def") == "core::option::Option::Some" and isinstance(iv, dict) and iv.get("k") == "mcall" and \
            iv["name"] in ("split_first", "first", "split_last", "last") and not iv["args"]

    def loop_over(self, y):
        if y[0] not in ("loop", "star", "star1") or len(y) < 3 or not isinstance(y[2], dict):
            return None
        it_e = y[2].get("e")
        while isinstance(it_e, dict) and it_e.get("k") == "mcall" and it_e["name"] in ("into_iter", "enumerate", "by_ref") and not it_e["args"]:
            it_e = H.peel_ref(it_e["recv"])
        it_e = H.peel_ref(it_e) if isinstance(it_e, dict) else None
        if isinstance(it_e, dict) and it_e.get("k") == "local":
            return it_e["name"]
        return None

    def fold_depends(self, y, key, fname):
        if y[0] != "loop" or not isinstance(y[2], dict) or y[2].get("kind") not in ("fold", "for"):
            return False
        if y[2].get("kind") == "for":
            body_hir = y[2].get("body")
            if body_hir is None:
                return False
            for nm in {H.place(n["l"]) for n in walk(body_hir) if n.get("k") in ("assign", "assignop") and n.get("l") is not None}:
                k2 = self.option_flag(fname, nm, allow_assigned=True) if nm else None
                if k2 is not None and k2[0] == key:
                    return True
            return False
        iv = H.peel_ref(y[2]["init"]) if isinstance(y[2].get("init"), dict) else None
        if isinstance(iv, dict) and iv.get("k") == "local":
            k2 = self.option_flag(fname, iv["name"])
            return k2 is not None and k2[0] == key
        return False

    def call_some_guards(self, x):
        """keys "some:ARG.field" for the two-way `let Some(..) = PARAM.field` tests at the top level of a callee that is handed
        the local ARG as PARAM"""
        if x[0] != "call" or not isinstance(x[2], dict):
            return []
        try:
            target = self.linker.resolve(x[1], x[2])
            cs = self.linker.callee_sink(target, x[2]) if target is not None else None
            if cs is None:
                return []
            tt = T.fn_tir(self.f, target)
            t, S = self.linker.body(target, cs, keep_sets=True)
            S = stmt.sepify(sepchain(S), strict=True)
        except Exception:
            return []
        out = []
        items = list(S[1]) if S[0] == "seq" else [S]
        flat = []
        for y in items:
            flat += list(y[1]) if y[0] == "seq" else [y]
        for y in flat:
            sg = self.some_guard(y)
            if not sg:
                continue
            place = sg[len("some:"):]
            root = place.split(".")[0]
            for i, an in enumerate(x[2].get("arg_nodes") or []):
                v = H.peel_ref(an) if isinstance(an, dict) else None
                if isinstance(v, dict) and v.get("k") == "local" and i < len(tt.params) and tt.params[i][0] == root and "." in place:
                    out.append("some:" + v["name"] + place[len(root):])
        return out

    def some_guard(self, x):
        """key "some:PLACE" of a two-way `if let Some(..) = PLACE`"""
        if x[0] != "alt" or len(x[1]) != 2:
            return None
        for g, b in x[1]:
            ge = g.get("e")
            if g.get("taken") is True and isinstance(ge, dict) and (ge.get("k") == "let" or (ge.get("k") == "stmt_let" and ge.get("els") is not None)):
                pt = ge.get("pat") or {}
                if (pt.get("path") or {}).get("def") == "core::option::Option::Some":
                    pl = H.place(ge.get("init"))
                    if pl:
                        return "some:" + pl.lstrip("*&")
        return None

    def let_else_payload(self, x):
        """for `let V(inner) = scrut else {..}` where the caller excluded variants of the payload of `scrut` (paths (V, W)):
        (inner name, {(W,) ..}); None otherwise"""
        if x[0] != "alt" or len(x[1]) != 2:
            return None
        for g, b in x[1]:
            ge = g.get("e")
            if g.get("taken") is True and isinstance(ge, dict) and ge.get("k") == "stmt_let" and ge.get("els") is not None and isinstance(ge.get("init"), dict):
                pt = ge.get("pat") or {}
                pd = (pt.get("path") or {}).get("def")
                subs = pt.get("subs") or []
                scr = (H.place(ge["init"]) or "").lstrip("*&")
                if pt.get("k") == "variant" and pd and len(subs) == 1 and subs[0].get("k") == "bind" and scr and scr not in self.assigned:
                    ex = self.excl.get(scr, ())
                    inner = {q[1:] for q in ex if len(q) == 2 and q[0] == pd}
                    if inner:
                        return subs[0]["name"], inner
        return None

    def let_escape(self, x):
        """`if let VARIANT = local { continue / return }` with nothing else: (local, variant path, escaping branch)"""
        if x[0] != "alt" or len(x[1]) != 2:
            return None
        t_ = [(g, b) for g, b in x[1] if g.get("taken") is True]
        f_ = [(g, b) for g, b in x[1] if g.get("taken") is False]
        if len(t_) != 1 or len(f_) != 1:
            return None
        g, b = t_[0]
        ge = g.get("e")
        vt = variant_test(ge)
        if vt is None:
            return None
        if [y for y in T.flat(f_[0][1]) if y != ("seq", [])]:
            return None
        body = [y for y in T.flat(b) if y != ("seq", [])]
        if len(body) != 1 or body[0][0] != "ctl" or body[0][1] not in ("continue", "ret"):
            return None
        pt, init_ = vt
        if pt.get("k") != "variant" or not all(z.get("k") in ("bind", "wild") for z in pt.get("subs") or []):
            return None
        scr = (H.place(init_) or "").lstrip("*&")
        pd = (pt.get("path") or {}).get("def")
        if not scr or not pd or scr in self.assigned:
            return None
        return scr, (pd,), b

    def build_seq(self, items, s, e, fn_end, fname):
        a = self.a
        if not items:
            a.add_eps(s, e)
            return
        cur = s
        for i, x in enumerate(items):
            g = self.corr_guard(x)
            if g is not None and g not in self.fixed and any(self.corr_guard(y) == g for y in items[i + 1:]):
                for val in (True, False):
                    self.fixed[g] = val
                    self.build_seq(items[i:], cur, e, fn_end, fname)
                    del self.fixed[g]
                return
            nx = self.next_guard(x)
            if nx is not None and nx not in self.iter_state and (any(self.loop_over(y) == nx for y in items[i + 1:]) or self.loops_over_inside(x, nx)):
                # `if let Some(x) = it.next() {..}  for x in it {..}`: the loop runs only if the first element existed
                for val in ("rest",):     # clause lists are taken as non-empty where they are rendered (as for plain loops)
                    self.iter_state[nx] = val
                    self.build_seq(items[i:], cur, e, fn_end, fname)
                    del self.iter_state[nx]
                return
            sg = self.some_guard(x)
            if sg is None:
                # the same test made inside a helper that is handed the struct (`self.write_type_clause(column_def, sql)` starting
                # with `let Some(t) = &column_def.types else { return }`)
                for cg in self.call_some_guards(x):
                    if cg not in self.fixed and any(self.fold_depends(y, cg, fname) for y in items[i + 1:]):
                        sg = cg
                        break
            if sg is not None and sg not in self.fixed and any(self.fold_depends(y, sg, fname) for y in items[i + 1:]):
                for val in (True, False):
                    self.fixed[sg] = val
                    self.build_seq(items[i:], cur, e, fn_end, fname)
                    del self.fixed[sg]
                return
            lx = self.let_else_payload(x)
            if lx is not None:
                # `let Some(inner) = scrut else { return };`: what the caller excluded for the payload of `scrut` holds for `inner`
                nm, inner = lx
                nxt = e if i == len(items) - 1 else a.state()
                self.build(x, cur, nxt, fn_end, fname)
                old = self.excl.get(nm)
                self.excl[nm] = set(old or ()) | inner
                self.build_seq(items[i + 1:], nxt, e, fn_end, fname)
                if old is None:
                    self.excl.pop(nm, None)
                else:
                    self.excl[nm] = old
                return
            le = self.let_escape(x)
            if le is not None:
                scr, pp, esc = le
                self.build(esc, cur, a.state(), fn_end, fname)      # the escaping branch (continue / return) leaves this sequence
                old = self.excl.get(scr)
                self.excl[scr] = set(old or ()) | {pp}
                self.build_seq(items[i + 1:], cur, e, fn_end, fname)
                if old is None:
                    del self.excl[scr]
                else:
                    self.excl[scr] = old
                return
            nxt = e if i == len(items) - 1 else a.state()
            self.build(x, cur, nxt, fn_end, fname)
            cur = nxt

    def build(self, S, s, e, fn_end, fname):
        a = self.a
        k = S[0]
        if k == "seq":
            items = []

            def flat(x):
                if x[0] == "seq":
                    for y in x[1]:
                        flat(y)
                else:
                    items.append(x)
            flat(S)
            self.build_seq(items, s, e, fn_end, fname)
        elif k == "alt":
            if not S[1]:
                a.add_eps(s, e)
            g = self.corr_guard(S)
            sgk = self.some_guard(S)
            nxk = self.next_guard(S)
            scrut = None
            specific = set()

            def irrefutable(ps):
                return all(x.get("k") in ("bind", "wild") for x in ps or [])

            def pat_path(pt):
                """(variant,) or (variant, inner variant) for a pattern that matches exactly that shape, else None"""
                if pt.get("k") != "variant":
                    return None
                pd = (pt.get("path") or {}).get("def")
                subs = pt.get("subs") or []
                if pd is None:
                    return None
                if irrefutable(subs):
                    return (pd,)
                if len(subs) == 1 and subs[0].get("k") == "variant" and irrefutable(subs[0].get("subs")):
                    ipd = (subs[0].get("path") or {}).get("def")
                    return (pd, ipd) if ipd else None
                return None
            def pat_paths(pt):
                """all shapes an or-pattern of variants matches exactly, else []"""
                while pt.get("k") in ("ref", "deref") and isinstance(pt.get("sub"), dict):
                    pt = pt["sub"]
                if pt.get("k") == "or":
                    out_ = []
                    for alt_ in pt.get("alts") or []:
                        q = pat_paths(alt_)
                        if not q:
                            return []
                        out_ += q
                    return out_
                q = pat_path(pt)
                return [q] if q else []
            for gd, x in S[1]:
                if isinstance(gd.get("scrut"), dict) and isinstance(gd.get("pat"), dict):
                    scrut = (H.place(gd["scrut"]) or "").lstrip("*&") or None
                    if gd.get("arm_guard") is None:
                        for pp in pat_paths(gd["pat"]):
                            specific.add(pp)
            for gd, x in S[1]:
                if g is not None and g in self.fixed and gd["taken"] != self.fixed[g]:
                    continue
                if sgk is not None and sgk in self.fixed and gd.get("taken") is not None and gd["taken"] != self.fixed[sgk]:
                    continue
                if nxk is not None and nxk in self.iter_state and gd.get("taken") is not None and gd["taken"] != (self.iter_state[nxk] == "rest"):
                    continue
                if gd.get("taken") is False and self.first_of_list(gd):
                    continue        # `if let Some((first, rest)) = xs.split_first()`: clause lists are taken as non-empty
                pt_, sc_ = gd.get("pat"), scrut
                ge = gd.get("e")
                if not isinstance(pt_, dict) and isinstance(ge, dict) and ge.get("k") == "let" and gd.get("taken") is True:
                    pt_ = ge.get("pat")
                    sc_ = (H.place(ge.get("init")) or "").lstrip("*&") or None
                if sc_ is not None and isinstance(pt_, dict):
                    scrut_here = sc_
                    pt = pt_
                    pp = pat_path(pt)
                    ex = self.excl.get(scrut_here, ())
                    if pp and (pp in ex or pp[:1] in ex):
                        continue
                    cv = self.cvar.get(scrut_here) if scrut_here not in self.assigned else None
                    if cv is not None:
                        if pp and pp[0] != cv:
                            continue
                        if pt.get("k") in ("wild", "bind") and (cv,) in specific:
                            continue
                    if pt.get("k") in ("wild", "bind") and specific:
                        old = self.excl.get(scrut_here)
                        self.excl[scrut_here] = set(old or ()) | specific
                        # `other => f(other)`: the binding holds what the scrutinee holds
                        bn = pt["name"] if pt.get("k") == "bind" and pt.get("name") not in self.assigned else None
                        old_b = self.excl.get(bn) if bn else None
                        if bn:
                            self.excl[bn] = set(self.excl[scrut_here])
                        self.build(x, s, e, fn_end, fname)
                        if old is None:
                            del self.excl[scrut_here]
                        else:
                            self.excl[scrut_here] = old
                        if bn:
                            if old_b is None:
                                self.excl.pop(bn, None)
                            else:
                                self.excl[bn] = old_b
                        continue
                    # `Some(inner)`: what is excluded for the payload
                    subs = pt.get("subs") or []
                    if pp and len(pp) == 1 and len(subs) == 1 and subs[0].get("k") == "bind":
                        inner = {q[1:] for q in ex if len(q) == 2 and q[0] == pp[0]}
                        if inner:
                            nm = subs[0]["name"]
                            old = self.excl.get(nm)
                            self.excl[nm] = inner
                            self.build(x, s, e, fn_end, fname)
                            if old is None:
                                del self.excl[nm]
                            else:
                                self.excl[nm] = old
                            continue
                dv = self.domain.get((fname.rsplit("::", 1)[-1], re.sub(r"\s+", " ", gd.get("text") or "")))
                if dv is not None and "taken" in gd and gd["taken"] != dv:
                    self.domain_used.add((fname.rsplit("::", 1)[-1], gd.get("text")))
                    continue
                iv = self.index_guard(gd)
                if iv is None:
                    iv = self.peek_guard(gd)
                if iv is None:
                    iv = self.const_guard(gd)
                if iv is not None and iv != gd.get("taken"):
                    continue
                self.build(x, s, e, fn_end, fname)
        elif k in ("loop", "star", "star1"):
            # one or more iterations: an empty clause list is a builder state the guards rule (R3) decides, not this one
            info = S[2] if len(S) > 2 and isinstance(S[2], dict) else {}
            if info.get("kind") == "closure-arg" and info.get("sp"):
                # written where the callee calls the closure back, not here
                self.pending[info["sp"]] = (S[1], fname)
                a.add_eps(s, e)
                return
            if info.get("kind") in ("fold", "for") and self.build_fold_table(S, s, e, fn_end, fname):
                return
            lo = self.loop_over(S)
            if lo is not None and lo in self.iter_state:
                if self.iter_state[lo] == "empty":
                    a.add_eps(s, e)
                    return
                k = "star"        # the first element was taken with next(): the rest may be empty
            dk = (fname.rsplit("::", 1)[-1], "loop:" + re.sub(r"\s+", " ", info.get("over") or ""))
            if self.domain.get(dk) is False:
                self.domain_used.add(dk)
                a.add_eps(s, e)
                return
            idx = None
            if (info.get("over") or "").endswith(".enumerate()") and isinstance(info.get("pat"), dict):
                binds = [n["name"] for n in walk(info["pat"]) if n.get("k") == "bind"]
                idx = binds[0] if len(binds) == 2 else None
            fixed_n = None
            it_e = info.get("e")
            while isinstance(it_e, dict) and it_e.get("k") == "mcall" and it_e["name"] in ("iter", "into_iter", "enumerate") and not it_e["args"]:
                it_e = H.peel_ref(it_e["recv"])
            if isinstance(it_e, dict) and it_e.get("k") == "local" and it_e.get("name") not in self.assigned:
                # `let table = [..]; for x in table`
                inits = [n for n in walk((self.f.fns.get(fname) or {}).get("hir") or {})
                         if n.get("k") == "stmt_let" and n["pat"].get("k") == "bind" and n["pat"].get("name") == it_e["name"]]
                if len(inits) == 1 and isinstance(inits[0].get("init"), dict) and H.peel_ref(inits[0]["init"]).get("k") == "array":
                    it_e = H.peel_ref(inits[0]["init"])
            if isinstance(it_e, dict) and it_e.get("k") == "local" and it_e.get("name") not in self.assigned:
                # `let xs = [a, b]; if let Some((first, rest)) = xs.split_first() { ..; for x in rest {..} }`: the tail of an array literal
                fn_hir = (self.f.fns.get(fname) or {}).get("hir") or {}
                for n in walk(fn_hir):
                    if n.get("k") not in ("let", "stmt_let") or not isinstance(n.get("init"), dict) or not isinstance(n.get("pat"), dict):
                        continue
                    pt_, iv_ = n["pat"], H.peel_ref(n["init"])
                    if not ((pt_.get("path") or {}).get("def") == "core::option::Option::Some" and len(pt_.get("subs") or []) == 1 and
                            pt_["subs"][0].get("k") == "tuple" and len(pt_["subs"][0].get("subs") or []) == 2 and
                            iv_.get("k") == "mcall" and iv_.get("name") in ("split_first", "split_last") and not iv_.get("args")):
                        continue
                    tl = pt_["subs"][0]["subs"][1]
                    if tl.get("k") != "bind" or tl.get("name") != it_e["name"]:
                        continue
                    src_ = H.peel_ref(iv_["recv"])
                    if src_.get("k") == "local" and src_.get("name") not in self.assigned:
                        inits = [m for m in walk(fn_hir) if m.get("k") == "stmt_let" and m["pat"].get("k") == "bind" and m["pat"].get("name") == src_["name"]]
                        src_ = H.peel_ref(inits[0]["init"]) if len(inits) == 1 and isinstance(inits[0].get("init"), dict) else src_
                    if src_.get("k") == "array" and src_.get("es"):
                        es_ = src_["es"][1:] if iv_["name"] == "split_first" else src_["es"][:-1]
                        if not es_:
                            a.add_eps(s, e)
                            return
                        it_e = {"k": "array", "es": es_}
                    break
            if isinstance(it_e, dict) and it_e.get("k") == "array":
                fixed_n = len(it_e.get("es") or [])
            if fixed_n:
                # a loop over an array literal runs exactly that many times; loop variables bound to string literals of the
                # element (`for (kw, v) in [(" LIMIT ", a), (" OFFSET ", b)]`) carry them
                old = self.bind.get(idx) if idx else None
                lpat = info.get("pat") if isinstance(info.get("pat"), dict) else None
                if lpat is not None and lpat.get("k") == "variant" and len(lpat.get("subs") or []) == 1:
                    lpat = lpat["subs"][0]          # the desugared `Some(pat)` arm of the for loop
                if lpat is not None and idx is not None and lpat.get("k") == "tuple" and len(lpat["subs"]) == 2:
                    lpat = lpat["subs"][1]
                saved_b = dict(self.bind)
                cur = s
                for i_ in range(fixed_n):
                    nxt = e if i_ == fixed_n - 1 else a.state()
                    if idx:
                        self.bind[idx] = "#first" if i_ == 0 else "#rest"
                    el = H.peel_ref(it_e["es"][i_])
                    pairs = []
                    if lpat is not None and lpat.get("k") == "bind":
                        pairs = [(lpat, el)]
                    elif lpat is not None and lpat.get("k") == "tuple" and el.get("k") == "tuple" and len(lpat["subs"]) == len(el.get("es") or []):
                        pairs = list(zip(lpat["subs"], el["es"]))
                    for p_, v_ in pairs:
                        cv_ = self.variant_of(v_)
                        v_ = H.peel_ref(v_)
                        if p_.get("k") == "bind" and p_.get("name") not in self.assigned:
                            if v_.get("k") == "lit" and v_["lit"]["t"] == "str":
                                self.bind[p_["name"]] = v_["lit"]["v"]
                            else:
                                self.bind.pop(p_["name"], None)
                            if cv_ is not None:
                                if "__cvar_saved" not in saved_b:
                                    saved_b["__cvar_saved"] = dict(self.cvar)
                                self.cvar[p_["name"]] = cv_          # `for (flag, spec) in [(a, Spec::X), (b, Spec::Y)]`
                    self.loop_ends.append(nxt)
                    self.build(S[1], cur, nxt, fn_end, fname)
                    self.loop_ends.pop()
                    cur = nxt
                if "__cvar_saved" in saved_b:
                    self.cvar = saved_b.pop("__cvar_saved")
                for k_ in list(self.bind):
                    if k_ != idx and k_ not in saved_b:
                        del self.bind[k_]
                for k_, v_ in saved_b.items():
                    if k_ != idx:
                        self.bind[k_] = v_
                if idx:
                    if old is None:
                        self.bind.pop(idx, None)
                    else:
                        self.bind[idx] = old
                return
            if idx is not None:
                # what the index can be compared with: the length of the iterated list, by name or as `xs.len()`
                base = re.sub(r"(\.(iter|into_iter|enumerate|iter_mut)\(\))+$", "", (info.get("over") or "").strip())
                lens = {base} if base else set()
                for n_ in walk((self.f.fns.get(fname) or {}).get("hir") or {}):
                    if n_.get("k") == "stmt_let" and n_["pat"].get("k") == "bind" and not n_["pat"].get("mut") and isinstance(n_.get("init"), dict):
                        iv = H.peel_ref(n_["init"])
                        if iv.get("k") == "mcall" and iv["name"] == "len" and not iv["args"] and T.text(iv["recv"]) == base and n_["pat"]["name"] not in self.assigned:
                            lens.add(n_["pat"]["name"])
                self.idx_lens[idx] = lens
            lo_ = self.loop_over(S)
            if idx is None and lo_ is not None and self.peek_aware(S[1], lo_):
                # `while let Some(x) = it.next() { ..; if it.peek().is_some() { SEP } }`: only | head middle* last
                m = a.state()
                key_ = "@peek:" + lo_
                old = self.bind.get(key_)
                for cls, frm, to in (("#only", s, e), ("#head", s, m), ("#middle", m, m), ("#last", m, e)):
                    self.bind[key_] = cls
                    if frm is to:
                        m2 = a.state()
                        self.loop_ends.append(m2)
                        self.build(S[1], frm, m2, fn_end, fname)
                        a.add_eps(m2, to)
                    else:
                        self.loop_ends.append(to)
                        self.build(S[1], frm, to, fn_end, fname)
                    self.loop_ends.pop()
                if old is None:
                    self.bind.pop(key_, None)
                else:
                    self.bind[key_] = old
                return
            if idx is not None and self.last_aware(S[1], idx, self.idx_lens.get(idx, set())):
                # the body also tests for the last element: only | head middle* last
                m = a.state()
                old = self.bind.get(idx)
                for cls, frm, to in (("#only", s, e), ("#head", s, m), ("#middle", m, m), ("#last", m, e)):
                    self.bind[idx] = cls
                    if frm is to:
                        m2 = a.state()
                        self.loop_ends.append(m2)
                        self.build(S[1], frm, m2, fn_end, fname)
                        a.add_eps(m2, to)
                    else:
                        self.loop_ends.append(to)
                        self.build(S[1], frm, to, fn_end, fname)
                    self.loop_ends.pop()
                if old is None:
                    del self.bind[idx]
                else:
                    self.bind[idx] = old
                return
            if idx is not None:
                # first iteration (index 0) then the others (index > 0)
                m0, m1, m2 = a.state(), a.state(), a.state()
                old = self.bind.get(idx)
                self.bind[idx] = "#first"
                self.loop_ends.append(m0)
                self.build(S[1], s, m0, fn_end, fname)
                self.loop_ends[-1] = m2
                self.bind[idx] = "#rest"
                a.add_eps(m0, e)
                a.add_eps(m0, m1)
                self.build(S[1], m1, m2, fn_end, fname)
                self.loop_ends.pop()
                a.add_eps(m2, m1)
                a.add_eps(m2, e)
                if old is None:
                    del self.bind[idx]
                else:
                    self.bind[idx] = old
                return
            m1, m2 = a.state(), a.state()
            a.add_eps(s, m1)
            self.loop_ends.append(m2)
            self.build(S[1], m1, m2, fn_end, fname)
            self.loop_ends.pop()
            a.add_eps(m2, m1)
            a.add_eps(m2, e)
            if k == "star":
                a.add_eps(s, e)
        elif k == "sepchain":
            # several element lists rendered as one separated list: N = nothing written yet, Hs = something written
            N, Hs = s, None
            for body, sep in S[1]:
                first_done = a.state()
                self.build(body, N, first_done, fn_end, fname)           # first element overall comes from this list
                if Hs is not None:
                    m = a.state()
                    self.build(sep, Hs, m, fn_end, fname)
                    self.build(body, m, first_done, fn_end, fname)
                m2 = a.state()
                self.build(sep, first_done, m2, fn_end, fname)
                self.build(body, m2, first_done, fn_end, fname)
                nH = a.state()
                a.add_eps(first_done, nH)
                if Hs is not None:
                    a.add_eps(Hs, nH)
                Hs = nH
            a.add_eps(Hs, e)        # at least one element overall (an empty element list is a builder state R3 decides)
        elif k == "sepby" and self.array_len(S[3] if len(S) > 3 else None, fname):
            # a separated list over an array literal has exactly that many elements
            n_ = self.array_len(S[3], fname)
            cur = s
            for i_ in range(n_):
                if i_ > 0:
                    m = a.state()
                    self.build(S[2], cur, m, fn_end, fname)
                    cur = m
                nxt = e if i_ == n_ - 1 else a.state()
                self.build(S[1], cur, nxt, fn_end, fname)
                cur = nxt
        elif k == "sepby":
            # body (sep body)*
            m1, m2, m3 = a.state(), a.state(), a.state()
            a.add_eps(s, m1)
            self.build(S[1], m1, m2, fn_end, fname)
            a.add_eps(m2, e)
            self.build(S[2], m2, m3, fn_end, fname)
            a.add_eps(m3, m1)
        elif k == "lit":
            self.last_lit = " ".join(S[1].split())
            self.lit(S[1], s, e, {"fn": fname, "lit": S[1]})
        elif k == "hole":
            what = ((S[2] or {}).get("what") or "")
            if what.startswith("local ") and what[6:] in self.bind and not self.bind[what[6:]].startswith("#"):
                self.lit(self.bind[what[6:]], s, e, {"fn": fname, "lit": self.bind[what[6:]], "sp": S[3]})
                return
            if what.startswith("local ") and S[1] == "STR" and what[6:] in self.assigned and self.tracked_local(fname, what[6:]):
                # a mutable local that only ever holds string literals: its value is tracked along the path (automata.included)
                a.add(s, "<var>", e, {"fn": fname, "var": (fname, what[6:]), "sp": S[3], "values": self.local_literals(fname, what[6:])})
                return
            if what.startswith("local ") and S[1] == "STR":
                lits = self.local_literals(fname, what[6:])
                if lits:
                    for w in lits:
                        self.lit(w, s, e, {"fn": fname, "lit": w, "sp": S[3]})
                    return
            d = S[2] or {}
            nd = d.get("of") if isinstance(d.get("of"), dict) else d.get("node")
            if S[1] in ("UNKNOWN", "STR") and isinstance(nd, dict) and nd.get("k") in ("match", "if"):
                lits = self.expr_literals(nd, d.get("idx", -1) if d.get("idx") is not None else -1)
                if lits:
                    for w in lits:
                        self.lit(w, s, e, {"fn": fname, "lit": w, "sp": S[3]})
                    return
            sym = HOLE_SYMBOL.get(S[1], "<raw>")
            hinfo = {"fn": fname, "hole": S[1], "what": (S[2] or {}).get("what"), "sp": S[3]}
            if S[1] in ("VALUE_PARAM", "NUM", "FLOAT"):
                hinfo["ga"] = True        # a placeholder / number ends in a digit: a word written right after it fuses with it
                if S[1] in ("NUM", "FLOAT"):
                    hinfo["gb"] = True
            a.add(s, sym, e, hinfo)
        elif k == "callv":
            cal = S[1]
            if cal.endswith("value_to_string") or cal.endswith("value_to_string_common"):
                a.add(s, "<value>", e, {"fn": fname, "call": cal, "sp": S[3]})
                return
            target = self.linker.resolve(cal, S[2])
            words = self.literal_results(target) if target else None
            if words:
                for w in words:
                    self.lit(w, s, e, {"fn": target, "lit": w})
            else:
                a.add(s, "<raw>", e, {"fn": fname, "call": cal, "sp": S[3]})
        elif k == "call":
            cal = S[1]
            short = cal.rsplit("::", 1)[-1]
            if short in NONTERMINALS and not (short == self.entry_name and not self.stack[1:]):
                sym_ = NONTERMINALS[short]
                if sym_ == "<expr>":
                    # an expression that cannot be an operator expression here (a calling match took Binary / Unary elsewhere)
                    for an in S[2].get("arg_nodes") or []:
                        v_ = H.peel_ref(an) if isinstance(an, dict) else None
                        if isinstance(v_, dict) and v_.get("k") == "local":
                            ex_ = self.excl.get(v_["name"]) or ()
                            if ("crate::expr::SimpleExpr::Binary",) in ex_ and ("crate::expr::SimpleExpr::Unary",) in ex_:
                                sym_ = "<atom>"
                a.add(s, sym_, e, {"fn": fname, "call": cal, "sp": S[3], "ord": self.ordinal(fname, cal, S[3]), "ctx": self.last_lit})
                return
            nd = S[2].get("node") or {}
            fe = H.peel_ref(nd.get("fn_expr")) if isinstance(nd.get("fn_expr"), dict) else None
            if nd.get("k") == "call" and isinstance(fe, dict) and fe.get("k") == "local" and fe.get("name") in self.clos:
                body, owner = self.clos[fe["name"]]
                saved_c = (self.fixed, self.bind, self.excl, self.cvar)
                self.fixed, self.bind, self.excl, self.cvar = {}, {}, {}, {}
                self.build(stmt.sepify(sepchain(body), strict=True), s, e, e, owner)
                self.fixed, self.bind, self.excl, self.cvar = saved_c
                return
            target = self.linker.resolve(cal, S[2])
            if target is None:
                a.add(s, "<call:%s>" % short, e, {"fn": fname, "call": cal, "sp": S[3]})
                return
            cs = self.linker.callee_sink(target, S[2])
            if cs is None:
                a.add_eps(s, e)
                return
            bind = {}
            excl = {}
            cvar = {}
            tt = T.fn_tir(self.f, target)
            for i, an in enumerate(S[2].get("arg_nodes") or []):
                v = H.peel_ref(an) if isinstance(an, dict) else None
                if isinstance(v, dict) and v.get("k") == "lit" and v["lit"]["t"] == "str" and i < len(tt.params) and tt.params[i][0]:
                    bind[tt.params[i][0]] = v["lit"]["v"]
                elif isinstance(v, dict) and v.get("k") == "local" and v["name"] in self.bind and i < len(tt.params) and tt.params[i][0]:
                    bind[tt.params[i][0]] = self.bind[v["name"]]
                if isinstance(v, dict) and v.get("k") == "local" and v["name"] in self.excl and i < len(tt.params) and tt.params[i][0]:
                    excl[tt.params[i][0]] = self.excl[v["name"]]
                pv = self.variant_of(an) if isinstance(an, dict) else None
                if pv is not None and i < len(tt.params) and tt.params[i][0]:
                    cvar[tt.params[i][0]] = pv
            clos = {}
            for j, cn in (S[2].get("closures") or {}).items():
                j = int(j)
                if isinstance(cn, dict) and cn.get("sp") in self.pending and j < len(tt.params) and tt.params[j][0]:
                    clos[tt.params[j][0]] = self.pending[cn["sp"]]
            # what is already decided about `Some` / `None` of a field of an argument holds for the parameter
            fixed = {}
            for i, an in enumerate(S[2].get("arg_nodes") or []):
                v = H.peel_ref(an) if isinstance(an, dict) else None
                if isinstance(v, dict) and v.get("k") == "local" and i < len(tt.params) and tt.params[i][0]:
                    for fk, fv in self.fixed.items():
                        if isinstance(fk, str) and fk.startswith("some:" + v["name"] + "."):
                            fixed["some:" + tt.params[i][0] + fk[len("some:" + v["name"]):]] = fv
            self.fn_fragment(target, cs, s, e, bind=bind, excl=excl, cvar=cvar, clos=clos, fixed=fixed)
        elif k == "ctl":
            if S[1] == "ret":
                a.add_eps(s, fn_end)
            elif S[1] == "continue" and self.loop_ends:
                a.add_eps(s, self.loop_ends[-1])
            else:
                a.add_eps(s, e)
        elif k == "diverge":
            pass            # no transition: the path ends without producing a statement
        elif k == "buf":
            a.add(s, "<raw>", e, {"fn": fname, "buf": S[1]})
        elif k == "reset":
            a.add_eps(s, e)
        elif k == "set":
            a.add(s, "<set>", e, {"fn": fname, "var": (fname, S[1]), "val": S[2]})
        else:
            raise Anchor("TIR node %s in grammar builder" % k)

    def lit(self, text, s, e, info):
        """tokens of a literal emission, with the glue attributes used to detect token fusion across emissions"""
        a = self.a
        if text and not text.strip():
            a.add(s, "<sp>", e, dict(info, sp=info.get("sp")))
            return
        toks = lex(text)
        if not toks:
            a.add_eps(s, e)
            return
        cur = s
        gb = bool(text) and (text[0].isalnum() or text[0] == "_")
        ga = bool(text) and (text[-1].isalnum() or text[-1] == "_")
        for i, tk in enumerate(toks):
            nxt = e if i == len(toks) - 1 else a.state()
            inf = dict(info)
            if i == 0 and gb:
                inf["gb"] = True
            if i == len(toks) - 1 and ga:
                inf["ga"] = True
            a.add(cur, tk, nxt, inf)
            cur = nxt

    def tokens(self, toks, s, e, info):
        a = self.a
        if not toks:
            a.add_eps(s, e)
            return
        cur = s
        for i, tk in enumerate(toks):
            nxt = e if i == len(toks) - 1 else a.state()
            a.add(cur, tk, nxt, info)
            cur = nxt

    def tracked_local(self, fname, name):
        vals = self.local_literals(fname, name)
        return bool(vals) and all(len(lex(v)) <= 1 for v in vals)

    def local_literals(self, fname, name):
        """string literals an immutable local can hold when it is bound by `let x = match/if {.. => "LIT"}` or by a tuple
        pattern over arms that yield tuples with a literal in that position"""
        fn = self.f.fns.get(fname)
        if not fn or fn.get("hir") is None:
            return None
        if name in self.assigned:
            # a mutable local that only ever holds string literals (`let mut sep = ""; .. sep = " ";`): any of them
            vals = []
            for n in walk(fn["hir"]):
                if n.get("k") == "stmt_let" and n["pat"].get("k") == "bind" and n["pat"].get("name") == name:
                    if n.get("init") is None:
                        return None
                    v = H.peel_ref(n["init"])
                    if not (v.get("k") == "lit" and v["lit"]["t"] == "str"):
                        return None
                    vals.append(v["lit"]["v"])
                elif n.get("k") == "assign" and H.place(n.get("l")) == name:
                    v = H.peel_ref(n["r"])
                    if not (v.get("k") == "lit" and v["lit"]["t"] == "str"):
                        return None
                    vals.append(v["lit"]["v"])
                elif n.get("k") == "assignop" and H.place(n.get("l")) == name:
                    return None
            return sorted(set(vals)) or None
        out = None
        for n in walk(fn["hir"]):
            if n.get("k") != "stmt_let" or n.get("init") is None:
                continue
            pat = n["pat"]
            idx = None
            if pat.get("k") == "bind" and pat.get("name") == name:
                idx = -1
            elif pat.get("k") == "tuple":
                for i, sp in enumerate(pat["subs"]):
                    if sp.get("k") == "bind" and sp.get("name") == name:
                        idx = i
            if idx is None:
                continue
            if out is not None:
                return None      # bound twice (shadowing): not decided
            vals = self.expr_literals(n["init"], idx)
            if not vals:
                return None
            out = vals
        return out

    def expr_literals(self, init, idx):
        if True:
            vals = []

            def leaves(e):
                e = H.peel_ref(e)
                if e.get("k") == "match":
                    for a in e["arms"]:
                        leaves(a["body"])
                elif e.get("k") == "if" and e.get("else") is not None:
                    leaves(e["then"])
                    leaves(e["else"])
                elif e.get("k") == "block" and e.get("expr") is not None and not e.get("stmts"):
                    leaves(e["expr"])
                else:
                    if idx >= 0:
                        if e.get("k") == "tuple" and idx < len(e.get("es") or []):
                            e = H.peel_ref(e["es"][idx])
                        else:
                            vals.append(None)
                            return
                    vals.append(e["lit"]["v"] if e.get("k") == "lit" and e["lit"]["t"] == "str" else None)
            leaves(init)
            if not vals or any(v is None for v in vals):
                return None
            return vals

    def literal_results(self, target):
        """string literals a function returns on all its paths (keyword hooks such as insert_default_keyword)"""
        from . import paths as P
        fn = self.f.fns.get(target)
        if not fn or fn.get("hir") is None:
            return None
        vals = []
        try:
            for p in P.fn_paths(fn["hir"]):
                v = H.peel_ref(p.value) if p.value is not None else None
                if isinstance(v, dict) and v.get("k") == "lit" and v["lit"]["t"] == "str":
                    vals.append(v["lit"]["v"])
                else:
                    return None
        except Exception:
            return None
        return vals or None


_grammars = {}


def grammar(dialect):
    if dialect not in _grammars:
        p = os.path.join(VERIF, "specs", dialect + ".ebnf")
        _grammars[dialect] = Grammar(open(p).read(), dialect)
    return _grammars[dialect]


def prov_key(prov):
    if not prov:
        return "?"
    fn = (prov.get("fn") or "?").rsplit("::", 1)[-1]
    if prov.get("lit") is not None:
        what = "'" + " ".join(prov["lit"].split()) + "'"
    elif prov.get("hole"):
        what = "<%s:%s>" % (prov["hole"], prov.get("what") or "")
    elif prov.get("call"):
        what = "call:" + prov["call"].rsplit("::", 1)[-1] + ((":after:'%s'" % prov["ctx"]) if prov.get("ord") and prov.get("ctx") else ("#%d" % prov["ord"] if prov.get("ord") else ""))
    else:
        what = "buf"
    return (fn + ":" + what).replace(" ", "_")


def check_production(run, rule, f, cfg, dialect, trait, method, production):
    """one obligation per (dialect, production); every distinct offending emission is reported under its own key
    `grammar:<dialect>:<production>:<function>:<token source>` so that a known finding suppresses only itself"""
    g = grammar(dialect)
    okey = "grammar:%s:%s" % (dialect, production)
    if production not in g.ast:
        run.anchor(rule, "%s:%s" % (dialect, production), "no production `%s` in specs/%s.ebnf" % (production, dialect), cfg)
        return 0
    linker = L.Linker(f, dialect)
    target = linker.resolve(trait + "::" + method)
    if target is None:
        run.ob(rule, okey, False, "%s: renderer %s not found" % (dialect, method), cfg=cfg)
        return 0
    t = T.fn_tir(f, target)
    sinks = [s for s, k in t.sinks.items() if k == "writer"]
    b = Builder(f, dialect, method)
    s, e = b.a.state(), b.a.state()
    try:
        b.fn_fragment(target, sinks[0], s, e, top=True)
        ga, gs, ge = g.nfa(production)
    except (Anchor, RuntimeError, ValueError) as ex:
        run.ob(rule, okey, False, "%s: grammar refinement of %s could not be decided: %s" % (dialect, method, ex), cfg=cfg)
        return 0
    skipped = set()
    found = 0
    for _ in range(12):
        try:
            cex = included(b.a, s, e, ga, gs, ge, skip=lambda info: prov_key(info) in skipped)
        except RuntimeError as ex:
            run.ob(rule, okey, False, "%s: grammar refinement of %s could not be decided: %s" % (dialect, method, ex), cfg=cfg)
            return 0
        if cex is None:
            break
        word, prov, pos = cex
        pk = prov_key(prov)
        found += 1
        shown = " ".join(word[:pos]) + " >>" + (word[pos] if pos < len(word) else "") + "<< " + " ".join(word[pos + 1:])
        run.ob(rule, "%s:%s" % (okey, pk), False,
               "%s: %s can write `%s`, which `%s` of specs/%s.ebnf does not derive; the marked token is written by %s%s" % (
                   dialect, method, shown.strip(), production, dialect, (prov or {}).get("fn", "?").rsplit("::", 1)[-1],
                   (" (" + repr(prov.get("lit")) + ")") if prov and prov.get("lit") is not None else ""),
               sp=(prov or {}).get("sp") or t.fn["sp"], cfg=cfg, detail={"word": word, "position": pos, "source": pk})
        if pk in skipped or pk == "?":
            break
        skipped.add(pk)
    run.ob(rule, okey, True,
           "%s: %s token strings %s can write (NFA of %d states from the linked template IR, guards free except correlated flags) "
           "are derivable from `%s` of specs/%s.ebnf%s" % (dialect, "all" if not found else "apart from the reported emissions, the", method, b.a.n, production, dialect,
                                                          ("; feature-set assumptions used: " + ", ".join("%s[%s]" % x for x in sorted(b.domain_used))) if b.domain_used else ""),
           sp=t.fn["sp"], cfg=cfg)
    return b.a.n
