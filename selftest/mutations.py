"""Self-test corpus: breaking mutations (must be reported, naming the instance) and benign rewrites (must stay silent).
Each entry: id, props, kind, file/old/new (or edits=[(file, old, new)...]), expect (substring of the reported key)."""
MUTATIONS = []


def brk(id, props, file, old, new, expect, **kw):
    MUTATIONS.append(dict(id=id, props=props, kind="breaking", file=file, old=old, new=new, expect=expect, **kw))


def ben(id, props, file, old, new, **kw):
    MUTATIONS.append(dict(id=id, props=props, kind="benign", file=file, old=old, new=new, expect="", **kw))


# ---- C01 -------------------------------------------------------------------------------------------------------
brk("c01-inc-after-write", ["C01"], "src/prepare.rs",
    """        self.counter += 1;
        if self.numbered {
            let counter = self.counter;
            write!(self.string, "{}{}", self.placeholder, counter).unwrap();
        } else {""",
    """        if self.numbered {
            let counter = self.counter;
            write!(self.string, "{}{}", self.placeholder, counter).unwrap();
            self.counter += 1;
        } else {""", "C01.R2:push_param")
brk("c01-push-twice", ["C01"], "src/prepare.rs", "        self.values.push(value)\n", "        self.values.push(value.clone());\n        self.values.push(value)\n", "C01.R2:push_param")
brk("c01-mysql-as-null", ["C01"], "src/backend/mysql/query.rs", "sql.push_param(value.clone(), self as _);", "sql.push_param(value.as_null(), self as _);", "C01.R4:prepare_value:Mysql")
brk("c01-build-const-placeholder", ["C01"], "src/query/traits.rs",
    """        let (placeholder, numbered) = query_builder.placeholder();
        let mut sql = SqlWriterValues::new(placeholder, numbered);
        self.build_collect_into(query_builder, &mut sql);""",
    """        let (_placeholder, numbered) = query_builder.placeholder();
        let mut sql = SqlWriterValues::new("?", numbered);
        self.build_collect_into(query_builder, &mut sql);""", "C01.R6:build")
brk("c01-literal-mark", ["C01"], "src/backend/query_builder.rs",
    """            write!(sql, " LIMIT ").unwrap();
            self.prepare_value(limit, sql);
        }

        if let Some(offset) = &select.offset {""",
    """            write!(sql, " LIMIT ?").unwrap();
        }

        if let Some(offset) = &select.offset {""", "C01.R7:literal-mark")
brk("c01-into-parts-other", ["C01"], "src/prepare.rs", "(self.string, Values(self.values))", "(self.string, Values(self.values.into_iter().rev().collect()))", "C01.R3:into_parts")
ben("c01-benign-direct-counter", ["C01"], "src/prepare.rs",
    """            let counter = self.counter;
            write!(self.string, "{}{}", self.placeholder, counter).unwrap();""",
    """            write!(self.string, "{}", self.placeholder).unwrap();
            write!(self.string, "{}", self.counter).unwrap();""")
ben("c01-benign-push-str", ["C01"], "src/prepare.rs",
    """            write!(self.string, "{}", self.placeholder).unwrap();
        }""",
    """            self.string.push_str(&self.placeholder);
        }""")

# ---- C02 -------------------------------------------------------------------------------------------------------
brk("c02-string-push-common", ["C02"], "src/prepare.rs", "self.push_str(&query_builder.value_to_string(&value))",
    "self.push_str(&query_builder.value_to_string_common(&value))", "C02.R1:String::push_param")
brk("c02-peek-writer", ["C02"], "src/backend/query_builder.rs",
    """        if let Some(limit) = &select.limit {
            write!(sql, " LIMIT ").unwrap();""",
    """        if let Some(limit) = &select.limit {
            if sql.to_string().ends_with(' ') { write!(sql, "LIMIT ").unwrap(); } else {
            write!(sql, " LIMIT ").unwrap(); }""", "C02.R2:writer-call")
brk("c02-delete-wrong-renderer", ["C02"], "src/query/delete.rs",
    """    pub fn build_collect_into<T: QueryBuilder>(&self, query_builder: T, sql: &mut dyn SqlWriter) {
        query_builder.prepare_delete_statement(self, sql);""",
    """    pub fn build_collect_into<T: QueryBuilder>(&self, query_builder: T, sql: &mut dyn SqlWriter) {
        crate::backend::CommonSqlQueryBuilder.prepare_delete_statement(self, sql); let _ = query_builder;""", "C02.R3:DeleteStatement:build_collect_into")

# ---- C10 -------------------------------------------------------------------------------------------------------
brk("c10-lt-instead-of-ne", ["C10"], "src/query/insert.rs",
    """        let values = values.into_iter().collect::<Vec<SimpleExpr>>();
        if self.columns.len() != values.len() {""",
    """        let values = values.into_iter().collect::<Vec<SimpleExpr>>();
        if self.columns.len() < values.len() {""", "C10.R1")
brk("c10-select-from-no-check", ["C10"], "src/query/insert.rs",
    """        if self.columns.len() != statement.selects.len() {
            return Err(Error::ColValNumMismatch {
                col_len: self.columns.len(),
                val_len: statement.selects.len(),
            });
        }
""", """        if !self.columns.is_empty() && statement.selects.is_empty() {
            return Err(Error::ColValNumMismatch {
                col_len: self.columns.len(),
                val_len: statement.selects.len(),
            });
        }
""", "C10.R1")
brk("c10-swapped-payload", ["C10"], "src/query/insert.rs",
    """            return Err(Error::ColValNumMismatch {
                col_len: self.columns.len(),
                val_len: values.len(),
            });""",
    """            return Err(Error::ColValNumMismatch {
                col_len: values.len(),
                val_len: self.columns.len(),
            });""", "C10.R1:values:table")

brk("c10-write-before-check", ["C10"], "src/query/insert.rs",
    """        let values = values.into_iter().collect::<Vec<SimpleExpr>>();
        if self.columns.len() != values.len() {""",
    """        let values = values.into_iter().collect::<Vec<SimpleExpr>>();
        self.default_values = None;
        if self.columns.len() != values.len() {""", "C10.R1:values:table")

brk("c10-new-source-writer", ["C10"], "src/query/insert.rs",
    """    pub fn or_default_values(&mut self) -> &mut Self {
        self.default_values = Some(1);""",
    """    pub fn or_default_values(&mut self) -> &mut Self {
        self.source = None;
        self.default_values = Some(1);""", "C10.R3:source")
ben("c10-benign-eq-form", ["C10"], "src/query/insert.rs",
    """        let values = values.into_iter().collect::<Vec<SimpleExpr>>();
        if self.columns.len() != values.len() {
            return Err(Error::ColValNumMismatch {
                col_len: self.columns.len(),
                val_len: values.len(),
            });
        }
        if !values.is_empty() {""",
    """        let values = values.into_iter().collect::<Vec<SimpleExpr>>();
        if values.len() == self.columns.len() {
        } else {
            return Err(Error::ColValNumMismatch {
                col_len: self.columns.len(),
                val_len: values.len(),
            });
        }
        if !values.is_empty() {""")

# ---- C15 -------------------------------------------------------------------------------------------------------
brk("c15-take-default-field", ["C15"], "src/query/select.rs", "            lock: self.lock.take(),\n", "            lock: Default::default(),\n", "C15.R1:take:SelectStatement:lock")
brk("c15-take-clone-sibling", ["C15"], "src/query/select.rs", "            offset: self.offset.take(),\n", "            offset: self.limit.clone(),\n", "C15.R1:take:SelectStatement:offset")
brk("c15-take-leaves-behind", ["C15"], "src/query/window.rs", "            frame: self.frame.take(),\n", "            frame: self.frame.clone(),\n", "C15.R1:take:WindowStatement:frame:remainder")
brk("c15-clear-also-limit", ["C15"], "src/query/select.rs",
    """    pub fn clear_order_by(&mut self) -> &mut Self {
        self.orders = Vec::new();""",
    """    pub fn clear_order_by(&mut self) -> &mut Self {
        self.orders = Vec::new();
        self.limit = None;""", "C15.R4:clear")
brk("c15-manual-partialeq", ["C15"], "src/query/window.rs",
    """#[derive(Debug, Clone, PartialEq)]
pub struct FrameClause {""",
    """impl PartialEq for FrameClause {
    fn eq(&self, other: &Self) -> bool {
        self.r#type == other.r#type && self.start == other.start
    }
}
#[derive(Debug, Clone)]
pub struct FrameClause {""", "C15.R2:crate::query::window::FrameClause:PartialEq")
ben("c15-benign-replace-default", ["C15"], "src/query/select.rs",
    "            r#where: std::mem::replace(&mut self.r#where, ConditionHolder::new()),\n",
    "            r#where: std::mem::take(&mut self.r#where),\n")

# ---- C18 -------------------------------------------------------------------------------------------------------
brk("c18-delete-eq-arm", ["C18"], "src/value.rs", "                (Self::Char(l), Self::Char(r)) => l == r,\n", "", "C18.R1:eq:diagonal:Char")
brk("c18-cmp-f32-raw", ["C18"], "src/value.rs",
    """    fn cmp_f32(l: &Option<f32>, r: &Option<f32>) -> bool {
        match (l, r) {
            (Some(l), Some(r)) => OrderedFloat(*l).eq(&OrderedFloat(*r)),""",
    """    fn cmp_f32(l: &Option<f32>, r: &Option<f32>) -> bool {
        match (l, r) {
            (Some(l), Some(r)) => *l == *r,""", "C18.R")
brk("c18-hash-f64-bits", ["C18"], "src/value.rs",
    """    fn hash_f64<H: Hasher>(v: &Option<f64>, state: &mut H) {
        match v {
            Some(v) => OrderedFloat(*v).hash(state),""",
    """    fn hash_f64<H: Hasher>(v: &Option<f64>, state: &mut H) {
        match v {
            Some(v) => v.to_bits().hash(state),""", "C18.R")
brk("c18-cross-variant", ["C18"], "src/value.rs", "                (Self::Int(l), Self::Int(r)) => l == r,\n",
    "                (Self::Int(l), Self::Int(r)) => l == r,\n                (Self::Int(l), Self::BigInt(r)) => l.map(i64::from) == *r,\n", "C18.R1:eq:diagonal")
brk("c18-json-structural-hash", ["C18"], "src/value.rs",
    "            Some(v) => serde_json::to_string(v).unwrap().hash(state),", "            Some(v) => v.hash(state),", "C18.R2:pair:Json", )

# ---- C12 -------------------------------------------------------------------------------------------------------
brk("c12-nullable-str-char", ["C12"], "src/value.rs",
    """impl Nullable for &str {
    fn null() -> Value {
        Value::String(None)""",
    """impl Nullable for &str {
    fn null() -> Value {
        Value::Char(None)""", "C12.R1:null")
brk("c12-cow-second-variant", ["C12"], "src/value.rs",
    """            Value::String(Some(x)) => Ok((*x).into()),
            _ => Err(ValueTypeErr),""",
    """            Value::String(Some(x)) => Ok((*x).into()),
            Value::Char(Some(c)) => Ok(c.to_string().into()),
            _ => Err(ValueTypeErr),""", "C12.R1:try_from")
brk("c12-tuple-swapped", ["C12"], "src/value.rs", "ValueTuple::Three(self.0.into(), self.1.into(), self.2.into())", "ValueTuple::Three(self.0.into(), self.2.into(), self.1.into())", "C12.R4:into:arity3")
brk("c12-from-tuple-swapped", ["C12"], "src/value.rs", "ValueTuple::Two(v, w) => (v.unwrap(), w.unwrap()),", "ValueTuple::Two(w, v) => (v.unwrap(), w.unwrap()),", "C12.R4:from:arity2")
brk("c12-as-null-wrong-variant", ["C12"], "src/value.rs", "            Self::SmallUnsigned(_) => Self::SmallUnsigned(None),\n", "            Self::SmallUnsigned(_) => Self::SmallInt(None),\n", "C12.R5:as_null:SmallUnsigned")
brk("c12-datetime-utc-local", ["C12"], "src/value.rs",
    """    impl From<DateTime<Local>> for Value {
        fn from(v: DateTime<Local>) -> Value {
            Value::ChronoDateTimeLocal(Some(Box::new(v)))""",
    """    impl From<DateTime<Local>> for Value {
        fn from(v: DateTime<Local>) -> Value {
            Value::ChronoDateTimeUtc(Some(Box::new(v.with_timezone(&Utc))))""", "C12.R")

# ---- C03 / C17 -------------------------------------------------------------------------------------------------
brk("c03-pg-prefix-inverted", ["C03"], "src/backend/postgres/query.rs", "let string = if escaped.find('\\\\').is_some() {", "let string = if escaped.find('\\\\').is_none() {", "C03.R")
brk("c03-backslash-last", ["C03", "C17"], "src/backend/mod.rs",
    """        string
            .replace('\\\\', "\\\\\\\\")
            .replace('"', "\\\\\\"")""",
    """        string
            .replace('"', "\\\\\\"")
            .replace('\\\\', "\\\\\\\\")""", "R1:")
brk("c03-bytes-no-pad", ["C03"], "src/backend/query_builder.rs", 'write!(buffer, "{b:02X}").unwrap();', 'write!(buffer, "{b:X}").unwrap();', "C03.R5")
brk("c03-comment-unescaped", ["C03"], "src/backend/mysql/table.rs",
    """            let comment = self.escape_string(comment);
            write!(sql, " COMMENT '{comment}'").unwrap();""",
    """            write!(sql, " COMMENT '{comment}'").unwrap();""", "C03.R3:quoted-hole")
brk("c17-unescape-wrong-table", ["C17"], "src/backend/mod.rs", "                        't' => '\\x09',\n", "                        't' => '\\x0b',\n", "C17.R2")
brk("c17-sqlite-unescape", ["C17"], "src/backend/sqlite/mod.rs", """string.replace("''", "'")""", """string.replace("'", "")""", "C17.R3")
ben("c03-benign-push-e", ["C03"], "src/backend/postgres/query.rs",
    """        let string = if escaped.find('\\\\').is_some() {
            "E'".to_owned() + &escaped + "'"
        } else {
            "'".to_owned() + &escaped + "'"
        };
        write!(buffer, "{string}").unwrap()""",
    """        if escaped.contains('\\\\') {
            buffer.push('E');
        }
        write!(buffer, "'{escaped}'").unwrap()""")

# ---- C06 -------------------------------------------------------------------------------------------------------
brk("c06-add-drop-negate", ["C06"], "src/query/condition.rs", "            if c.conditions.len() == 1 && !c.negate {", "            if c.conditions.len() == 1 {", "C06.R1:add:")
brk("c06-merge-any-addition", ["C06"], "src/query/condition.rs",
    "                    if addition.condition_type == ConditionType::All && !addition.negate {", "                    if !addition.negate {", "C06.R2:add_condition:")
brk("c06-swap-empty-constants", ["C06"], "src/query/condition.rs",
    """                ConditionType::Any => false.into(),
                ConditionType::All => true.into(),""",
    """                ConditionType::Any => true.into(),
                ConditionType::All => false.into(),""", "C06.R3:to_simple_expr:table")
brk("c06-swap-fold", ["C06"], "src/query/condition.rs",
    """                    ConditionType::Any => out_expr.or(e),
                    ConditionType::All => out_expr.and(e),""",
    """                    ConditionType::Any => out_expr.and(e),
                    ConditionType::All => out_expr.or(e),""", "C06.R3:to_simple_expr:table")
brk("c06-having-into-where", ["C06"], "src/query/select.rs", "        self.having.add_condition(condition.into_condition());", "        self.r#where.add_condition(condition.into_condition());", "C06.R5:api")
ben("c06-benign-merge-single-any", ["C06"], "src/query/condition.rs",
    "                    if addition.condition_type == ConditionType::All && !addition.negate {",
    "                    if (addition.condition_type == ConditionType::All || addition.conditions.len() == 1) && !addition.negate {")
ben("c06-benign-helper", ["C06"], "src/query/condition.rs",
    """                if current.condition_type == ConditionType::All && !current.negate {
                    if addition.condition_type == ConditionType::All && !addition.negate {""",
    """                fn plain(c: &Condition) -> bool {
                    !c.negate && c.condition_type == ConditionType::All
                }
                if plain(&current) {
                    if plain(&addition) {""")

# ---- C04 -------------------------------------------------------------------------------------------------------
brk("c04-no-doubling", ["C04"], "src/types.rs", "self.to_string().replace(qq, qq.repeat(2).as_str())", "self.to_string().replace(qq, qq)", "C04.R1:quoted:doubling")
brk("c04-double-left-quote", ["C04"], "src/types.rs", "                let byte = [q.1];", "                let byte = [q.0];", "C04.R1:quoted:pattern")
brk("c04-raw-alias", ["C04"], "src/backend/query_builder.rs",
    """        if let Some(alias) = &select_expr.alias {
            write!(sql, " AS ").unwrap();
            alias.prepare(sql.as_writer(), self.quote());""",
    """        if let Some(alias) = &select_expr.alias {
            write!(sql, " AS ").unwrap();
            write!(sql, "{}{}{}", self.quote().left(), alias.to_string(), self.quote().right()).unwrap();""", "C04.R2:region")
brk("c04-unquoted-window-name", ["C04"], "src/backend/query_builder.rs",
    """                write!(sql, " OVER ").unwrap();
                name.prepare(sql.as_writer(), self.quote())""",
    """                write!(sql, " OVER ").unwrap();
                name.unquoted(sql.as_writer())""", "C04.R3:raw-iden")
brk("c04-mysql-quote-const", ["C04"], "src/backend/mysql/mod.rs", "const QUOTE: Quote = Quote(b'`', b'`');", "const QUOTE: Quote = Quote(b'\"', b'\"');", "C04.R1:quote:mysql")

# ---- C16 -------------------------------------------------------------------------------------------------------
brk("c16-inc-without-append", ["C16"], "src/token.rs",
    """            } else if !first && Self::is_identifier(c) {
                write!(string, "{c}").unwrap();
                self.inc();""",
    """            } else if !first && Self::is_identifier(c) {
                self.inc();""", "C16.R1:unquoted")
brk("c16-punct-excludes-delims", ["C16"], "src/token.rs",
    "            if !Self::is_space(c) && !Self::is_alphanumeric(c) {", "            if !Self::is_space(c) && !Self::is_alphanumeric(c) && !Self::is_identifier(c) {", "C16.R3:class")
brk("c16-no-progress", ["C16"], "src/token.rs",
    """            } else if !first {
                escape = !escape && Self::is_escape_char(c);
                write!(string, "{c}").unwrap();
                self.inc();
            } else {
                break;
            }
        }
        if !string.is_empty() {
            Some(Token::Quoted(string))""",
    """            } else if !first {
                escape = !escape && Self::is_escape_char(c);
                if escape { continue; }
                write!(string, "{c}").unwrap();
                self.inc();
            } else {
                break;
            }
        }
        if !string.is_empty() {
            Some(Token::Quoted(string))""", "C16.R4:quoted")
brk("c16-escape-always", ["C16"], "src/token.rs",
    """                escape = !escape && Self::is_escape_char(c);
                write!(string, "{c}").unwrap();
                self.inc();
            } else {
                break;
            }
        }
        if !string.is_empty() {
            Some(Token::Quoted(string))""",
    """                escape = Self::is_escape_char(c);
                write!(string, "{c}").unwrap();
                self.inc();
            } else {
                break;
            }
        }
        if !string.is_empty() {
            Some(Token::Quoted(string))""", "C16.R6:quoted")

ben("c14-fk-columns-peekable-loop", ["C14"], "src/backend/mysql/foreign_key.rs",
    """        write!(sql, "(").unwrap();
        create.foreign_key.columns.iter().fold(true, |first, col| {
            if !first {
                write!(sql, ", ").unwrap();
            }
            col.prepare(sql.as_writer(), self.quote());
            false
        });
        write!(sql, ")").unwrap();""",
    """        write!(sql, "(").unwrap();
        let mut fk_cols = create.foreign_key.columns.iter().peekable();
        while let Some(col) = fk_cols.next() {
            col.prepare(sql.as_writer(), self.quote());
            if fk_cols.peek().is_some() {
                write!(sql, ", ").unwrap();
            }
        }
        write!(sql, ")").unwrap();""")
brk("c14-fk-columns-peekable-separator-inverted", ["C14"], "src/backend/mysql/foreign_key.rs",
    """        write!(sql, "(").unwrap();
        create.foreign_key.columns.iter().fold(true, |first, col| {
            if !first {
                write!(sql, ", ").unwrap();
            }
            col.prepare(sql.as_writer(), self.quote());
            false
        });
        write!(sql, ")").unwrap();""",
    """        write!(sql, "(").unwrap();
        let mut fk_cols = create.foreign_key.columns.iter().peekable();
        while let Some(col) = fk_cols.next() {
            col.prepare(sql.as_writer(), self.quote());
            if fk_cols.peek().is_none() {
                write!(sql, ", ").unwrap();
            }
        }
        write!(sql, ")").unwrap();""", "C14.R1")

ben("c08-join-keywords-lookup-table", ["C08", "C07"], "src/backend/query_builder.rs",
    """            match join_type {
                JoinType::Join => "JOIN",
                JoinType::CrossJoin => "CROSS JOIN",
                JoinType::InnerJoin => "INNER JOIN",
                JoinType::LeftJoin => "LEFT JOIN",
                JoinType::RightJoin => "RIGHT JOIN",
                JoinType::FullOuterJoin => "FULL OUTER JOIN",
            }""",
    """            {
                const KEYWORDS: [(JoinType, &str); 6] = [
                    (JoinType::Join, "JOIN"),
                    (JoinType::CrossJoin, "CROSS JOIN"),
                    (JoinType::InnerJoin, "INNER JOIN"),
                    (JoinType::LeftJoin, "LEFT JOIN"),
                    (JoinType::RightJoin, "RIGHT JOIN"),
                    (JoinType::FullOuterJoin, "FULL OUTER JOIN"),
                ];
                KEYWORDS
                    .iter()
                    .find(|(ty, _)| ty == join_type)
                    .map_or("", |(_, keyword)| keyword)
            }""")
brk("c08-join-keywords-table-misses-a-row", ["C08"], "src/backend/query_builder.rs",
    """            match join_type {
                JoinType::Join => "JOIN",
                JoinType::CrossJoin => "CROSS JOIN",
                JoinType::InnerJoin => "INNER JOIN",
                JoinType::LeftJoin => "LEFT JOIN",
                JoinType::RightJoin => "RIGHT JOIN",
                JoinType::FullOuterJoin => "FULL OUTER JOIN",
            }""",
    """            {
                const KEYWORDS: [(JoinType, &str); 5] = [
                    (JoinType::Join, "JOIN"),
                    (JoinType::CrossJoin, "CROSS JOIN"),
                    (JoinType::InnerJoin, "INNER JOIN"),
                    (JoinType::RightJoin, "RIGHT JOIN"),
                    (JoinType::FullOuterJoin, "FULL OUTER JOIN"),
                ];
                KEYWORDS
                    .iter()
                    .find(|(ty, _)| ty == join_type)
                    .map_or("", |(_, keyword)| keyword)
            }""", "C08.R1")
brk("c08-join-keywords-table-wrong-text", ["C08"], "src/backend/query_builder.rs",
    """            match join_type {
                JoinType::Join => "JOIN",
                JoinType::CrossJoin => "CROSS JOIN",
                JoinType::InnerJoin => "INNER JOIN",
                JoinType::LeftJoin => "LEFT JOIN",
                JoinType::RightJoin => "RIGHT JOIN",
                JoinType::FullOuterJoin => "FULL OUTER JOIN",
            }""",
    """            {
                const KEYWORDS: [(JoinType, &str); 6] = [
                    (JoinType::Join, "JOIN"),
                    (JoinType::CrossJoin, "CROSS JOIN"),
                    (JoinType::InnerJoin, "INNER JOIN"),
                    (JoinType::LeftJoin, "LEFT JOIN"),
                    (JoinType::RightJoin, "RIGHT OUTER"),
                    (JoinType::FullOuterJoin, "FULL OUTER JOIN"),
                ];
                KEYWORDS
                    .iter()
                    .find(|(ty, _)| ty == join_type)
                    .map_or("", |(_, keyword)| keyword)
            }""", "C08.R")

# ---- C19 -------------------------------------------------------------------------------------------------------
brk("c19-all-to-any", ["C19"], "sea-query-derive/src/lib.rs",
    "        && name.chars().all(|c| c == '_' || c.is_ascii_alphanumeric())", "        && name.chars().any(|c| c == '_' || c.is_ascii_alphanumeric())", "C19.R1:predicate")
brk("c19-and-to-or-assign", ["C19"], "sea-query-derive/src/lib.rs", "            is_all_valid &= v.must_be_valid_iden();", "            is_all_valid |= v.must_be_valid_iden();", "C19.R2:enum:flag-update")
brk("c19-swapped-branches", ["C19"], "sea-query-derive/src/lib.rs", "    let prepare = if is_all_valid {\n", "    let prepare = if !is_all_valid {\n", "C19.R2:enum:prepare-only-guarded")
brk("c19-lowercase", ["C19"], "sea-query-derive/src/iden/write_arm.rs", "            self.ident.to_string().to_snake_case()\n        }\n    }", "            self.ident.to_string().to_lowercase()\n        }\n    }", "C19.R")
brk("c19-table-lowercase-cmp", ["C19"], "sea-query-derive/src/iden/write_arm.rs", '        if self.ident == "Table" {', '        if self.ident == "table" {', "C19.R")

brk("c19-variant-default-skips-casing", ["C19"], "sea-query-derive/src/iden/write_arm.rs",
    """            .unwrap_or_else(|| {
                let name = self.table_or_snake_case();
                quote! { #name }
            });""",
    """            .unwrap_or_else(|| {
                let name = if self.ident == "Table" { self.table_or_snake_case() } else { self.ident.to_string() };
                quote! { #name }
            });""", "C19.R3:write_variant_name:default")
brk("c19-container-method-taken-as-name", ["C19"], "sea-query-derive/src/lib.rs",
    """            IdenAttr::Rename(lit) => lit,
            _ => return Err(syn::Error::new_spanned(att, ErrorMsg::ContainerAttr)),""",
    """            IdenAttr::Rename(lit) => lit,
            IdenAttr::Method(m) => m.to_string(),
            _ => return Err(syn::Error::new_spanned(att, ErrorMsg::ContainerAttr)),""", "C19.R3:get_table_name:rename")
brk("c19-container-rename-lowercased", ["C19"], "sea-query-derive/src/lib.rs",
    """            IdenAttr::Rename(lit) => lit,
            _ => return Err(syn::Error::new_spanned(att, ErrorMsg::ContainerAttr)),""",
    """            IdenAttr::Rename(lit) => lit.to_snake_case(),
            _ => return Err(syn::Error::new_spanned(att, ErrorMsg::ContainerAttr)),""", "C19.R3:get_table_name:rename")
brk("c19-enum-def-empty-suffix-defaulted", ["C19"], "sea-query-derive/src/lib.rs",
    """        args.suffix.unwrap_or_else(|| DEFAULT_SUFFIX.to_string())""",
    """        args.suffix.filter(|s| !s.is_empty()).unwrap_or_else(|| DEFAULT_SUFFIX.to_string())""", "C19.R3:enum_def:name")
ben("c19-variant-name-through-helper", ["C19"], "sea-query-derive/src/iden/write_arm.rs",
    """            .unwrap_or_else(|| {
                let name = self.table_or_snake_case();
                quote! { #name }
            });""",
    """            .unwrap_or_else(|| {
                let name = { let n = self.table_or_snake_case(); n };
                quote! { #name }
            });""")

# ---- C11 -------------------------------------------------------------------------------------------------------
brk("c11-values-num", ["C11"], "src/backend/query_builder.rs", "self.prepare_simple_expr(&values[num - 1], sql);", "self.prepare_simple_expr(&values[num], sql);", "C11.R1:custom:tape-table")
brk("c11-count-not-incremented", ["C11"], "src/backend/query_builder.rs",
    """                                self.prepare_simple_expr(&values[count], sql);
                                count += 1;""",
    """                                self.prepare_simple_expr(&values[count], sql);""", "C11.R1:custom:tape-table")
brk("c11-threshold-on-counter", ["C11"], "src/backend/query_builder.rs",
    """                                self.prepare_simple_expr(&values[count], sql);
                                count += 1;""",
    """                                if count < 6 {
                                    self.prepare_simple_expr(&values[count], sql);
                                } else {
                                    write!(sql, "{mark}").unwrap();
                                }
                                count += 1;""", "C11.R1:custom:scope", note="beyond every tabulated tape: only the small-scope rule can see it")
brk("c17-threshold-long-strings", ["C17"], "src/backend/mod.rs",
    """        let mut escape = false;
        let mut output = String::new();
        for c in string.chars() {""",
    """        let mut escape = false;
        let mut output = String::new();
        for c in string.chars().take(4096) {""", "C17.R", note="truncation beyond the tabulated lengths")
brk("c11-doubled-emits-two", ["C11"], "src/backend/query_builder.rs",
    """                                write!(sql, "{mark}").unwrap();
                                tokenizer.next();""",
    """                                write!(sql, "{mark}{mark}").unwrap();
                                tokenizer.next();""", "C11.R1:custom:tape-table")
brk("c11-inject-off-by-one", ["C11"], "src/prepare.rs", "output.push(query_builder.value_to_string(&params[num - 1]));", "output.push(query_builder.value_to_string(&params[num]));", "C11.R2:inject:tape-table")
brk("c11-cust-values-rev", ["C11"], "src/expr.rs",
    """            v.into_iter()
                .map(|v| Into::<Value>::into(v).into())
                .collect(),""",
    """            v.into_iter()
                .map(|v| Into::<Value>::into(v).into())
                .collect::<Vec<SimpleExpr>>()
                .into_iter()
                .rev()
                .collect(),""", "C11.R3:cust_with_values")

# ---- C07 / C08 / C13 / C14 ---------------------------------------------------------------------------------------
brk("c08-having-under-groups", ["C08", "C07"], "src/backend/query_builder.rs",
    """                self.prepare_simple_expr(expr, sql);
                false
            });
        }

        self.prepare_condition(&select.having, "HAVING", sql);
""",
    """                self.prepare_simple_expr(expr, sql);
                false
            });
            self.prepare_condition(&select.having, "HAVING", sql);
        }
""", "R3:guard")
brk("c07-delete-limit-dropped", ["C07", "C08"], "src/backend/query_builder.rs",
    """        self.prepare_delete_order_by(delete, sql);

        self.prepare_delete_limit(delete, sql);
""", """        self.prepare_delete_order_by(delete, sql);
""", "R3:field")
brk("c07-nulls-swapped", ["C07"], "src/backend/sqlite/query.rs",
    """            Some(NullOrdering::Last) => write!(sql, " NULLS LAST").unwrap(),
            Some(NullOrdering::First) => write!(sql, " NULLS FIRST").unwrap(),""",
    """            Some(NullOrdering::Last) => write!(sql, " NULLS FIRST").unwrap(),
            Some(NullOrdering::First) => write!(sql, " NULLS LAST").unwrap(),""", "C07.R4:kw:sqlite:NullOrdering")
brk("c08-intersect-except", ["C08"], "src/backend/query_builder.rs",
    """            UnionType::Intersect => write!(sql, " INTERSECT (").unwrap(),
            UnionType::Distinct => write!(sql, " UNION (").unwrap(),
            UnionType::Except => write!(sql, " EXCEPT (").unwrap(),""",
    """            UnionType::Intersect => write!(sql, " EXCEPT (").unwrap(),
            UnionType::Distinct => write!(sql, " UNION (").unwrap(),
            UnionType::Except => write!(sql, " INTERSECT (").unwrap(),""", "C08.R5:kw")
brk("c08-orders-rev", ["C08"], "src/backend/query_builder.rs",
    """            select.orders.iter().fold(true, |first, expr| {""", """            select.orders.iter().rev().fold(true, |first, expr| {""", "C08.R4:reorder")
brk("c08-mysql-nulls-emulation", ["C08"], "src/backend/mysql/query.rs",
    """                NullOrdering::Last => write!(sql, " IS NULL ASC, ").unwrap(),""", """                NullOrdering::Last => write!(sql, " IS NULL DESC, ").unwrap(),""", "C08.R5:kw:mysql:NullOrdering")
brk("c08-missing-close-paren", ["C08"], "src/backend/query_builder.rs",
    """                write!(sql, "(").unwrap();
                self.prepare_values_list(values, sql);
                write!(sql, ")").unwrap();""",
    """                write!(sql, "(").unwrap();
                self.prepare_values_list(values, sql);""", "C08.R2:parens")
brk("c13-affinity-point", ["C13"], "src/backend/sqlite/table.rs", """                ColumnType::Uuid => "uuid_text".into(),""", """                ColumnType::Uuid => "uuid_point".into(),""", "C13.R2:sqlite:type:Uuid")
brk("c14-mysql-unsigned-dropped", ["C14"], "src/backend/mysql/table.rs", "            ColumnType::TinyUnsigned\n                | ColumnType::SmallUnsigned", "            ColumnType::SmallUnsigned", "C14.R2:mysql:type")
ben("c14-benign-for-loop", ["C14"], "src/backend/postgres/table.rs",
    """                    let first = column_def.types.is_none();

                    column_def.spec.iter().fold(first, |first, column_spec| {""",
    """                    let mut first = column_def.types.is_none();

                    for column_spec in column_def.spec.iter() {""",
    edits=[("src/backend/postgres/table.rs", """                    let first = column_def.types.is_none();

                    column_def.spec.iter().fold(first, |first, column_spec| {""", """                    let mut first = column_def.types.is_none();

                    for column_spec in column_def.spec.iter() {"""),
           ("src/backend/postgres/table.rs", """                        first && no_clause
                    });""", """                        first = first && no_clause;
                    }""")])

# ---- C09 -------------------------------------------------------------------------------------------------------
brk("c09-sqlite-drops-offset", ["C09"], "src/backend/sqlite/query.rs",
    """    fn prepare_query_statement(&self, query: &SubQueryStatement, sql: &mut dyn SqlWriter) {""",
    """    fn prepare_select_limit_offset(&self, select: &SelectStatement, sql: &mut dyn SqlWriter) {
        if let Some(limit) = &select.limit {
            write!(sql, " LIMIT ").unwrap();
            self.prepare_value(limit, sql);
        }
    }

    fn prepare_query_statement(&self, query: &SubQueryStatement, sql: &mut dyn SqlWriter) {""", "C09.R1:override:sqlite")
brk("c09-mysql-join-spelling", ["C09"], "src/backend/mysql/query.rs",
    """            JoinType::FullOuterJoin => panic!("Mysql does not support FULL OUTER JOIN"),""",
    """            JoinType::FullOuterJoin => panic!("Mysql does not support FULL OUTER JOIN"),
            JoinType::Join => write!(sql, "STRAIGHT_JOIN").unwrap(),""", "C09.R2:agree:JoinType")


# ---- grammar refinement (R1 of C07/C08/C13/C14) ----------------------------------------------------------------------
brk("g-limit-before-order", ["C07", "C08"], "src/backend/query_builder.rs",
    """        if !select.orders.is_empty() {
            write!(sql, " ORDER BY ").unwrap();
            select.orders.iter().fold(true, |first, expr| {
                if !first {
                    write!(sql, ", ").unwrap()
                }
                self.prepare_order_expr(expr, sql);
                false
            });
        }

        self.prepare_select_limit_offset(select, sql);
""",
    """        self.prepare_select_limit_offset(select, sql);

        if !select.orders.is_empty() {
            write!(sql, " ORDER BY ").unwrap();
            select.orders.iter().fold(true, |first, expr| {
                if !first {
                    write!(sql, ", ").unwrap()
                }
                self.prepare_order_expr(expr, sql);
                false
            });
        }
""", ".R1:grammar:")
brk("g-having-before-group", ["C07", "C08"], "src/backend/query_builder.rs",
    """        self.prepare_condition(&select.r#where, "WHERE", sql);

        if !select.groups.is_empty() {""",
    """        self.prepare_condition(&select.r#where, "WHERE", sql);
        self.prepare_condition(&select.having, "HAVING", sql);

        if !select.groups.is_empty() {""", ".R1:grammar:")
brk("g-window-after-limit", ["C07"], "src/backend/query_builder.rs",
    """        if let Some((name, query)) = &select.window {
            write!(sql, " WINDOW ").unwrap();
            name.prepare(sql.as_writer(), self.quote());
            write!(sql, " AS (").unwrap();
            self.prepare_window_statement(query, sql);
            write!(sql, ")").unwrap();
        }

        if !select.unions.is_empty() {""",
    """        if !select.unions.is_empty() {""", "C07.R3", note="dropping the clause entirely is a field-consumption violation")
brk("g-returning-before-where", ["C07"], "src/backend/query_builder.rs",
    """        self.prepare_condition(&delete.r#where, "WHERE", sql);
""",
    """        self.prepare_returning(&delete.returning, sql);
        self.prepare_condition(&delete.r#where, "WHERE", sql);
""", "C07.R1:grammar:sqlite:delete")
brk("g-sqlite-autoincrement-first", ["C13"], "src/backend/sqlite/table.rs",
    """        if is_primary_key {
            write!(sql, " ").unwrap();
            self.prepare_column_spec(&ColumnSpec::PrimaryKey, sql);
        }
        if is_auto_increment {
            write!(sql, " ").unwrap();
            self.prepare_column_spec(&ColumnSpec::AutoIncrement, sql);
        }""",
    """        if is_auto_increment {
            write!(sql, " ").unwrap();
            self.prepare_column_spec(&ColumnSpec::AutoIncrement, sql);
        }
        if is_primary_key {
            write!(sql, " ").unwrap();
            self.prepare_column_spec(&ColumnSpec::PrimaryKey, sql);
        }""", "C13.R1:grammar:sqlite:table_create")
brk("g-sqlite-pk-in-place", ["C13"], "src/backend/sqlite/table.rs",
    """            if let ColumnSpec::AutoIncrement = column_spec {
                is_auto_increment = true;
                continue;
            }
            if let ColumnSpec::Comment(_) = column_spec {""",
    """            if let ColumnSpec::AutoIncrement = column_spec {
                is_auto_increment = true;
            }
            if let ColumnSpec::Comment(_) = column_spec {""", "C13.R1:grammar:sqlite:table_create")
brk("g-pg-alter-no-comma", ["C14"], "src/backend/postgres/table.rs",
    """                        if !first && !no_clause {
                            write!(sql, ", ").unwrap();
                        }""",
    """                        if !first && no_clause {
                            write!(sql, ", ").unwrap();
                        }""", "C14.R")
brk("g-mysql-fk-add-missing", ["C14"], "src/backend/mysql/foreign_key.rs",
    """        if mode != Mode::Creation {
            write!(sql, "ADD ").unwrap();
        }""",
    """        if mode == Mode::TableAlter {
            write!(sql, "ADD ").unwrap();
        }""", "C14.R1:grammar:mysql:fk_create")
brk("g-pg-index-if-not-exists-order", ["C14"], "src/backend/postgres/index.rs",
    """        write!(sql, "INDEX ").unwrap();

        if create.if_not_exists {
            write!(sql, "IF NOT EXISTS ").unwrap();
        }
""",
    """        if create.if_not_exists {
            write!(sql, "IF NOT EXISTS ").unwrap();
        }
        write!(sql, "INDEX ").unwrap();
""", "C14.R1:grammar:postgres:index_create")
ben("g-benign-limit-helper-inline", ["C07", "C08"], "src/backend/query_builder.rs",
    """        self.prepare_select_limit_offset(select, sql);

        if let Some(lock) = &select.lock {""",
    """        if let Some(limit) = &select.limit {
            write!(sql, " LIMIT ").unwrap();
            self.prepare_value(limit, sql);
        }
        if let Some(offset) = &select.offset {
            write!(sql, " OFFSET ").unwrap();
            self.prepare_value(offset, sql);
        }

        if let Some(lock) = &select.lock {""")
ben("g-benign-pg-alter-match-guard", ["C14"], "src/backend/postgres/table.rs",
    """                        if !first && !no_clause {
                            write!(sql, ", ").unwrap();
                        }""",
    """                        if !(first || no_clause) {
                            write!(sql, ", ").unwrap();
                        }""")
ben("g-benign-index-columns-first-rest", ["C13", "C14"], "src/backend/index_builder.rs",
    """        columns.iter().fold(true, |first, col| {
            if !first {
                write!(sql, ", ").unwrap();
            }
            col.name.prepare(sql.as_writer(), self.quote());
            self.write_column_index_prefix(&col.prefix, sql);
            if let Some(order) = &col.order {
                match order {
                    IndexOrder::Asc => write!(sql, " ASC").unwrap(),
                    IndexOrder::Desc => write!(sql, " DESC").unwrap(),
                }
            }
            false
        });""",
    """        let mut columns = columns.iter();
        if let Some(col) = columns.next() {
            col.name.prepare(sql.as_writer(), self.quote());
            self.write_column_index_prefix(&col.prefix, sql);
            if let Some(order) = &col.order {
                match order {
                    IndexOrder::Asc => write!(sql, " ASC").unwrap(),
                    IndexOrder::Desc => write!(sql, " DESC").unwrap(),
                }
            }
        }
        for col in columns {
            write!(sql, ", ").unwrap();
            col.name.prepare(sql.as_writer(), self.quote());
            self.write_column_index_prefix(&col.prefix, sql);
            if let Some(order) = &col.order {
                match order {
                    IndexOrder::Asc => write!(sql, " ASC").unwrap(),
                    IndexOrder::Desc => write!(sql, " DESC").unwrap(),
                }
            }
        }""")
ben("c10-benign-row-via-prepare-tuple", ["C10", "C07", "C08"], "src/backend/query_builder.rs",
    """                            write!(sql, "(").unwrap();
                            row.iter().fold(true, |first, col| {
                                if !first {
                                    write!(sql, ", ").unwrap()
                                }
                                self.prepare_simple_expr(col, sql);
                                false
                            });
                            write!(sql, ")").unwrap();
                            false""",
    """                            self.prepare_tuple(row, sql);
                            false""")
brk("c10-row-tuple-unwrapped", ["C10"], "src/backend/query_builder.rs",
    """                            write!(sql, "(").unwrap();
                            row.iter().fold(true, |first, col| {
                                if !first {
                                    write!(sql, ", ").unwrap()
                                }
                                self.prepare_simple_expr(col, sql);
                                false
                            });
                            write!(sql, ")").unwrap();
                            false""",
    """                            match row.as_slice() {
                                [SimpleExpr::Tuple(exprs)] => self.prepare_tuple(exprs, sql),
                                _ => self.prepare_tuple(row, sql),
                            }
                            false""", "C10.R4:row-data:table")
brk("c11-numbered-arm-unguarded", ["C11", "C01"], "src/backend/query_builder.rs",
    """                            Some(Token::Unquoted(tok)) if numbered => {""",
    """                            Some(Token::Unquoted(tok)) if numbered || !numbered => {""", "custom:", note="guard still mentions numbered: must be seen through")
ben("g-benign-window-sep-variable", ["C07", "C08"], "src/backend/query_builder.rs",
    """        if !window.partition_by.is_empty() {
            write!(sql, "PARTITION BY ").unwrap();""",
    """        let mut sep = "";
        if !window.partition_by.is_empty() {
            write!(sql, "PARTITION BY ").unwrap();
            sep = " ";""",
    edits=[("src/backend/query_builder.rs", """        if !window.partition_by.is_empty() {
            write!(sql, "PARTITION BY ").unwrap();""", """        let mut sep = "";
        if !window.partition_by.is_empty() {
            sep = " ";
            write!(sql, "PARTITION BY ").unwrap();"""),
           ("src/backend/query_builder.rs", """        if !window.order_by.is_empty() {
            write!(sql, " ORDER BY ").unwrap();""", """        if !window.order_by.is_empty() {
            write!(sql, "{sep}ORDER BY ").unwrap();
            sep = " ";"""),
           ("src/backend/query_builder.rs", """                FrameType::Range => write!(sql, " RANGE ").unwrap(),
                FrameType::Rows => write!(sql, " ROWS ").unwrap(),""", """                FrameType::Range => write!(sql, "{sep}RANGE ").unwrap(),
                FrameType::Rows => write!(sql, "{sep}ROWS ").unwrap(),""")])
brk("g-window-sep-not-updated", ["C08"], "src/backend/query_builder.rs",
    "", "", "C08.R1:grammar:",
    edits=[("src/backend/query_builder.rs", """        if !window.partition_by.is_empty() {
            write!(sql, "PARTITION BY ").unwrap();""", """        let mut sep = "";
        if !window.partition_by.is_empty() {
            sep = " ";
            write!(sql, "PARTITION BY ").unwrap();"""),
           ("src/backend/query_builder.rs", """        if !window.order_by.is_empty() {
            write!(sql, " ORDER BY ").unwrap();""", """        if !window.order_by.is_empty() {
            write!(sql, "{sep}ORDER BY ").unwrap();"""),
           ("src/backend/query_builder.rs", """                FrameType::Range => write!(sql, " RANGE ").unwrap(),
                FrameType::Rows => write!(sql, " ROWS ").unwrap(),""", """                FrameType::Range => write!(sql, "{sep}RANGE ").unwrap(),
                FrameType::Rows => write!(sql, "{sep}ROWS ").unwrap(),""")])
